import Driver.Common
import Sourmash.Model.HLL
import Sourmash.Model.HLLFloat
/-! C18 driver.  Model column: the integer model (`counts`, `five`, the `…G` bookkeeping of
`Model/HLLFloat.lean`) instantiated with the binary64 transcription of the secant iteration
(`Hll.F.mleIter`) — compared bit for bit with the crate.  Spec column: what the property demands
and a finite run can decide: `0` for an empty sketch, `within` the 6σ+1 window, `consistent`,
`same`. -/
open Driver Hll

def splitmix64 (i : UInt64) : UInt64 :=
  let z := i + 0x9E3779B97F4A7C15
  let z := (z ^^^ (z >>> 30)) * 0xBF58476D1CE4E5B9
  let z := (z ^^^ (z >>> 27)) * 0x94D049BB133111EB
  z ^^^ (z >>> 31)

structure Sk where
  h : H
  start : Nat
  n : Nat

structure St where
  a : Option Sk := none
  b : Option Sk := none

def build (p start n : Nat) : Option Sk :=
  match H.new p 21 with
  | .ok h =>
    let h := Id.run do
      let mut h := h
      for i in [0:n] do
        h := h.add (splitmix64 (UInt64.ofNat (start + i))).toNat
      return h
    some { h := h, start := start, n := n }
  | .error _ => none

def hex16 (x : UInt64) : String :=
  String.ofList ((List.range 16).map (fun i => hexDigit ((x >>> (UInt64.ofNat (60 - 4 * i))).toNat % 16)))

/-- f64 bit pattern; NaN has no canonical one (`Float.toBits` canonicalises, Rust does not) -/
def fbits (f : Float) : String := if f.isNaN then "nan" else hex16 f.toBits

/-- `|est − truth| ≤ mult · 1.04/√m · scale + slack`, exactly: `(d − slack)² · m · 10⁴ ≤ (mult·104·scale)²` -/
def within (est truth scale p mult slack : Nat) : Bool :=
  let d := if est ≥ truth then est - truth else truth - est
  if d ≤ slack then true else
    let d := d - slack
    -- the harness computes in u128 and reports `outside` when the left side does not fit
    let lhs := d * d * (2 ^ p * 10000)
    let rhs := mult * 104 * scale
    if lhs ≥ 2 ^ 128 then false else if rhs * rhs ≥ 2 ^ 128 then true else decide (lhs ≤ rhs * rhs)

def overlap (a b : Sk) : Nat × Nat :=
  let lo := max a.start b.start
  let hi := min (a.start + a.n) (b.start + b.n)
  let inter := hi - lo
  (inter, a.n + b.n - inter)

def stepC18 (st : St) (ws : List String) : St × Resp :=
  let which (w : String) : Option Sk := if w == "A" then st.a else st.b
  match ws with
  | "case" :: _ => (st, { model := "ok" })
  | [w, p, start, n] =>
    let sk := build p.toNat! start.toNat! n.toNat!
    let nz := match sk with
      | some s => s.h.regs.foldl (fun n r => if r == 0 then n else n + 1) 0
      | none => 0
    if w == "A" then ({ st with a := sk }, { model := s!"nz={nz}" })
    else if w == "B" then ({ st with b := sk }, { model := s!"nz={nz}" })
    else (st, { model := "bad-op" })
  | ["hist", w] =>
    match which w with
    | some s => (st, { model := showNats (counts s.h.regs s.h.q).toList })
    | none => (st, { model := "none" })
  | ["card", w] =>
    match which w with
    | some s =>
      let f := F.mle (counts s.h.regs s.h.q) s.h.p s.h.q (relerrOf s.h.p)
      (st, { model := s!"card={F.cardinality s.h} bits={fbits f}" })
    | none => (st, { model := "none" })
  | ["cardint", w] =>
    match which w with
    | some s => (st, { model := toString (F.cardinality s.h), spec := if s.n == 0 then "0" else "-" })
    | none => (st, { model := "none" })
  | ["bound", w] =>
    match which w with
    | some s =>
      let ok := within (F.cardinality s.h) s.n s.n s.h.p 6 1
      (st, { model := if ok then "within" else "outside", spec := "within" })
    | none => (st, { model := "none" })
  | [op] =>
    match st.a, st.b with
    | some a, some b =>
      let t := tripleG F.mleIter a.h b.h
      if op == "joint" then (st, { model := s!"a={t.1} b={t.2.1} i={t.2.2}" })
      else if op == "api" then
        (st, { model := s!"u={unionG F.mleIter a.h b.h} i={intersectionG F.mleIter a.h b.h} s={fbits (similarityG F.mleIter a.h b.h)} c={fbits (containmentG F.mleIter a.h b.h)}" })
      else if op == "consist" then
        -- in the model the four answers are functions of one triple by definition (Theorems/C18, T-consistent)
        (st, { model := "consistent", spec := "consistent" })
      else if op == "jhist" then
        let m := match a.h.merge b.h with | .ok m => m | .error _ => a.h
        let c001 (h : H) := F.mle (counts h.regs h.q) h.p h.q 0.01
        let ok := satUsize (c001 m - c001 b.h) == t.1 && satUsize (c001 m - c001 a.h) == t.2.1
        (st, { model := if ok then "same" else "differ", spec := "same" })
      else if op == "jbound" then
        let (ti, tu) := overlap a b
        let u := t.1 + t.2.1 + t.2.2
        let bad := (if within u tu tu a.h.p 10 1 then [] else ["union"]) ++
                   (if within t.2.2 ti tu a.h.p 10 1 then [] else ["intersection"])
        (st, { model := if bad.isEmpty then "within" else "outside " ++ ",".intercalate bad, spec := "within" })
      else (st, { model := "bad-op" })
    | _, _ => (st, { model := "none" })
  | _ => (st, { model := "bad-op" })

def main : IO Unit := Driver.run ({} : St) stepC18
