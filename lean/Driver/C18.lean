import Driver.Common
import Sourmash.Model.HLL
import Sourmash.Model.HLLFloat
import Sourmash.Model.Murmur
import Sourmash.Spec.Kmers
/-! C18 driver.  Model column: the integer model (`counts`, `five`, the `…G` bookkeeping of
`Model/HLLFloat.lean`) instantiated with the binary64 transcription of the secant iteration
(`Hll.F.mleIter`) — compared bit for bit with the crate.  Spec column: what the property demands
and a finite run can decide: `0` for an empty sketch, `within` the window (6σ+1 for p ≥ 8, wider below), `consistent`,
`same`.

Every estimate op (`card`, `cardint`, `cardffi`, `bound`, `joint`, `api`, `apiffi`, `consist`,
`jbound`) is answered from the CURRENT registers of the model sketch and, for the windows, the
CURRENT true size of the union of everything the sketch received — the histories ask them before
and after every kind of mutation on the same object.  `fresh` / `freshj` (the object's estimates
against those of a sketch freshly loaded from its saved bytes) are `same` by definition in the
model, where an estimate is a function of the registers; the spec column demands `same`. -/
open Driver Hll

def splitmix64 (i : UInt64) : UInt64 :=
  let z := i + 0x9E3779B97F4A7C15
  let z := (z ^^^ (z >>> 30)) * 0xBF58476D1CE4E5B9
  let z := (z ^^^ (z >>> 27)) * 0x94D049BB133111EB
  z ^^^ (z >>> 31)

/-- a sketch and its true set: the union of these index ranges `(start, n)` of the splitmix64 stream -/
structure Sk where
  h : H
  ranges : List (Nat × Nat)
  /-- further members of the true set (k-mer hashes of `addseq`): ascending, distinct, taken to be
      outside the splitmix64 stream -/
  extra : List Nat := []

def sortedSet (l : List Nat) : List Nat :=
  let a := l.toArray.qsort (· < ·)
  (a.foldl (fun (acc : List Nat) x => match acc with
    | y :: _ => if x == y then acc else x :: acc
    | [] => [x]) []).reverse

/-- size of a union of index ranges -/
def unionSize (ranges : List (Nat × Nat)) : Nat :=
  let v := ((ranges.filter (·.2 > 0)).map (fun r => (r.1, r.1 + r.2))).toArray.qsort
    (fun a b => a.1 < b.1 || (a.1 == b.1 && a.2 < b.2))
  (v.foldl (fun (acc : Nat × Nat) r =>
    let lo := max r.1 acc.2
    if r.2 > lo then (acc.1 + (r.2 - lo), r.2) else acc) (0, 0)).1

def Sk.n (s : Sk) : Nat := unionSize s.ranges + s.extra.length

/-- `add_hash(splitmix64(i))` for `start ≤ i < start + n` on top of `h` -/
def addRange (h : H) (start n : Nat) : H := Id.run do
  let mut h := h
  for i in [0:n] do
    h := h.add (splitmix64 (UInt64.ofNat (start + i))).toNat
  return h

def nzOf (h : H) : Nat := h.regs.foldl (fun n r => if r == 0 then n else n + 1) 0

structure St where
  a : Option Sk := none
  b : Option Sk := none

def build (p start n : Nat) (k : Nat := 21) : Option Sk :=
  match H.new p k with
  | .ok h => some { h := addRange h start n, ranges := [(start, n)] }
  | .error _ => none

def hex16 (x : UInt64) : String :=
  String.ofList ((List.range 16).map (fun i => hexDigit ((x >>> (UInt64.ofNat (60 - 4 * i))).toNat % 16)))

/-- f64 bit pattern; NaN has no canonical one (`Float.toBits` canonicalises, Rust does not) -/
def fbits (f : Float) : String := if f.isNaN then "nan" else hex16 f.toBits

/-- `|est − truth| ≤ mult · 1.04/√m · scale + slack`, exactly: `(d − slack)² · m · 10⁴ ≤ (mult·104·scale)²` -/
def within (est truth scale p mult slack : Nat) : Bool :=
  let d := if est ≥ truth then est - truth else truth - est
  if d ≤ slack then true else
    let d := d - slack
    -- the harness computes in u128 and reports `outside` when the left side does not fit
    let lhs := d * d * (2 ^ p * 10000)
    let rhs := mult * 104 * scale
    if lhs ≥ 2 ^ 128 then false else if rhs * rhs ≥ 2 ^ 128 then true else decide (lhs ≤ rhs * rhs)

/-- window multipliers per precision (see harness/src/bin/c18.rs: the estimator's error is heavy-tailed
    for 16 / 32 registers, the small precisions get wider windows) -/
def cardMult (p : Nat) : Nat := if p == 4 then 14 else if p == 5 then 11 else if p == 6 || p == 7 then 8 else 6
def jointMult (p : Nat) : Nat := if p == 4 then 16 else if p == 5 then 13 else 10

def overlap (a b : Sk) : Nat × Nat :=
  let union := unionSize (a.ranges ++ b.ranges) + (sortedSet (a.extra ++ b.extra)).length
  (a.n + b.n - union, union)

def stepC18 (st : St) (ws : List String) : St × Resp :=
  let which (w : String) : Option Sk := if w == "A" then st.a else st.b
  match ws with
  | "case" :: _ => (st, { model := "ok" })
  | ["addseq", w, _api, dna] =>
    -- `add_sequence(dna, false)` / `hll_add_sequence`: `add_hash` of every canonical 21-mer hash
    -- (`Spec/Kmers.lean`; the generator writes valid DNA only); the true set grows by the distinct ones
    match which w with
    | some s =>
      let st := if w == "A" then { st with a := none } else { st with b := none }
      let hs := ((Kmers.evHashes (Kmers.dnaStream 21 42 false dna.toUTF8.toList)).filter (· != 0)).map (·.toNat)
      let s : Sk := { s with h := s.h.addMany hs, extra := sortedSet (s.extra ++ hs) }
      let nz := nzOf s.h
      (if w == "A" then { st with a := some s } else { st with b := some s }, { model := s!"nz={nz}" })
    | none => (st, { model := "none" })
  | ["addh", w, _route, hs] =>
    -- explicit (small / structured) hashes through add_hash / add_many / hll_add_hash / a MinHash that
    -- keeps them all: `add_hash` of each; the true set grows by the distinct ones
    match which w with
    | some s =>
      let st := if w == "A" then { st with a := none } else { st with b := none }
      let hs := natList hs
      let s : Sk := { s with h := s.h.addMany hs, extra := sortedSet (s.extra ++ hs) }
      let nz := nzOf s.h
      (if w == "A" then { st with a := some s } else { st with b := some s }, { model := s!"nz={nz}" })
    | none => (st, { model := "none" })
  | [op, w, start, n] =>
    if !(op == "add" || op == "addmany" || op == "addffi") then
      -- `A <p> <start> <n>` / `B <p> <start> <n>`: a new sketch
      let (w, p) := (op, w)
      let sk := build p.toNat! start.toNat! n.toNat!
      let nz := match sk with
        | some s => nzOf s.h
        | none => 0
      if w == "A" then ({ st with a := sk }, { model := s!"nz={nz}" })
      else if w == "B" then ({ st with b := sk }, { model := s!"nz={nz}" })
      else (st, { model := "bad-op" })
    else
    -- more `add_hash` / `add_many` / `hll_add_hash` calls on a sketch that already has content
    match which w with
    | some s =>
      let st := if w == "A" then { st with a := none } else { st with b := none }
      let s : Sk := { s with h := addRange s.h start.toNat! n.toNat!, ranges := s.ranges ++ [(start.toNat!, n.toNat!)] }
      let nz := nzOf s.h
      (if w == "A" then { st with a := some s } else { st with b := some s }, { model := s!"nz={nz}" })
    | none => (st, { model := "none" })
  | [w, p, start, n, k] =>
    -- `A <p> <start> <n> <k>` / `B …`: a new sketch with `new(p, k)`
    let sk := build p.toNat! start.toNat! n.toNat! k.toNat!
    let nz := match sk with
      | some s => nzOf s.h
      | none => 0
    if w == "A" then ({ st with a := sk }, { model := s!"nz={nz}" })
    else if w == "B" then ({ st with b := sk }, { model := s!"nz={nz}" })
    else (st, { model := "bad-op" })
  | ["upd", w, _api, _num, start, n] =>
    -- `mh.update(&mut hll)`: the MinHash keeps every hash of the range (scaled = 1, or num ≥ n), and
    -- `update` is `add_hash` over its mins (`H.update`; the order is irrelevant, `Sourmash.C17.order_independent`)
    match which w with
    | some s =>
      let st := if w == "A" then { st with a := none } else { st with b := none }
      let s : Sk := { s with h := addRange s.h start.toNat! n.toNat!, ranges := s.ranges ++ [(start.toNat!, n.toNat!)] }
      let nz := nzOf s.h
      (if w == "A" then { st with a := some s } else { st with b := some s }, { model := s!"nz={nz}" })
    | none => (st, { model := "none" })
  | ["reload", w, _route] =>
    -- save / load is the identity on well-formed sketches with k < 256 (`Sourmash.C17.persist`)
    match which w with
    | some s =>
      match load s.h.save with
      | .ok h =>
        let s : Sk := { s with h := h }
        (if w == "A" then { st with a := some s } else { st with b := some s }, { model := s!"nz={nzOf h}" })
      | .error _ => (st, { model := "err" })
    | none => (st, { model := "none" })
  | ["fresh", w] =>
    match which w with
    | some _ => (st, { model := "same", spec := "same" })
    | none => (st, { model := "none" })
  | ["cardffi", w] =>
    match which w with
    | some s => (st, { model := toString (F.cardinality s.h), spec := if s.n == 0 then "0" else "-" })
    | none => (st, { model := "none" })
  | ["hist", w] =>
    match which w with
    | some s => (st, { model := showNats (counts s.h.regs s.h.q).toList })
    | none => (st, { model := "none" })
  | ["card", w] =>
    match which w with
    | some s =>
      let f := F.mle (counts s.h.regs s.h.q) s.h.p s.h.q (relerrOf s.h.p)
      (st, { model := s!"card={F.cardinality s.h} bits={fbits f}" })
    | none => (st, { model := "none" })
  | ["cardint", w] =>
    match which w with
    | some s => (st, { model := toString (F.cardinality s.h), spec := if s.n == 0 then "0" else "-" })
    | none => (st, { model := "none" })
  | ["bound", w] =>
    match which w with
    | some s =>
      let ok := within (F.cardinality s.h) s.n s.n s.h.p (cardMult s.h.p) 1
      (st, { model := if ok then "within" else "outside", spec := "within" })
    | none => (st, { model := "none" })
  | [op, w] =>
    let (dst, src) := if w == "A" then (st.a, st.b) else (st.b, st.a)
    if op == "mrgx" || op == "mrgxffi" then
      -- a merge that may be refused.  Model: `H.merge` (`check_compatible` first).  Spec: sketches of
      -- different k / different precision are refused - and the receiver, which the model state keeps
      -- as it is, is judged by every later estimate op against its unchanged true set
      match dst, src with
      | some d, some s =>
        let spec := if d.h.ksize != s.h.ksize then "err MismatchKSizes"
          else if d.h.p != s.h.p then "err MismatchNum" else "-"
        match d.h.merge s.h with
        | .ok h =>
          let d : Sk := { h := h, ranges := d.ranges ++ s.ranges, extra := sortedSet (d.extra ++ s.extra) }
          (if w == "A" then { st with a := some d } else { st with b := some d }, { model := s!"ok nz={nzOf h}", spec := spec })
        | .error e => (st, { model := "err " ++ e.name, spec := spec })
      | _, _ => (st, { model := "none" })
    else
    if !(op == "mrg" || op == "mrgffi") then (st, { model := "bad-op" }) else
    match dst, src with
    | some d, some s =>
      match d.h.merge s.h with
      | .ok h =>
        let d : Sk := { h := h, ranges := d.ranges ++ s.ranges, extra := sortedSet (d.extra ++ s.extra) }
        (if w == "A" then { st with a := some d } else { st with b := some d }, { model := s!"nz={nzOf h}" })
      | .error _ => (st, { model := "err" })
    | _, _ => (st, { model := "none" })
  | [op] =>
    match st.a, st.b with
    | some a, some b =>
      let t := tripleG F.mleIter a.h b.h
      if op == "joint" then (st, { model := s!"a={t.1} b={t.2.1} i={t.2.2}" })
      else if op == "api" then
        (st, { model := s!"u={unionG F.mleIter a.h b.h} i={intersectionG F.mleIter a.h b.h} s={fbits (similarityG F.mleIter a.h b.h)} c={fbits (containmentG F.mleIter a.h b.h)}" })
      else if op == "apiffi" then
        (st, { model := s!"i={intersectionG F.mleIter a.h b.h} s={fbits (similarityG F.mleIter a.h b.h)} c={fbits (containmentG F.mleIter a.h b.h)}" })
      else if op == "freshj" then (st, { model := "same", spec := "same" })
      else if op == "consist" then
        -- in the model the four answers are functions of one triple by definition (Theorems/C18, T-consistent)
        (st, { model := "consistent", spec := "consistent" })
      else if op == "jhist" then
        let m := match a.h.merge b.h with | .ok m => m | .error _ => a.h
        let c001 (h : H) := F.mle (counts h.regs h.q) h.p h.q 0.01
        let ok := satUsize (c001 m - c001 b.h) == t.1 && satUsize (c001 m - c001 a.h) == t.2.1
        (st, { model := if ok then "same" else "differ", spec := "same" })
      else if op == "jbound" then
        let (ti, tu) := overlap a b
        let u := t.1 + t.2.1 + t.2.2
        let bad := (if within u tu tu a.h.p (jointMult a.h.p) 1 then [] else ["union"]) ++
                   (if within t.2.2 ti tu a.h.p (jointMult a.h.p) 1 then [] else ["intersection"])
        (st, { model := if bad.isEmpty then "within" else "outside " ++ ",".intercalate bad, spec := "within" })
      else (st, { model := "bad-op" })
    | _, _ => (st, { model := "none" })
  | _ => (st, { model := "bad-op" })

def main : IO Unit := Driver.run ({} : St) stepC18
