import Driver.Common
import Sourmash.Model.HLL
import Sourmash.Model.HLLFloat
/-! C18 driver.  Model column: the integer model (`counts`, `five`, the `…G` bookkeeping of
`Model/HLLFloat.lean`) instantiated with the binary64 transcription of the secant iteration
(`Hll.F.mleIter`) — compared bit for bit with the crate.  Spec column: what the property demands
and a finite run can decide: `0` for an empty sketch, `within` the 6σ+1 window, `consistent`,
`same`. -/
open Driver Hll

def splitmix64 (i : UInt64) : UInt64 :=
  let z := i + 0x9E3779B97F4A7C15
  let z := (z ^^^ (z >>> 30)) * 0xBF58476D1CE4E5B9
  let z := (z ^^^ (z >>> 27)) * 0x94D049BB133111EB
  z ^^^ (z >>> 31)

/-- a sketch and its true set: the union of these index ranges `(start, n)` of the splitmix64 stream -/
structure Sk where
  h : H
  ranges : List (Nat × Nat)

/-- size of a union of index ranges -/
def unionSize (ranges : List (Nat × Nat)) : Nat :=
  let v := ((ranges.filter (·.2 > 0)).map (fun r => (r.1, r.1 + r.2))).toArray.qsort
    (fun a b => a.1 < b.1 || (a.1 == b.1 && a.2 < b.2))
  (v.foldl (fun (acc : Nat × Nat) r =>
    let lo := max r.1 acc.2
    if r.2 > lo then (acc.1 + (r.2 - lo), r.2) else acc) (0, 0)).1

def Sk.n (s : Sk) : Nat := unionSize s.ranges

/-- `add_hash(splitmix64(i))` for `start ≤ i < start + n` on top of `h` -/
def addRange (h : H) (start n : Nat) : H := Id.run do
  let mut h := h
  for i in [0:n] do
    h := h.add (splitmix64 (UInt64.ofNat (start + i))).toNat
  return h

def nzOf (h : H) : Nat := h.regs.foldl (fun n r => if r == 0 then n else n + 1) 0

structure St where
  a : Option Sk := none
  b : Option Sk := none

def build (p start n : Nat) : Option Sk :=
  match H.new p 21 with
  | .ok h => some { h := addRange h start n, ranges := [(start, n)] }
  | .error _ => none

def hex16 (x : UInt64) : String :=
  String.ofList ((List.range 16).map (fun i => hexDigit ((x >>> (UInt64.ofNat (60 - 4 * i))).toNat % 16)))

/-- f64 bit pattern; NaN has no canonical one (`Float.toBits` canonicalises, Rust does not) -/
def fbits (f : Float) : String := if f.isNaN then "nan" else hex16 f.toBits

/-- `|est − truth| ≤ mult · 1.04/√m · scale + slack`, exactly: `(d − slack)² · m · 10⁴ ≤ (mult·104·scale)²` -/
def within (est truth scale p mult slack : Nat) : Bool :=
  let d := if est ≥ truth then est - truth else truth - est
  if d ≤ slack then true else
    let d := d - slack
    -- the harness computes in u128 and reports `outside` when the left side does not fit
    let lhs := d * d * (2 ^ p * 10000)
    let rhs := mult * 104 * scale
    if lhs ≥ 2 ^ 128 then false else if rhs * rhs ≥ 2 ^ 128 then true else decide (lhs ≤ rhs * rhs)

def overlap (a b : Sk) : Nat × Nat :=
  let union := unionSize (a.ranges ++ b.ranges)
  (a.n + b.n - union, union)

def stepC18 (st : St) (ws : List String) : St × Resp :=
  let which (w : String) : Option Sk := if w == "A" then st.a else st.b
  match ws with
  | "case" :: _ => (st, { model := "ok" })
  | ["add", w, start, n] =>
    -- more `add_hash` calls on a sketch that already has content
    match which w with
    | some s =>
      let st := if w == "A" then { st with a := none } else { st with b := none }
      let s : Sk := { h := addRange s.h start.toNat! n.toNat!, ranges := s.ranges ++ [(start.toNat!, n.toNat!)] }
      let nz := nzOf s.h
      (if w == "A" then { st with a := some s } else { st with b := some s }, { model := s!"nz={nz}" })
    | none => (st, { model := "none" })
  | ["upd", w, _api, _num, start, n] =>
    -- `mh.update(&mut hll)`: the MinHash keeps every hash of the range (scaled = 1, or num ≥ n), and
    -- `update` is `add_hash` over its mins (`H.update`; the order is irrelevant, `Sourmash.C17.order_independent`)
    match which w with
    | some s =>
      let st := if w == "A" then { st with a := none } else { st with b := none }
      let s : Sk := { h := addRange s.h start.toNat! n.toNat!, ranges := s.ranges ++ [(start.toNat!, n.toNat!)] }
      let nz := nzOf s.h
      (if w == "A" then { st with a := some s } else { st with b := some s }, { model := s!"nz={nz}" })
    | none => (st, { model := "none" })
  | ["reload", w, _route] =>
    -- save / load is the identity on well-formed sketches with k < 256 (`Sourmash.C17.persist`)
    match which w with
    | some s =>
      match load s.h.save with
      | .ok h =>
        let s : Sk := { s with h := h }
        (if w == "A" then { st with a := some s } else { st with b := some s }, { model := s!"nz={nzOf h}" })
      | .error _ => (st, { model := "err" })
    | none => (st, { model := "none" })
  | ["mrg", w] =>
    let (dst, src) := if w == "A" then (st.a, st.b) else (st.b, st.a)
    match dst, src with
    | some d, some s =>
      match d.h.merge s.h with
      | .ok h =>
        let d : Sk := { h := h, ranges := d.ranges ++ s.ranges }
        (if w == "A" then { st with a := some d } else { st with b := some d }, { model := s!"nz={nzOf h}" })
      | .error _ => (st, { model := "err" })
    | _, _ => (st, { model := "none" })
  | [w, p, start, n] =>
    let sk := build p.toNat! start.toNat! n.toNat!
    let nz := match sk with
      | some s => nzOf s.h
      | none => 0
    if w == "A" then ({ st with a := sk }, { model := s!"nz={nz}" })
    else if w == "B" then ({ st with b := sk }, { model := s!"nz={nz}" })
    else (st, { model := "bad-op" })
  | ["hist", w] =>
    match which w with
    | some s => (st, { model := showNats (counts s.h.regs s.h.q).toList })
    | none => (st, { model := "none" })
  | ["card", w] =>
    match which w with
    | some s =>
      let f := F.mle (counts s.h.regs s.h.q) s.h.p s.h.q (relerrOf s.h.p)
      (st, { model := s!"card={F.cardinality s.h} bits={fbits f}" })
    | none => (st, { model := "none" })
  | ["cardint", w] =>
    match which w with
    | some s => (st, { model := toString (F.cardinality s.h), spec := if s.n == 0 then "0" else "-" })
    | none => (st, { model := "none" })
  | ["bound", w] =>
    match which w with
    | some s =>
      let ok := within (F.cardinality s.h) s.n s.n s.h.p 6 1
      (st, { model := if ok then "within" else "outside", spec := "within" })
    | none => (st, { model := "none" })
  | [op] =>
    match st.a, st.b with
    | some a, some b =>
      let t := tripleG F.mleIter a.h b.h
      if op == "joint" then (st, { model := s!"a={t.1} b={t.2.1} i={t.2.2}" })
      else if op == "api" then
        (st, { model := s!"u={unionG F.mleIter a.h b.h} i={intersectionG F.mleIter a.h b.h} s={fbits (similarityG F.mleIter a.h b.h)} c={fbits (containmentG F.mleIter a.h b.h)}" })
      else if op == "consist" then
        -- in the model the four answers are functions of one triple by definition (Theorems/C18, T-consistent)
        (st, { model := "consistent", spec := "consistent" })
      else if op == "jhist" then
        let m := match a.h.merge b.h with | .ok m => m | .error _ => a.h
        let c001 (h : H) := F.mle (counts h.regs h.q) h.p h.q 0.01
        let ok := satUsize (c001 m - c001 b.h) == t.1 && satUsize (c001 m - c001 a.h) == t.2.1
        (st, { model := if ok then "same" else "differ", spec := "same" })
      else if op == "jbound" then
        let (ti, tu) := overlap a b
        let u := t.1 + t.2.1 + t.2.2
        let bad := (if within u tu tu a.h.p 10 1 then [] else ["union"]) ++
                   (if within t.2.2 ti tu a.h.p 10 1 then [] else ["intersection"])
        (st, { model := if bad.isEmpty then "within" else "outside " ++ ",".intercalate bad, spec := "within" })
      else (st, { model := "bad-op" })
    | _, _ => (st, { model := "none" })
  | _ => (st, { model := "bad-op" })

def main : IO Unit := Driver.run ({} : St) stepC18
