import Driver.Common
import Sourmash.Model.Ani
import Sourmash.Model.AniFloat
import Sourmash.Model.Scaled
/-! C19 driver: the ANI model instantiated with `Float` (model column) and the property's demands
(spec column).  Floats travel as 16-hex-digit bit patterns, `nan` for NaN, `-` for `None`. -/
open Driver Sourmash.Ani

def hex16 (n : Nat) : String :=
  String.ofList ((List.range 16).map fun i => hexDigit ((n >>> (4 * (15 - i))) % 16))

def fb (x : Float) : String := if x.isNaN then "nan" else hex16 x.toBits.toNat

def pf (s : String) : Float :=
  Float.ofBits (UInt64.ofNat (s.toList.foldl (fun a c => a * 16 + hexVal c) 0))

def pconf (s : String) : Option Float := if s == "-" then none else some (pf s)

def point (c : Float) (k : Nat) : Float := aniFromContainment c (lit k)

/-- no root finder in the model: only the branches that do not reach it are evaluated -/
def noBrent : Float → Float → (Float → Float) → Option Float := fun _ _ _ => none

def ciDegenerate (c : Float) (k scaled n : Nat) (conf : Option Float) : Option (Float × Float) :=
  if c == 0.0 || c == 1.0 then some (aniCiFromContainment noBrent (fun x => x) c k scaled n conf) else none

def ordTok (a b : Float) : String :=
  if a < b then "lt" else if a == b then "eq" else if a > b then "gt" else "unordered"

def inUnit (x : Float) : Bool := 0.0 ≤ x && x ≤ 1.0

def stepC19 (s : Unit) (ws : List String) : Unit × Resp :=
  match ws with
  | "case" :: _ => (s, { model := "ok" })
  | ["point", c, k] =>
    let c := pf c
    (s, { model := fb (point c k.toNat!),
          spec := if c == 0.0 then hex16 0 else if c == 1.0 then fb 1.0 else "-" })
  | ["prange", c, k] =>
    let p := point (pf c) k.toNat!
    (s, { model := if inUnit p then "in01" else "out01 " ++ fb p, spec := "in01" })
  | ["mono", c1, c2, k] =>
    let (c1, c2, k) := (pf c1, pf c2, k.toNat!)
    (s, { model := ordTok (point c1 k) (point c2 k), spec := ordTok c1 c2 })
  | ["monole", c1, c2, k] =>
    let (c1, c2, k) := (pf c1, pf c2, k.toNat!)
    let (a, b) := (point c1 k, point c2 k)
    (s, { model := if (c1 ≤ c2 && a ≤ b) || (c1 ≥ c2 && a ≥ b) then "le" else s!"inv {fb a} {fb b}",
          spec := "le" })
  | ["ci", c, k, sc, n, conf] =>
    let c := pf c
    match ciDegenerate c k.toNat! sc.toNat! n.toNat! (pconf conf) with
    | some (lo, hi) =>
      let p := point c k.toNat!
      -- the model is a function of the request alone (theorem `ci_history_independent`): `fresh-same`
      (s, { model := (if lo == p && hi == p && p == c then "degenerate" else "nondegenerate") ++ " fresh-same",
            spec := "degenerate fresh-same" })
    -- the property on the computed interval, and: the answer does not depend on what this thread was
    -- asked before (it equals the answer of a thread that was never asked anything)
    | none => (s, { model := "-", spec := "in01 ordered fresh-same" })
  | ["cib", c, k, sc, n, conf] =>
    match ciDegenerate (pf c) k.toNat! sc.toNat! n.toNat! (pconf conf) with
    | some (lo, hi) => (s, { model := s!"{fb lo} {fb hi}", spec := s!"{fb (pf c + 0.0)} {fb (pf c + 0.0)}" })
    | none => (s, { model := "-" })
  | "ref" :: _ => (s, { model := "-", spec := "close" })
  | "pin" :: "point" :: _ :: _ :: bits => (s, { model := " ".intercalate bits })
  | "pin" :: "ci" :: _ :: _ :: _ :: _ :: _ :: bits => (s, { model := " ".intercalate bits })
  | ["mid", "q", k, r1] => (s, { model := fb (r1ToQ k.toNat! (pf r1)) })
  | ["mid", "expn", n, k, r1] => (s, { model := fb (expNMutated (lit n.toNat! : Float) k.toNat! (pf r1)) })
  | ["mid", "varn", n, k, r1] =>
    (s, { model := match varNMutated (lit n.toNat! : Float) k.toNat! (pf r1) with
                   | some v => fb v
                   | none => "err ANIEstimationError" })
  | ["mid", "expsq", n, k, r1] =>
    (s, { model := match expNMutatedSquared (lit n.toNat! : Float) k.toNat! (pf r1) with
                   | some v => fb v
                   | none => "err ANIEstimationError" })
  | ["mid", "pnc", ani, k, sc, n] =>
    (s, { model := fb (expProbabilityNothingCommon (pf ani) k.toNat! (fScaled sc.toNat!) n.toNat!) })
  | ["mid", "f12", c, k, sc, n, conf, z, pest] =>
    let (c, k, sc, n, z, pest) := (pf c, k.toNat!, sc.toNat!, n.toNat!, pf z, pf pest)
    (s, { model := s!"{fb (ciF1 z c k sc n pest)} {fb (ciF2 z c k sc n pest)} {fb (probitArg (pconf conf))}" })
  | "gather" :: k :: sc :: conf :: calcCi :: orig :: remaining :: mat :: matchSize :: rest =>
    let (k, sc) := (k.toNat!, sc.toNat!)
    let ms := match rest with
      | m :: _ => m.toNat!
      | [] => sc
    let mq := Scaled.maxHashForScaled sc
    -- the three sketches as `add_hash` builds them at their own scaled
    let orig := sketchOf mq (natList orig)
    let remaining := sketchOf mq (natList remaining)
    let mat := sketchOf (Scaled.maxHashForScaled ms) (natList mat)
    -- the interval itself goes through Brent/probit: the harness checks that the fields are the
    -- function's values at (f_unique_to_query | f_match, ksize, scaled, n_unique_kmers, confidence)
    -- of the DOWNSAMPLED match (`nu=` ties its n_unique_kmers to the model's)
    match gatherStatsAni (fun _ _ _ _ _ => ((0.0 : Float), (0.0 : Float))) mq k sc ms orig remaining mat
        matchSize.toNat! (calcCi == "1") (pconf conf) with
    | none => (s, { model := "err CannotUpsampleScaled" })
    | some (r, g, nu) =>
      let tok (o : Option (Float × Float)) := if o.isSome then "same" else "none"
      (s, { model := " ".intercalate <|
        [fb r.fOrigQuery, fb r.fMatchOrig, fb r.fUniqueToQuery, fb r.fMatch,
         fb g.queryContainmentAni, fb g.matchContainmentAni, fb g.averageContainmentAni,
         fb g.maxContainmentAni, tok g.queryCi, tok g.matchCi, s!"nu={nu}"] })
  | "gatherv" :: _ :: sc :: _ :: _ :: _ :: _ :: _ :: _ :: rest =>
    -- the property on the reported values, and: a finer match gives exactly what the same match
    -- downsampled before the call gives (theorem `gather_downsample_invariant` for the model)
    let coarser : Bool := match rest with
      | m :: _ => decide (m.toNat! > sc.toNat!)
      | [] => false
    (s, { model := "-",
          spec := if coarser then "err CannotUpsampleScaled"
                  else "ani-ok avg-ok max-ok ci-ok pre-ratios-same pre-ani-same pre-ci-same" })
  | _ => (s, { model := "bad-op" })

def main : IO Unit := Driver.run () stepC19
