import Driver.Common
import Sourmash.Model.Scaled
/-! C14 driver: exact binary64 model of the scaled <-> max_hash conversions. -/
open Driver Scaled

def pow31 : Nat := 2147483648

def stepC14 (s : Unit) (ws : List String) : Unit × Resp :=
  match ws with
  | "case" :: _ => (s, { model := "ok" })
  | ["mh", n] =>
    let n := n.toNat!
    (s, { model := toString (maxHashForScaled n),
          spec := if n == 0 then "0" else if n == 1 then toString u64max else "-" })
  | ["sc", m] => (s, { model := toString (scaledForMaxHash m.toNat!) })
  | ["close", n] =>
    -- |max_hash s − 2^64/s| < 1 + (2^64/s)·2^−52, cross-multiplied: s·2^52·|M·s − 2^64| < s·2^52·… ; report the boolean
    let n := n.toNat!
    let M := maxHashForScaled n
    let lhs := if M * n ≥ 2^64 then M * n - 2^64 else 2^64 - M * n      -- |M·s − 2^64|
    let ok := decide (lhs * 2^52 < n * 2^52 + 2^64)
    (s, { model := if ok then "close" else "far", spec := if n ≥ 2 then "close" else "-" })
  -- round trip as every consumer performs it (new / downsample / select / record all go through it)
  | [op, n] =>
    if op == "rt" || op == "new" || op == "newtree" || op == "ds" || op == "dsn" || op == "seln" || op == "rec" || op == "sel" then
      let n := n.toNat!
      let r := scaledForMaxHash (maxHashForScaled n)
      (s, { model := toString r, spec := if n ≤ pow31 then toString n else "-" })
    else (s, { model := "bad-op" })
  -- the same consumers on a sketch that carries a num next to its scaled (`[op, s, num]`), and through
  -- ComputeParameters -> Signature::from_params (`[fp|fprec|fpsel, s, num_hashes|d, moltype, track]`):
  -- num, molecule and abundance tracking have no part in the reported value
  | [op, n, _, _, _] =>
    if op == "fp" || op == "fprec" || op == "fpsel" then
      let n := n.toNat!
      (s, { model := toString (scaledForMaxHash (maxHashForScaled n)), spec := if n ≤ pow31 then toString n else "-" })
    else (s, { model := "bad-op" })
  -- exhaustive walks done by the real code alone; the theorems `roundtrip` / `maxHash_antitone`
  -- are the model-side counterpart, so the model column is empty and the spec demands zero failures
  | ["sweep", _, _] => (s, { model := "-", spec := "fail=0 first=0" })
  | ["monosweep", _, _] => (s, { model := "-", spec := "fail=0 first=0" })
  | ["mono", a, b] =>
    let a := a.toNat!; let b := b.toNat!
    let (lo, hi) := if a ≤ b then (a, b) else (b, a)
    -- non-increasing over the whole 64-bit range (0 is the num sentinel, excluded by the generator)
    let ok := decide (maxHashForScaled hi ≤ maxHashForScaled lo)
    (s, { model := if ok then "antitone" else "inversion", spec := "antitone" })
  | [op, n, _] =>
    if ["new", "newtree", "ds", "dsn", "seln", "rec", "sel"].contains op then
      let n := n.toNat!
      (s, { model := toString (scaledForMaxHash (maxHashForScaled n)), spec := if n ≤ pow31 then toString n else "-" })
    else (s, { model := "bad-op" })
  | _ => (s, { model := "bad-op" })

def main : IO Unit := Driver.run () stepC14
