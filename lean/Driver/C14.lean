import Driver.Common
import Sourmash.Model.Scaled
import Sourmash.Model.Select
import Sourmash.Model.Md5Cache
/-! C14 driver: exact binary64 model of the scaled <-> max_hash conversions.

Stream 3 (`mrow` / `msel` / `mcsel` / `mload`): manifests and selection as consumers of the reported
value.  Model column = `Record::from_sig`, `Manifest::select`, `Collection::select`,
`sig_from_record` + `Signature::select` of `Model/Select.lean` over sketches whose ceiling is
`maxHashForScaled s`; spec column = the property's last sentence, stated on the values the rows were
*created* with: a row is retained iff it has the requested ksize / num and 0 < created ≤ requested,
and what is loaded from a retained row reports the requested value. -/
open Driver Scaled

def pow31 : Nat := 2147483648

/-- rows of the case: (ksize, scaled it was created with, num) -/
abbrev St := List (Nat × Nat × Nat)

def optNat (w : String) : Option Nat := if w == "-" then none else some w.toNat!

def rowSketch (r : Nat × Nat × Nat) : Select.Sketch := Select.Sketch.new r.2.1 r.1 .dna 42 false r.2.2 .vec

def rowName (i : Nat) : Select.Bytes := 114 :: Select.natBytes i

def rowSig (p : (Nat × Nat × Nat) × Nat) : Select.Sig :=
  { name := some (rowName p.2), filename := none, sketches := [rowSketch p.1] }

/-- the row a record belongs to, by its name `r<i>` -/
def rowId (n : Nat) (r : Select.Record) : String :=
  match (List.range n).find? (fun i => rowName i == r.name) with
  | some i => toString i
  | none => "?"

def manifestOps (st : St) (op k n sc : String) : Resp :=
  let sel : Select.Selection := { ksize := optNat k, num := optNat n, scaled := optNat sc }
  let sigs := st.zipIdx.map rowSig
  -- spec: on the created values
  let ok (r : Nat × Nat × Nat) : Bool :=
    (match sel.ksize with | some k => r.1 == k | none => true) &&
    (match sel.num with | some n => r.2.2 == n | none => true) &&
    (match sel.scaled with | some q => decide (0 < r.2.1 ∧ r.2.1 ≤ q) | none => true)
  let inRange := st.all (fun r => decide (r.2.1 ≤ pow31)) &&
    (match sel.scaled with | some q => decide (q ≤ pow31) | none => true)
  let kept := (st.zipIdx.filter (fun p => ok p.1))
  match Select.Collection.fromSigs (fun _ => []) sigs with
  | none => { model := "PANIC" }
  | some c =>
    if op == "msel" || op == "mcsel" then
      let rows := if op == "msel" then Select.manifestSelect sel c.manifest else (c.select sel).manifest
      { model := showNats (rows.map (fun r => (rowId st.length r).toNat!)),
        spec := if inRange then showNats (kept.map (·.2)) else "-" }
    else
      let c' := c.select sel
      let one (r : Select.Record) : String :=
        rowId st.length r ++ ":" ++
        (match c'.sigFromRecord r with
         | none => "PANIC"
         | some (.error _) => "err"
         | some (.ok sg) =>
           match Select.sigStoreSelect sel sg with
           | .error _ => "err"
           | .ok sg' => match sg'.sketches with
             | s :: _ => toString s.scaled
             | [] => "none")
      let outs := c'.manifest.map one
      let want := kept.map (fun p => toString p.2 ++ ":" ++
        toString (match sel.scaled with | some q => q | none => p.1.2.1))
      { model := if outs.isEmpty then "-" else ",".intercalate outs,
        spec := if inRange then (if want.isEmpty then "-" else ",".intercalate want) else "-" }

/-! ### stream 4: sketches derived from a sketch

`KmerMinHash::from(tree)`, `KmerMinHash::from(&tree)` and `KmerMinHashBTree::from(vec)` all build the new
sketch with `new(other.scaled(), …)`: the ceiling is re-derived, `m ↦ max_hash_for_scaled(scaled_for_max_hash(m))`.
`Clone`, the serde round trips, wrapping in `Sketch` / `Signature` and the C API handles copy the field. -/

def reDerive (m : Nat) : Nat := maxHashForScaled (scaledForMaxHash m)

/-- number of `From` conversions a route performs (`signature_first_mh` converts a tree sketch by
    reference and clones a vector sketch; `from_params` builds tree sketches) -/
def routeHops (route : String) : Option Nat :=
  if ["v2t", "t2v", "t2vr", "tcfirst", "cfp"].contains route then some 1
  else if ["v2t2v", "t2v2t", "t2vr2t"].contains route then some 2
  else if ["vclone", "tclone", "vserde", "tserde", "vsig", "tsig", "vsigjson", "tsigjson", "vcfirst", "cnew",
           "cpush"].contains route then some 0
  else none

/-- routes that go through `Deserialize` (which zeroes `num` when the ceiling is non-zero) -/
def routeLoads (route : String) : Bool := ["vserde", "tserde", "vsigjson", "tsigjson"].contains route

def derivedMaxHash (route : String) (m : Nat) : Option Nat :=
  (routeHops route).map (fun n => (List.range n).foldl (fun m _ => reDerive m) m)

/-! ### stream 5: `downsample_max_hash` with arbitrary ceilings

`dsmh <v|t> <s> <m> <track> <hashes>`: a sketch created at `s` (`s = 0`: a num sketch, num 500) is
handed the hashes (abundance `i % 3 + 1` for the i-th), then `downsample_max_hash(m)`.  Answer:
`scaled=<reported> mh=<ceiling> mins=<kept> [abunds=<..>] compat=<check_compatible of a sketch created
at the reported scaled> merged=<size of that sketch after merge>`, or `err CannotUpsampleScaled`.

Model column: the sketch models of `Model/MinHash.lean` + `downsampleMaxHash` of `Model/Md5Cache.lean`
(the code as it is: `downsample_scaled(scaled_for_max_hash(m))`).  Spec column, for created and
target values in `1 ..= 2^31`: with `t = scaledForMaxHash m`, refused when `t < s`; else the result
reports `t`, its ceiling is the ceiling of a sketch CREATED at `t`, it keeps exactly the hashes up
to that ceiling, and a sketch created at `t` accepts it. -/

def dedupSorted : List Nat → List Nat
  | a :: b :: t => if a == b then dedupSorted (b :: t) else a :: dedupSorted (b :: t)
  | l => l

def sortNats (l : List Nat) : List Nat := dedupSorted (l.mergeSort (· ≤ ·))

def dsmhShow (reported mh : Nat) (mins : List Nat) (abunds : Option (List Nat)) (compat : Bool) : String :=
  s!"scaled={reported} mh={mh} mins={showNats mins}" ++
    (match abunds with | some a => s!" abunds={showNats a}" | none => "") ++
    (if compat then s!" compat=ok merged={mins.length}" else " compat=err MismatchScaled merged=err MismatchScaled")

def dsmhModel (tree : Bool) (sc m : Nat) (track : Bool) (hs : List Nat) : String :=
  let num := if sc == 0 then 500 else 0
  let own := maxHashForScaled sc
  let ps := hs.zipIdx.map (fun p => (p.1, p.2 % 3 + 1))
  if tree then
    match (ps.foldl (fun t p => t.add p.1 p.2) (MH.Tree.new num own track 21)).downsampleMaxHash m with
    | .error e => "err " ++ e
    | .ok t =>
      let r := scaledForMaxHash t.maxHash
      dsmhShow r t.maxHash t.mins t.abundVals (maxHashForScaled r == t.maxHash)
  else
    match (ps.foldl (fun t p => t.add p.1 p.2) (MH.Vec.new num own track 21)).downsampleMaxHash m with
    | .error e => "err " ++ e
    | .ok t =>
      let r := scaledForMaxHash t.maxHash
      dsmhShow r t.maxHash t.mins t.abunds (maxHashForScaled r == t.maxHash)

def dsmhSpec (sc m : Nat) (track : Bool) (hs : List Nat) : String :=
  let t := scaledForMaxHash m
  if sc == 0 || sc > pow31 || t > pow31 then "-"
  else if t < sc then "err CannotUpsampleScaled"
  else
    let c := maxHashForScaled t
    let kept := sortNats (hs.filter (· ≤ c))
    -- abundance of the i-th (distinct) hash is `i % 3 + 1`
    let ab := kept.map (fun h => match hs.zipIdx.find? (fun p => p.1 == h) with
      | some p => p.2 % 3 + 1
      | none => 0)
    dsmhShow t c kept (if track then some ab else none) true

/-! ### stream 6: `SigStore` in every state of its `data` cell

`selstore <route> <prog> <c> <num> <s> [<s2>]` / `selstoreget …`: see harness/src/bin/c14.rs.  Model
column: `Select.Store` (`Model/Select.lean`: `impl Select for SigStore` takes the signature OUT of the
cell and refuses an empty one, `data()` fills an empty cell from the storage).  Spec column, on the
values the sketches were CREATED with: every sketch the store delivers after accepted selections reports
the value of the last one (sketches created above a request are not delivered); nothing is said about a
refusal, so `selstore` has a spec only when no select of the program meets an empty cell, and
`selstoreget` (refused selects retried after `data()`) whenever the store can be read at all. -/

def errName : Select.Err → String
  | .CannotUpsampleScaled => "CannotUpsampleScaled"
  | .MismatchKSizes => "MismatchKSizes"
  | .MismatchDNAProt => "MismatchDNAProt"

def storeSig (c num : Nat) : Select.Sig :=
  { name := some [120], filename := some [120, 46, 102, 97],
    sketches := [{ Select.Sketch.new c 21 .dna 42 false num .vec with mins := [7] },
                 { Select.Sketch.new 1 21 .dna 42 false 0 .tree with mins := [7] }] }

def storeOf (route : String) (sg : Select.Sig) : Option Select.Store :=
  if route == "from" then some { data := some sg, backing := none }
  else if route == "nws" || route == "lmem" || route == "lfs" then some { data := some sg, backing := some sg }
  else if route == "bmem" || route == "bfs" then some { data := none, backing := some sg }
  else if route == "dsi" then some { data := none, backing := none }
  else none

/-- the letters of the program on the model store; `.error` = the answer of a refusal -/
def runStoreProg (retry : Bool) (s s2 : Nat) : List Char → Select.Store → Except String Select.Store
  | [], st => .ok st
  | l :: rest, st =>
    if l == 'r' then
      runStoreProg retry s s2 rest (match st.read with | some (_, st') => st' | none => st)
    else if l == 'k' || l == 'K' || l == '-' then runStoreProg retry s s2 rest st
    else if l == 's' || l == 't' then
      let sel : Select.Selection := { scaled := some (if l == 's' then s else s2) }
      match st.select sel with
      | .ok st' => runStoreProg retry s s2 rest st'
      | .error e =>
        if !retry then .error ("err " ++ errName e) else
        match st.read with
        | none => .error "err ReadDataError"
        | some (_, st') =>
          match st'.select sel with
          | .ok st'' => runStoreProg retry s s2 rest st''
          | .error e => .error ("err " ++ errName e)
    else .error "bad-op"

/-- does a select of the program meet an empty cell (model of the cell's state only) -/
def progRefused (filled : Bool) : List Char → Bool
  | [] => false
  | l :: rest =>
    if l == 'r' then progRefused true rest
    else if l == 's' || l == 't' then (!filled) || progRefused filled rest
    else progRefused filled rest

def selStore (retry : Bool) (route prog : String) (c num s s2 : Nat) : Resp :=
  match storeOf route (storeSig c num) with
  | none => { model := "bad-op" }
  | some st0 =>
    let model :=
      match runStoreProg retry s s2 prog.toList st0 with
      | .error e => e
      | .ok st =>
        match st.read with
        | none => "err ReadDataError"
        | some (sg, _) => "ok " ++ showNats (sg.sketches.map (·.scaled))
    -- spec, on the created values
    let sels := prog.toList.filterMap (fun l => if l == 's' then some s else if l == 't' then some s2 else none)
    let want := sels.foldl (fun (cur : List Nat) v => (cur.filter (fun x => decide (0 < x ∧ x ≤ v))).map (fun _ => v)) [c, 1]
    let inRange := decide (c ≤ pow31) && sels.all (fun v => decide (v ≤ pow31))
    let readable := route != "dsi"
    let spoken := readable && inRange && (retry || !(progRefused st0.data.isSome prog.toList))
    { model := model, spec := if spoken then "ok " ++ showNats want else "-" }

def stepC14 (s : St) (ws : List String) : St × Resp :=
  match ws with
  | "case" :: _ => ([], { model := "ok" })
  | "selstore" :: route :: prog :: c :: num :: sc :: rest =>
    let sc := sc.toNat!
    (s, selStore false route prog c.toNat! num.toNat! sc ((rest.getD 0 (toString sc)).toNat!))
  | "selstoreget" :: route :: prog :: c :: num :: sc :: rest =>
    let sc := sc.toNat!
    (s, selStore true route prog c.toNat! num.toNat! sc ((rest.getD 0 (toString sc)).toNat!))
  | ["mrow", k, sc, n] =>
    let sc := sc.toNat!
    (s ++ [(k.toNat!, sc, n.toNat!)],
     { model := toString (scaledForMaxHash (maxHashForScaled sc)), spec := if sc ≤ pow31 then toString sc else "-" })
  -- a sketch created at `sc` with size bound `num`, pushed through a route: the derived sketch reports `sc`
  | ["conv", route, sc, _] =>
    let sc := sc.toNat!
    match derivedMaxHash route (maxHashForScaled sc) with
    | none => (s, { model := "bad-op" })
    | some m => (s, { model := toString (scaledForMaxHash m), spec := if sc ≤ pow31 then toString sc else "-" })
  | ["convx", route, sc, num] =>
    let sc := sc.toNat!; let num := num.toNat!
    match derivedMaxHash route (maxHashForScaled sc) with
    | none => (s, { model := "bad-op" })
    | some m =>
      let num' := if routeLoads route && maxHashForScaled sc != 0 then 0 else num
      (s, { model := "mh=" ++ toString m ++ " num=" ++ toString num' })
  -- a sketch loaded with an arbitrary ceiling: no created-at value, so the property says nothing;
  -- the model column records what the conversions do to it
  | ["convmh", route, m] =>
    let m := m.toNat!
    if route.startsWith "c" then (s, { model := "bad-op" }) else
    match derivedMaxHash route m with
    | none => (s, { model := "bad-op" })
    | some m' => (s, { model := "mh=" ++ toString m' ++ " scaled=" ++ toString (scaledForMaxHash m') })
  | ["dsmh", ty, sc, m, track, hs] =>
    let sc := sc.toNat!; let m := m.toNat!; let track := track == "1"; let hs := natList hs
    (s, { model := dsmhModel (ty == "t") sc m track hs, spec := dsmhSpec sc m track hs })
  | ["msel", k, n, sc] => (s, manifestOps s "msel" k n sc)
  | ["mcsel", k, n, sc] => (s, manifestOps s "mcsel" k n sc)
  | ["mload", k, n, sc] => (s, manifestOps s "mload" k n sc)
  | ["mh", n] =>
    let n := n.toNat!
    (s, { model := toString (maxHashForScaled n),
          spec := if n == 0 then "0" else if n == 1 then toString u64max else "-" })
  | ["sc", m] => (s, { model := toString (scaledForMaxHash m.toNat!) })
  | ["close", n] =>
    -- |max_hash s − 2^64/s| < 1 + (2^64/s)·2^−52, cross-multiplied: s·2^52·|M·s − 2^64| < s·2^52·… ; report the boolean
    let n := n.toNat!
    let M := maxHashForScaled n
    let lhs := if M * n ≥ 2^64 then M * n - 2^64 else 2^64 - M * n      -- |M·s − 2^64|
    let ok := decide (lhs * 2^52 < n * 2^52 + 2^64)
    (s, { model := if ok then "close" else "far", spec := if n ≥ 2 then "close" else "-" })
  -- round trip as every consumer performs it (new / downsample / select / record all go through it)
  | [op, n] =>
    if op == "rt" || op == "new" || op == "newtree" || op == "ds" || op == "dsn" || op == "seln" || op == "rec" || op == "sel" then
      let n := n.toNat!
      let r := scaledForMaxHash (maxHashForScaled n)
      (s, { model := toString r, spec := if n ≤ pow31 then toString n else "-" })
    else (s, { model := "bad-op" })
  -- the same consumers on a sketch that carries a num next to its scaled (`[op, s, num]`), and through
  -- ComputeParameters -> Signature::from_params (`[fp|fprec|fpsel, s, num_hashes|d, moltype, track]`):
  -- num, molecule and abundance tracking have no part in the reported value
  | [op, n, _, _, _] =>
    if op == "fp" || op == "fprec" || op == "fpsel" then
      let n := n.toNat!
      (s, { model := toString (scaledForMaxHash (maxHashForScaled n)), spec := if n ≤ pow31 then toString n else "-" })
    else (s, { model := "bad-op" })
  -- exhaustive walks done by the real code alone; the theorems `roundtrip` / `maxHash_antitone`
  -- are the model-side counterpart, so the model column is empty and the spec demands zero failures
  | ["sweep", _, _] => (s, { model := "-", spec := "fail=0 first=0" })
  | ["monosweep", _, _] => (s, { model := "-", spec := "fail=0 first=0" })
  -- a compatibility decision between sketches created at a and at b (receiver empty): the code
  -- compares ceilings; the spec says what the user asked for decides (for values ≤ 2^31 the two agree
  -- by the round-trip theorem: different requests have different ceilings)
  | ["compat", a, b] =>
    let a := a.toNat!; let b := b.toNat!
    let ra := scaledForMaxHash (maxHashForScaled a)
    let m := if maxHashForScaled a == maxHashForScaled b then s!"ok {ra}" else s!"err MismatchScaled {ra}"
    let sp := if a ≤ pow31 && b ≤ pow31 && 1 ≤ a && 1 ≤ b then (if a == b then s!"ok {a}" else s!"err MismatchScaled {a}") else "-"
    (s, { model := m, spec := sp })
  | ["mono", a, b] =>
    let a := a.toNat!; let b := b.toNat!
    let (lo, hi) := if a ≤ b then (a, b) else (b, a)
    -- non-increasing over the whole 64-bit range (0 is the num sentinel, excluded by the generator)
    let ok := decide (maxHashForScaled hi ≤ maxHashForScaled lo)
    (s, { model := if ok then "antitone" else "inversion", spec := "antitone" })
  | [op, n, _] =>
    if ["new", "newtree", "ds", "dsn", "seln", "rec", "sel"].contains op then
      let n := n.toNat!
      (s, { model := toString (scaledForMaxHash (maxHashForScaled n)), spec := if n ≤ pow31 then toString n else "-" })
    else (s, { model := "bad-op" })
  | _ => (s, { model := "bad-op" })

def main : IO Unit := Driver.run ([] : St) stepC14
