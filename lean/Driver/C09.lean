import Driver.Common
import Sourmash.Model.Datasets
import Sourmash.Model.Index
import Sourmash.Spec.Index
/-! C09 driver: Datasets codec / union / merge trees, on-disk build under schedules and merge groupings,
in-memory reducer along reduction trees, increments.  Request grammar: harness/src/bin/c09.rs. -/
open Driver RevIdx

namespace C09

def codec : ManyCodec := roaringCodec

def showDs (d : Datasets) : String := s!"{d.variant}:{showNats d.ids}"

/-- digest of a large table: number of keys, number of postings, XOR and sum (mod 2^64) of
`key * (id + 1) mod 2^64` over the postings -/
def digest (t : List (Nat × List Nat)) : String :=
  let r := t.foldl (fun (acc : Nat × Nat × Nat) (e : Nat × List Nat) =>
    e.2.foldl (fun (acc : Nat × Nat × Nat) id =>
      let v := (e.1 * (id + 1)) % 18446744073709551616
      (acc.1 + 1, acc.2.1 ^^^ v, (acc.2.2 + v) % 18446744073709551616)) acc) (0, 0, 0)
  s!"n={t.length} p={r.1} x={r.2.1} s={r.2.2}"

/-- a table `hash ↦ ids`: the exact list up to 100 keys, the digest beyond -/
def showTable (t : List (Nat × List Nat)) : String :=
  if t.isEmpty then "-"
  else if t.length ≤ 100 then ";".intercalate (t.map (fun (h, ids) => s!"{h}:{showNats ids}"))
  else digest t

def fnv64 (bs : Bytes) : Nat :=
  bs.foldl (fun h b => ((h ^^^ b) * 1099511628211) % 18446744073709551616) 14695981039346656037

def hexBytes (bs : Bytes) : String := hex (bs.map UInt8.ofNat)

def showBytes (sep : String) (bs : Bytes) : String :=
  if bs.length ≤ 64 then s!"{bs.length}{sep}{fnv64 bs}{sep}{hexBytes bs}" else s!"{bs.length}{sep}{fnv64 bs}"

def parseColl (s : String) : List (List Nat) := (s.splitOn ";").map natList

def parseSet (s : String) : List Nat :=
  if s.startsWith "l:" then natList (s.drop 2).toString
  else match ((s.drop 2).toString.splitOn ":").map String.toNat! with
    | [st, step, cnt] => (List.range cnt).map (fun i => st + i * step)
    | _ => []

/-- `Datasets::new` on a request's id list -/
def mkDs (ids : List Nat) : Option Datasets := Datasets.new ids

def lcg (x : Nat) : Nat := (x * 6364136223846793005 + 1442695040888963407) % 18446744073709551616

def choicesFrom (seed n len : Nat) : List Nat :=
  ((List.range len).foldl (fun (acc : Nat × List Nat) _ =>
    let x := lcg acc.1
    (x, (x / 8589934592) % (n + 1) :: acc.2)) (lcg seed, [])).2

def groupingFrom (seed : Nat) : Grouping := chunkGrouping (seed % 5) ((seed / 5) % 4) ((seed / 20) % 2 == 1)

def nWrites (C : List (List Nat)) : Nat := (C.map (fun d => d.length + 1)).foldl (· + ·) 0

def showDb (db : Db) : String :=
  let p := match db.processed with
    | none => "absent"
    | some b => showNats (Datasets.fromSlice codec b).ids
  s!"H {showTable (db.scan codec)} P {p}"

def specDb (C : List (List Nat)) : String :=
  s!"H {showTable (refTable C)} P {if C.isEmpty then "absent" else showNats (List.range C.length)}"

/-- balanced / left-deep reduction tree over the datasets in order -/
partial def balanced : List Nat → RTree
  | [] => .ident
  | [d] => .leaf d
  | ds => .node (balanced (ds.take (ds.length / 2))) (balanced (ds.drop (ds.length / 2)))

def leftDeep (ds : List Nat) : RTree := ds.foldl (fun t d => .node t (.leaf d)) .ident

partial def parseRTree : List String → Option (RTree × List String)
  | "I" :: rest => some (.ident, rest)
  | "N" :: rest => do
    let (l, rest) ← parseRTree rest
    let (r, rest) ← parseRTree rest
    pure (.node l r, rest)
  | t :: rest => if t.startsWith "L" then some (.leaf (t.drop 1).toString.toNat!, rest) else none
  | [] => none

/-- `cols=` is an observation of the implementation only (`Colors::len` ≥ number of colours in use); the
model keeps refcounts as a function and answers what the specification demands -/
def showHC (r : H2C × Colors) : String :=
  let dump := dumpHC r
  s!"{showTable dump} cols={if dump.all (fun e => r.2 e.2 ≠ 0) then "ok" else "bad"}"

/-- `none` = a `Datasets::new` panic on a leaf -/
partial def parseMTree : List String → Option (MTree × List Nat × List String)
  | t :: rest =>
    if t.startsWith "L" then do
      let ids := natList (t.drop 1).toString
      let d ← mkDs ids
      pure (.leaf (d.asBytes codec), ids, rest)
    else
      let n := (t.drop 1).toString.toNat!
      let rec go (k : Nat) (rest : List String) (acc : List MTree) (ids : List Nat) : Option (List MTree × List Nat × List String) :=
        match k with
        | 0 => some (acc.reverse, ids, rest)
        | k + 1 => do
          let (t, i, rest) ← parseMTree rest
          go k rest (t :: acc) (ids ++ i)
      do
        let (ts, ids, rest) ← go n rest [] []
        pure (.node ts, ids, rest)
  | [] => none

partial def parseForest (toks : List String) (acc : List (List MTree)) (ids : List Nat) : Option (List (List MTree) × List Nat) :=
  match toks with
  | [] => some (acc.reverse, ids)
  | g :: rest =>
    let n := (g.drop 1).toString.toNat!
    let rec go (k : Nat) (rest : List String) (grp : List MTree) (ids : List Nat) : Option (List MTree × List Nat × List String) :=
      match k with
      | 0 => some (grp.reverse, ids, rest)
      | k + 1 => do
        let (t, i, rest) ← parseMTree rest
        go k rest (t :: grp) (ids ++ i)
    do
      let (grp, ids, rest) ← go n rest [] ids
      parseForest rest (grp :: acc) ids

/-- mergedb tokens -> (existing, forest, all ids, any operand) : groups end at `C`, partial merges at `F` -/
def parseMergeDb (toks : List String) : Option (Option Bytes × List (List MTree) × List Nat × Bool) := do
  let mut ex : Option Bytes := none
  let mut ids : List Nat := []
  let mut groups : List (List MTree) := []
  let mut grp : List MTree := []
  let mut run : List Bytes := []
  let mut any := false
  let close (run : List Bytes) (grp : List MTree) : List MTree :=
    match run with
    | [] => grp
    | [b] => grp ++ [MTree.leaf b]
    | bs => grp ++ [MTree.node (bs.map MTree.leaf)]
  for t in toks do
    if t.startsWith "P" then
      let l := natList (t.drop 1).toString
      let d ← mkDs l
      ex := some (d.asBytes codec)
      ids := ids ++ l
      any := true
    else if t.startsWith "L" then
      let l := natList (t.drop 1).toString
      let d ← mkDs l
      run := run ++ [d.asBytes codec]
      ids := ids ++ l
      any := true
    else if t == "F" then
      grp := close run grp
      run := []
    else
      grp := close run grp
      run := []
      if !grp.isEmpty then groups := groups ++ [grp]
      grp := []
  grp := close run grp
  if !grp.isEmpty then groups := groups ++ [grp]
  pure (ex, groups, ids, any)

def recordsOf (C : List (List Nat)) : List (Nat × List Nat) := (List.range C.length).map (fun i => (i, C.getD i []))

def stepC09 (C : List (List Nat)) (ws : List String) : List (List Nat) × Resp :=
  match ws with
  | ["case", _, "coll", s] => (parseColl s, { model := "ok" })
  | "case" :: _ => ([], { model := "ok" })
  | ["build", t, seed, _] =>
    let seed := seed.toNat! + 7919 * t.toNat!
    let db := createDb codec C (choicesFrom seed C.length (2 * nWrites C)) (groupingFrom seed)
    (C, { model := showDb db, spec := specDb C })
  | ["membuild", t] =>
    let tree := if t.toNat! == 1 then leftDeep (List.range C.length) else balanced (List.range C.length)
    let r := match tree.eval C with
      | some r => s!"H {showTable (dumpHC r)}"
      | none => "PANIC"
    (C, { model := r, spec := s!"H {showTable (refTable C)}" })
  | ["extend", split, _, t, seed] =>
    let split := split.toNat!
    let seed := seed.toNat! + 7919 * t.toNat!
    let C1 := C.take split
    let db1 := createDb codec C1 (choicesFrom (seed + 1) C1.length (2 * nWrites C1)) (groupingFrom (seed / 3))
    let r := match updateDb codec db1 (recordsOf C1) (recordsOf C) C (choicesFrom seed C.length (2 * nWrites C)) (groupingFrom seed) with
      | some db => showDb db
      | none => "err MismatchKSizes"
    (C, { model := r, spec := specDb C })
  | ["reject", split, k, kind] =>
    let split := split.toNat!
    let k := k.toNat!
    let C1 := C.take split
    let db1 := createDb codec C1 [] (groupingFrom 0)
    let changed : Nat × List Nat := if kind == "hashes" then (k, insertId 999983 (C.getD k [])) else (k + 1000000, C.getD k [])
    let newRecs := (recordsOf C).map (fun r => if r.1 == k then changed else r)
    let C' := newRecs.map (·.2)
    let r := match updateDb codec db1 (recordsOf C1) newRecs C' [] (groupingFrom 1) with
      | some db => showDb db
      | none => "err MismatchKSizes"
    (C, { model := r, spec := "err MismatchKSizes" })
  | ["rejectperm", split, how] =>
    let C1 := C.take split.toNat!
    let db1 := createDb codec C1 [] (groupingFrom 0)
    let recs := recordsOf C
    let newRecs : List (Nat × List Nat) :=
      if how == "front" then (2000000, [999983]) :: recs
      else match recs with
        | a :: b :: rest => b :: a :: rest
        | l => l
    let C' := newRecs.map (·.2)
    let r := match updateDb codec db1 (recordsOf C1) newRecs C' [] (groupingFrom 1) with
      | some db => showDb db
      | none => "err MismatchKSizes"
    (C, { model := r, spec := "err MismatchKSizes" })
  | ["truncate", split, m] =>
    let C1 := C.take split.toNat!
    let C2 := C.take m.toNat!
    let db1 := createDb codec C1 [] (groupingFrom 0)
    let r := match updateDb codec db1 (recordsOf C1) (recordsOf C2) C2 [] (groupingFrom 1) with
      | some db => showDb db
      | none => "err MismatchKSizes"
    (C, { model := r })
  | ["faulty", split, t, seed, fails, via, _how, phase] =>
    -- a build over a storage that cannot deliver the signatures of `fails`: `map_hashes_colors` of such a
    -- dataset panics in `sig_for_dataset` before its first write; rayon lets every other task finish before
    -- the panic leaves the pool, and `save_collection` is not reached: the stored manifest stays the old one
    let F := if fails == "-" then [] else (fails.splitOn "+").filterMap String.toNat?
    let upd := via == "update"
    let seed := seed.toNat! + 7919 * t.toNat!
    let C1 := if upd then C.take split.toNat! else []
    let db1 : Db := if upd then createDb codec C1 (choicesFrom (seed + 1) C1.length (2 * nWrites C1)) (groupingFrom (seed / 3)) else {}
    let proc1 := loadProcessed codec db1 C1.length (!upd)
    let doing := (todo proc1 C.length).filter (fun d => !F.contains d)
    let hit := (todo proc1 C.length).any (fun d => F.contains d)
    let db2 := abortedBuild codec db1 C doing (choicesFrom seed C.length (2 * nWrites C)) (groupingFrom seed)
    -- without a failing dataset the faulty build is an ordinary one (and writes its manifest)
    let tag := if hit then "aborted" else "completed"
    -- which of the other datasets the aborted build got to is up to rayon's splitting (the datasets that
    -- follow a failing one in the same sequential chunk are skipped): the state it leaves is judged by
    -- the invariants; the model continues from one of the possible states (every other dataset done)
    if phase == "mid" then (C, { model := "-", spec := s!"{tag} inv-ok" }) else
    let proc2 := loadProcessed codec db2 (if hit then C1.length else C.length) (!upd)
    let db3 := buildInto codec db2 proc2 C (choicesFrom (seed + 2) C.length (2 * nWrites C)) (groupingFrom (seed / 7))
    (C, { model := s!"{tag} {showDb db3}", spec := s!"{tag} {specDb C}" })
  | "reduce" :: toks =>
    let r := match parseRTree toks with
      | some (t, _) => match t.eval C with
        | some r => showHC r
        | none => "PANIC"
      | none => "bad-op"
    (C, { model := r, spec := s!"{showTable (refTable C)} cols=ok" })
  | "mergedb" :: toks =>
    match parseMergeDb toks with
    | none => (C, { model := "PANIC" })
    | some (ex, groups, ids, any) =>
      let m := match evalKey codec ex groups with
        | none => "absent"
        | some b => showDs (Datasets.fromSlice codec b)
      (C, { model := m, spec := if any then showDs (Datasets.ofList ids) else "absent" })
  | "mergetree" :: ex :: toks =>
    let exB : Option (Option Bytes × List Nat) :=
      if ex == "none" then some (none, []) else (mkDs (natList ex)).map (fun d => (some (d.asBytes codec), natList ex))
    match exB, parseForest toks [] [] with
    | some (exb, exIds), some (groups, ids) =>
      let m := match evalKey codec exb groups with
        | none => "absent"
        | some b => s!"{showDs (Datasets.fromSlice codec b)}:{showBytes "/" b}"
      let canon := Datasets.ofList (exIds ++ ids)
      let sp := if exb.isNone && groups.isEmpty then "absent" else s!"{showDs canon}:{showBytes "/" (canon.asBytes codec)}"
      (C, { model := m, spec := sp })
    | _, _ => (C, { model := "PANIC" })
  | ["enc", set] =>
    let r := match mkDs (parseSet set) with
      | some d => showBytes " " (d.asBytes codec)
      | none => "PANIC"
    (C, { model := r })
  | ["encok", set] =>
    let ids := parseSet set
    let r := match mkDs ids with
      | none => "PANIC"
      | some d =>
        let bs := d.asBytes codec
        let back := Datasets.fromSlice codec bs
        let lenOk := ids.length < 2 || (bs.length != 1 && bs.length != 8)
        if lenOk && back.ids == ids && back.variant == min ids.length 2 && back.len == ids.length
            && (ids.length > 300 || ids.all (fun i => back.contains i)) then "ok"
        else s!"bad len={bs.length} variant={back.variant} n={back.ids.length}"
    (C, { model := r, spec := "ok" })
  | ["dec", hx] =>
    (C, { model := showDs (Datasets.fromSlice codec ((unhex hx).map UInt8.toNat)) })
  | ["union", a, b] =>
    let r := match mkDs (natList a), mkDs (natList b) with
      | some x, some y => showDs (x.union y)
      | _, _ => "PANIC"
    (C, { model := r, spec := showDs (Datasets.ofList (natList a ++ natList b)) })
  | ["ext", a, ids] =>
    let ids := natList ids
    let r := match mkDs (natList a) with
      | some x => showDs (x.extend ids)
      | none => "PANIC"
    -- the index only ever extends by one id; the property says nothing about longer iterators
    (C, { model := r, spec := if ids.length ≤ 1 then showDs (Datasets.ofList (natList a ++ ids)) else "-" })
  | _ => (C, { model := "bad-op" })

end C09

def main : IO Unit := Driver.run [] C09.stepC09
