//! Shared plumbing of the correspondence harness: one seeded PRNG, the line protocol
//! (`gen` writes request lines, `exec` answers request lines by running the real crate),
//! per-line panic capture.
use std::io::{BufRead, Write};
use std::panic::{catch_unwind, AssertUnwindSafe};

/// xorshift64* — every random choice in every generator derives from one of these.
#[derive(Clone)]
pub struct Rng(pub u64);
impl Rng {
    pub fn new(seed: u64) -> Self {
        let mut r = Rng(seed ^ 0x9E37_79B9_7F4A_7C15);
        if r.0 == 0 {
            r.0 = 0xDEAD_BEEF;
        }
        for _ in 0..4 {
            r.next();
        }
        r
    }
    pub fn next(&mut self) -> u64 {
        let mut x = self.0;
        x ^= x >> 12;
        x ^= x << 25;
        x ^= x >> 27;
        self.0 = x;
        x.wrapping_mul(0x2545_F491_4F6C_DD1D)
    }
    pub fn below(&mut self, n: u64) -> u64 {
        if n == 0 {
            0
        } else {
            self.next() % n
        }
    }
    pub fn range(&mut self, lo: u64, hi: u64) -> u64 {
        lo + self.below(hi - lo + 1)
    }
    pub fn chance(&mut self, num: u64, den: u64) -> bool {
        self.below(den) < num
    }
    pub fn pick<'a, T>(&mut self, xs: &'a [T]) -> &'a T {
        &xs[self.below(xs.len() as u64) as usize]
    }
    /// a value with a random bit length (1..=bits), good for hitting every magnitude
    pub fn bits(&mut self, bits: u32) -> u64 {
        let b = self.range(1, bits as u64) as u32;
        if b >= 64 {
            self.next()
        } else {
            self.next() & ((1u64 << b) - 1)
        }
    }
}

pub fn show_nats<I: IntoIterator<Item = u64>>(xs: I) -> String {
    let v: Vec<String> = xs.into_iter().map(|x| x.to_string()).collect();
    if v.is_empty() {
        "-".into()
    } else {
        v.join(",")
    }
}
pub fn parse_nats(s: &str) -> Vec<u64> {
    if s == "-" || s.is_empty() {
        vec![]
    } else {
        s.split(',').map(|x| x.parse().unwrap()).collect()
    }
}
pub fn hex(bs: &[u8]) -> String {
    if bs.is_empty() {
        return "-".into();
    }
    bs.iter().map(|b| format!("{:02x}", b)).collect()
}
pub fn unhex(s: &str) -> Vec<u8> {
    if s == "-" {
        return vec![];
    }
    (0..s.len() / 2)
        .map(|i| u8::from_str_radix(&s[2 * i..2 * i + 2], 16).unwrap())
        .collect()
}

pub struct Args {
    pub mode: String,
    pub seed: u64,
    pub tier: String,
    pub cases: u64,
    pub rest: Vec<String>,
}

pub fn args() -> Args {
    let a: Vec<String> = std::env::args().collect();
    let mut out = Args {
        mode: a.get(1).cloned().unwrap_or_default(),
        seed: 1,
        tier: "quick".into(),
        cases: 0,
        rest: vec![],
    };
    let mut i = 2;
    while i < a.len() {
        match a[i].as_str() {
            "--seed" => {
                out.seed = a[i + 1].parse().unwrap();
                i += 2
            }
            "--tier" => {
                out.tier = a[i + 1].clone();
                i += 2
            }
            "--cases" => {
                out.cases = a[i + 1].parse().unwrap();
                i += 2
            }
            _ => {
                out.rest.push(a[i].clone());
                i += 1
            }
        }
    }
    out
}

/// Run the exec loop: for every stdin line call `step(words)`; a `case` line first calls `reset`.
/// Panics inside `step` are caught and reported as the response `PANIC`.
pub fn exec_loop<S>(mut new_state: impl FnMut() -> S, mut step: impl FnMut(&mut S, &[&str]) -> String) {
    std::panic::set_hook(Box::new(|_| {}));
    let stdin = std::io::stdin();
    let stdout = std::io::stdout();
    let mut out = std::io::BufWriter::new(stdout.lock());
    let mut st = new_state();
    for line in stdin.lock().lines() {
        let line = line.unwrap();
        let ws: Vec<&str> = line.split_whitespace().collect();
        if ws.first() == Some(&"case") {
            st = new_state();
        }
        let r = catch_unwind(AssertUnwindSafe(|| step(&mut st, &ws)));
        match r {
            Ok(s) => writeln!(out, "{}", s).unwrap(),
            Err(_) => {
                writeln!(out, "PANIC").unwrap();
            }
        }
        // flush per line so that an abort leaves every completed answer behind
        out.flush().unwrap();
    }
}

pub struct Out {
    w: std::io::BufWriter<std::io::Stdout>,
    pub ncases: u64,
}
impl Out {
    pub fn new() -> Self {
        Out {
            w: std::io::BufWriter::new(std::io::stdout()),
            ncases: 0,
        }
    }
    pub fn case(&mut self, params: &str) {
        writeln!(self.w, "case {} {}", self.ncases, params).unwrap();
        self.ncases += 1;
    }
    pub fn op(&mut self, line: &str) {
        writeln!(self.w, "{}", line).unwrap();
    }
}
impl Default for Out {
    fn default() -> Self {
        Self::new()
    }
}
impl Drop for Out {
    fn drop(&mut self) {
        self.w.flush().unwrap();
    }
}

/// Helpers shared by the index properties (C07–C10): building signatures, collections and on-disk
/// indexes from plain hash lists.
pub mod index_util {
    use camino::Utf8PathBuf as PathBuf;
    use sourmash::collection::{Collection, CollectionSet};
    use sourmash::encodings::HashFunctions;
    use sourmash::signature::Signature;
    use sourmash::sketch::minhash::KmerMinHash;
    use sourmash::sketch::Sketch;

    pub const KSIZE: u32 = 21;

    /// a scaled KmerMinHash holding exactly `hashes` (all must be <= max_hash_for_scaled(scaled))
    pub fn make_mh(hashes: &[u64], abunds: Option<&[u64]>, scaled: u64) -> KmerMinHash {
        let mut mh = KmerMinHash::new(scaled, KSIZE, HashFunctions::Murmur64Dna, 42, abunds.is_some(), 0);
        match abunds {
            Some(ab) => {
                for (h, a) in hashes.iter().zip(ab.iter()) {
                    mh.add_hash_with_abundance(*h, *a);
                }
            }
            None => {
                for h in hashes {
                    mh.add_hash(*h);
                }
            }
        }
        mh
    }

    pub fn make_sig(name: &str, hashes: &[u64], abunds: Option<&[u64]>, scaled: u64) -> Signature {
        let mut sig = Signature::default();
        sig.set_name(name);
        sig.set_filename(&format!("{}.fa", name));
        sig.push(Sketch::MinHash(make_mh(hashes, abunds, scaled)));
        sig
    }

    /// memory-backed collection (cannot be reopened from disk)
    pub fn mem_collection(sigs: Vec<Signature>) -> CollectionSet {
        Collection::from_sigs(sigs).unwrap().try_into().unwrap()
    }

    /// write one `.sig` file per signature into `dir`, return the paths in order
    pub fn write_sig_files(dir: &std::path::Path, sigs: &[Signature]) -> Vec<PathBuf> {
        std::fs::create_dir_all(dir).unwrap();
        sigs.iter()
            .enumerate()
            .map(|(i, sig)| {
                let p = dir.join(format!("d{}.sig", i));
                let mut f = std::fs::File::create(&p).unwrap();
                serde_json::to_writer(&mut f, &vec![sig]).unwrap();
                PathBuf::from_path_buf(p).unwrap()
            })
            .collect()
    }

    /// filesystem-backed collection over files written by `write_sig_files`
    pub fn fs_collection(paths: &[PathBuf]) -> CollectionSet {
        Collection::from_paths(paths).unwrap().try_into().unwrap()
    }

    /// scratch directory that lives outside /tmp-dependent state of registered commands: it is
    /// created under the system temp dir and removed when the guard drops.
    pub fn scratch_dir() -> tempfile::TempDir {
        tempfile::Builder::new().prefix("verif-idx-").tempdir().unwrap()
    }
}
