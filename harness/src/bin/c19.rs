//! C19: ANI estimates from containment are monotone, bounded and inside their CI.
//!
//! Ops (floats travel as 16-hex-digit bit patterns, `nan` for any NaN, `-` = None):
//!   point  <c> <k>                          bits of sourmash::ani_utils::ani_from_containment
//!   prange <c> <k>                          in01 | out01 <bits>
//!   mono   <c1> <c2> <k>                    lt|eq|gt : order of the two outputs
//!   monole <c1> <c2> <k>                    le | inv  (c1 <= c2: outputs never in the wrong order)
//!   ci     <c> <k> <scaled> <n> <conf>      degenerate | in01 ordered | diagnostic (see `verdict`), then the
//!                                           order-independence oracle: the same request answered a second time on a
//!                                           FRESH thread (no thread-local history) must give the same bits:
//!                                           fresh-same | fresh-diff:<here lo,hi>/<fresh lo,hi>
//!   cib    <c> <k> <scaled> <n> <conf>      bits of (low, high) | err <Variant>
//!   ref    point|ci|varn|q|pnc … <published bits…>    close | far …   (|computed − published| < f64::EPSILON)
//!   pin    point|ci …            <bits…>    the bits on the current tree (compared with the bits in the line)
//!   gather <k> <scaled> <conf> <calc_ci> <orig> <remaining> <match> <match_size> [<match_scaled> <rank>]
//!                                           ANI-related fields of calculate_gather_stats.  The query sketches are
//!                                           built at <scaled>, the match sketch at <match_scaled> (default: the
//!                                           same; finer = it is downsampled inside the function; coarser = error).
//!                                           The two CI tokens say whether the reported interval is bit-for-bit
//!                                           ani_ci_from_containment(f, k, <scaled>, nu, conf) with nu (printed last)
//!                                           the n_unique_kmers of the match DOWNSAMPLED to <scaled>.
//!   gatherv (same arguments)                verdict on the reported fields themselves: ani-ok avg-ok max-ok ci-ok,
//!                                           then the invariance oracle: the same call with the match downsampled
//!                                           (KmerMinHash::downsample_scaled) BEFORE the call must give bit-identical
//!                                           pre-ratios-same pre-ani-same pre-ci-same (…-diff:<bits>/<bits> otherwise)
//!   mid    q|expn|varn|expsq|pnc|f12 …      private intermediates — see `real_src` below
//!
//! Every case runs on a thread of its own (`Worker`): whatever the crate keeps per thread starts empty at a
//! `case` line, so a case is a complete, replayable history.  "Fresh" answers (`ci`, and the reference
//! interval the CI fields of `gather`/`gatherv` are compared with) are computed on a thread spawned for
//! that single call.
//!
//! `point`, `ci`, `cib`, `ref point|ci`, `pin`, `gather` run the real crate (`sourmash::ani_utils`,
//! `sourmash::index::calculate_gather_stats`).  The functions r1_to_q, exp_n_mutated, var_n_mutated,
//! exp_n_mutated_squared and the closures term_1..3 / var_direct / f1 / f2 are private to
//! `ani_utils.rs` and not reachable through any pub fn, so the `mid` ops compile **the same source
//! file** a second time into this binary (`include!` of `$VERIF_REPO/src/core/src/ani_utils.rs`) next to two
//! shims that stand in for exactly the two externals the property excludes from the bit-for-bit
//! comparison: `roots::find_root_brent` (the shim evaluates the closure it is handed at a probe point
//! and records the value) and `statrs` probit (the shim returns the z given on the request line).
use sourmash::ani_utils::{ani_ci_from_containment, ani_from_containment};
use sourmash::encodings::HashFunctions;
use sourmash::index::calculate_gather_stats;
use sourmash::signature::Signature;
use sourmash::sketch::minhash::KmerMinHash;
use sourmash::sketch::Sketch;
#[allow(unused_imports)]
use sourmash::Error;
use verif_harness::*;

/// without the `whitebox` feature: the requests that read private intermediates are not answerable
#[cfg(not(feature = "whitebox"))]
#[allow(dead_code)]
mod real_src {
    pub fn x_r1_to_q(_k: f64, _r1: f64) -> f64 {
        unreachable!()
    }
    pub fn x_exp_n_mutated(_l: f64, _k: f64, _r1: f64) -> f64 {
        unreachable!()
    }
    pub fn x_var_n_mutated(_l: f64, _k: f64, _r1: f64) -> Result<f64, crate::Error> {
        unreachable!()
    }
    pub fn x_exp_n_mutated_squared(_l: f64, _k: f64, _r1: f64) -> Result<f64, crate::Error> {
        unreachable!()
    }
    pub fn x_pnc(_ani: f64, _k: f64, _f_scaled: f64, _n: f64) -> Result<f64, crate::Error> {
        unreachable!()
    }
    pub fn x_f12(_c: f64, _k: f64, _scaled: u64, _n: u64, _conf: Option<f64>, _z: f64, _pest: f64) -> (f64, f64, f64) {
        unreachable!()
    }
}

#[cfg(feature = "whitebox")]
#[allow(dead_code, unused_imports, clippy::all)]
mod real_src {
    use std::cell::Cell;
    thread_local! {
        pub static Z: Cell<f64> = const { Cell::new(0.0) };
        pub static PROBE: Cell<f64> = const { Cell::new(0.0) };
        pub static SEEN: Cell<[f64; 2]> = const { Cell::new([0.0; 2]) };
        pub static NSEEN: Cell<usize> = const { Cell::new(0) };
        pub static PROBIT_ARG: Cell<f64> = const { Cell::new(0.0) };
    }
    /// stand-in for the `roots` crate: evaluates the function at the probe point, records it
    pub mod roots {
        pub struct SimpleConvergency {
            pub eps: f64,
            pub max_iter: usize,
        }
        pub fn find_root_brent<F: Fn(f64) -> f64>(
            _a: f64,
            _b: f64,
            f: F,
            _c: &mut SimpleConvergency,
        ) -> Result<f64, ()> {
            let y = f(super::PROBE.with(|p| p.get()));
            let i = super::NSEEN.with(|n| {
                let v = n.get();
                n.set(v + 1);
                v
            });
            super::SEEN.with(|s| {
                let mut a = s.get();
                a[i % 2] = y;
                s.set(a);
            });
            Err(())
        }
    }
    /// stand-in for `statrs`: the quantile is the z carried by the request line
    pub mod statrs {
        pub mod distribution {
            pub trait ContinuousCDF {
                fn inverse_cdf(&self, p: f64) -> f64;
            }
            pub struct Normal;
            impl Normal {
                pub fn new(_m: f64, _s: f64) -> Result<Normal, ()> {
                    Ok(Normal)
                }
            }
            impl ContinuousCDF for Normal {
                fn inverse_cdf(&self, p: f64) -> f64 {
                    super::super::PROBIT_ARG.with(|c| c.set(p));
                    super::super::Z.with(|z| z.get())
                }
            }
        }
    }
    // VERIF_REPO is exported by ./check (default /repo); for a manual build: VERIF_REPO=/repo cargo build --offline --bin c19
    include!(concat!(env!("VERIF_REPO"), "/src/core/src/ani_utils.rs"));

    pub fn x_r1_to_q(k: f64, r1: f64) -> f64 {
        r1_to_q(k, r1)
    }
    pub fn x_exp_n_mutated(l: f64, k: f64, r1: f64) -> f64 {
        exp_n_mutated(l, k, r1)
    }
    pub fn x_var_n_mutated(l: f64, k: f64, r1: f64) -> Result<f64, crate::Error> {
        var_n_mutated(l, k, r1, None)
    }
    pub fn x_exp_n_mutated_squared(l: f64, k: f64, r1: f64) -> Result<f64, crate::Error> {
        exp_n_mutated_squared(l, k, r1)
    }
    pub fn x_pnc(ani: f64, k: f64, f_scaled: f64, n: f64) -> Result<f64, crate::Error> {
        get_exp_probability_nothing_common(ani, k, f_scaled, n)
    }
    /// (f1(pest), f2(pest), argument handed to probit) of the real ani_ci_from_containment body
    pub fn x_f12(c: f64, k: f64, scaled: u64, n: u64, conf: Option<f64>, z: f64, pest: f64) -> (f64, f64, f64) {
        Z.with(|c| c.set(z));
        PROBE.with(|c| c.set(pest));
        NSEEN.with(|c| c.set(0));
        SEEN.with(|c| c.set([f64::NAN; 2]));
        let _ = ani_ci_from_containment(c, k, scaled, n, conf);
        let s = SEEN.with(|c| c.get());
        (s[0], s[1], PROBIT_ARG.with(|c| c.get()))
    }
}

fn fb(x: f64) -> String {
    if x.is_nan() {
        "nan".into()
    } else {
        format!("{:016x}", x.to_bits())
    }
}
fn pf(s: &str) -> f64 {
    f64::from_bits(u64::from_str_radix(s, 16).unwrap())
}
fn pconf(s: &str) -> Option<f64> {
    if s == "-" {
        None
    } else {
        Some(pf(s))
    }
}
fn err_name(e: &sourmash::Error) -> String {
    let d = format!("{:?}", e);
    let n: String = d.chars().take_while(|c| c.is_alphanumeric()).collect();
    format!("err {}", n)
}

const TOL: f64 = 1e-12;

/// `f` on a thread that has never called into the crate (thread-locals in their initial state)
fn fresh<T: Send>(f: impl FnOnce() -> T + Send) -> T {
    std::thread::scope(|s| match s.spawn(f).join() {
        Ok(v) => v,
        Err(p) => std::panic::resume_unwind(p),
    })
}
fn ci_bits(r: &Result<(f64, f64), sourmash::Error>) -> String {
    match r {
        Ok((lo, hi)) => format!("{},{}", fb(*lo), fb(*hi)),
        Err(e) => err_name(e).replace(' ', "-"),
    }
}

/// the property's verdict on the interval computed HERE (on the case's thread, after whatever the case
/// asked before), followed by the comparison with the answer of a fresh thread
fn verdict(c: f64, k: f64, scaled: u64, n: u64, conf: Option<f64>) -> String {
    let here = ani_ci_from_containment(c, k, scaled, n, conf);
    let there = fresh(|| ani_ci_from_containment(c, k, scaled, n, conf));
    let (a, b) = (ci_bits(&here), ci_bits(&there));
    let tok = if a == b { "fresh-same".to_string() } else { format!("fresh-diff:{}/{}", a, b) };
    format!("{} {}", verdict_of(here, c, k), tok)
}

fn verdict_of(r: Result<(f64, f64), sourmash::Error>, c: f64, k: f64) -> String {
    match r {
        Err(e) => err_name(&e),
        Ok((lo, hi)) => {
            let p = ani_from_containment(c, k);
            if c == 0.0 || c == 1.0 {
                return if lo == p && hi == p && p == c {
                    "degenerate".into()
                } else {
                    format!("nondegenerate low={} point={} high={}", fb(lo), fb(p), fb(hi))
                };
            }
            let in01 = (0.0..=1.0).contains(&lo) && (0.0..=1.0).contains(&hi);
            let ordered = lo <= p + TOL && p <= hi + TOL;
            if in01 && ordered {
                "in01 ordered".into()
            } else {
                format!(
                    "{} {} low={} point={} high={}",
                    if in01 { "in01" } else { "out01" },
                    if ordered { "ordered" } else { "unordered" },
                    fb(lo),
                    fb(p),
                    fb(hi)
                )
            }
        }
    }
}

fn close(x: f64, published: f64) -> bool {
    (x - published).abs() < f64::EPSILON
}

fn mh(k: u32, scaled: u64, hashes: &[u64]) -> KmerMinHash {
    let mut m = KmerMinHash::new(scaled, k, HashFunctions::Murmur64Dna, 42, false, 0);
    for h in hashes {
        m.add_hash(*h);
    }
    m
}

fn opt_bits(x: Option<f64>) -> String {
    match x {
        None => "-".into(),
        Some(v) => fb(v),
    }
}

fn step(_: &mut (), ws: &[&str]) -> String {
    let u = |i: usize| -> u64 { ws[i].parse().unwrap() };
    if cfg!(not(feature = "whitebox"))
        && (ws[0] == "mid" || (matches!(ws[0], "ref" | "pin") && ws.len() > 1 && matches!(ws[1], "varn" | "q" | "pnc")))
    {
        return "NA".into();
    }
    match ws[0] {
        "case" => "ok".into(),
        "point" => fb(ani_from_containment(pf(ws[1]), u(2) as f64)),
        "prange" => {
            let p = ani_from_containment(pf(ws[1]), u(2) as f64);
            if (0.0..=1.0).contains(&p) {
                "in01".into()
            } else {
                format!("out01 {}", fb(p))
            }
        }
        "mono" | "monole" => {
            let k = u(3) as f64;
            let (c1, c2) = (pf(ws[1]), pf(ws[2]));
            let (a, b) = (ani_from_containment(c1, k), ani_from_containment(c2, k));
            if ws[0] == "mono" {
                (if a < b {
                    "lt"
                } else if a == b {
                    "eq"
                } else if a > b {
                    "gt"
                } else {
                    "unordered"
                })
                .into()
            } else if (c1 <= c2 && a <= b) || (c1 >= c2 && a >= b) {
                "le".into()
            } else {
                format!("inv {} {}", fb(a), fb(b))
            }
        }
        "ci" => verdict(pf(ws[1]), u(2) as f64, u(3), u(4), pconf(ws[5])),
        "cib" => match ani_ci_from_containment(pf(ws[1]), u(2) as f64, u(3), u(4), pconf(ws[5])) {
            Ok((lo, hi)) => format!("{} {}", fb(lo), fb(hi)),
            Err(e) => err_name(&e),
        },
        "ref" | "pin" => {
            // the computed values, then either closeness to the published ones or the bits
            let (vals, exp_at): (Vec<f64>, usize) = match ws[1] {
                "point" => (vec![ani_from_containment(pf(ws[2]), u(3) as f64)], 4),
                "ci" => match ani_ci_from_containment(pf(ws[2]), u(3) as f64, u(4), u(5), pconf(ws[6])) {
                    Ok((lo, hi)) => (vec![lo, hi], 7),
                    Err(e) => return err_name(&e),
                },
                "varn" => match real_src::x_var_n_mutated(u(2) as f64, u(3) as f64, pf(ws[4])) {
                    Ok(v) => (vec![v], 5),
                    Err(e) => return err_name(&e),
                },
                "q" => (vec![real_src::x_r1_to_q(u(2) as f64, pf(ws[3]))], 4),
                "pnc" => {
                    let k = u(3) as f64;
                    let ani = ani_from_containment(pf(ws[2]), k);
                    match real_src::x_pnc(ani, k, 1.0 / (u(4) as f64), u(5) as f64) {
                        Ok(v) => (vec![v], 6),
                        Err(e) => return err_name(&e),
                    }
                }
                _ => return "bad-op".into(),
            };
            if ws[0] == "pin" {
                return vals.iter().map(|v| fb(*v)).collect::<Vec<_>>().join(" ");
            }
            let exp: Vec<f64> = ws[exp_at..].iter().map(|s| pf(s)).collect();
            if exp.len() == vals.len() && vals.iter().zip(&exp).all(|(v, e)| close(*v, *e)) {
                "close".into()
            } else {
                format!("far {}", vals.iter().map(|v| fb(*v)).collect::<Vec<_>>().join(" "))
            }
        }
        "mid" => match ws[1] {
            "q" => fb(real_src::x_r1_to_q(u(2) as f64, pf(ws[3]))),
            "expn" => fb(real_src::x_exp_n_mutated(u(2) as f64, u(3) as f64, pf(ws[4]))),
            "varn" => match real_src::x_var_n_mutated(u(2) as f64, u(3) as f64, pf(ws[4])) {
                Ok(v) => fb(v),
                Err(e) => err_name(&e),
            },
            "expsq" => match real_src::x_exp_n_mutated_squared(u(2) as f64, u(3) as f64, pf(ws[4])) {
                Ok(v) => fb(v),
                Err(e) => err_name(&e),
            },
            // mid pnc <ani> <k> <scaled> <n>
            "pnc" => match real_src::x_pnc(pf(ws[2]), u(3) as f64, 1.0 / (u(4) as f64), u(5) as f64) {
                Ok(v) => fb(v),
                Err(e) => err_name(&e),
            },
            // mid f12 <c> <k> <scaled> <n> <conf> <z> <pest>
            "f12" => {
                let (a, b, parg) =
                    real_src::x_f12(pf(ws[2]), u(3) as f64, u(4), u(5), pconf(ws[6]), pf(ws[7]), pf(ws[8]));
                format!("{} {} {}", fb(a), fb(b), fb(parg))
            }
            _ => "bad-op".into(),
        },
        "gather" | "gatherv" => {
            let k = u(1) as u32;
            let scaled = u(2);
            let conf = pconf(ws[3]);
            let calc_ci = ws[4] == "1";
            let orig = mh(k, scaled, &parse_nats(ws[5]));
            let remaining = mh(k, scaled, &parse_nats(ws[6]));
            let mscaled = if ws.len() > 9 { u(9) } else { scaled };
            let rank = if ws.len() > 10 { u(10) as usize } else { 0 };
            let mat = mh(k, mscaled, &parse_nats(ws[7]));
            let match_size = u(8) as usize;
            let run = |m: &KmerMinHash| {
                let mut sig = Signature::default();
                sig.push(Sketch::MinHash(m.clone()));
                calculate_gather_stats(&orig, remaining.clone(), sig.into(), match_size, rank, 0, 0, false, calc_ci, conf)
            };
            match run(&mat) {
                Err(e) => err_name(&e),
                Ok((r, _)) => {
                    let kf = k as f64;
                    // the sketch the comparison is made with: the match at the query's scaled
                    let mat_ds = mat.clone().downsample_scaled(scaled).expect("finer or equal");
                    let nu = mat_ds.n_unique_kmers();
                    let ci_same = |c: f64, lo: Option<f64>, hi: Option<f64>| -> String {
                        if !calc_ci {
                            return if lo.is_none() && hi.is_none() { "none".into() } else { "unexpected".into() };
                        }
                        // the reference interval is history-free: computed on a fresh thread
                        match fresh(|| ani_ci_from_containment(c, kf, scaled, nu, conf)) {
                            Ok((l, h)) if lo.map(f64::to_bits) == Some(l.to_bits()) && hi.map(f64::to_bits) == Some(h.to_bits()) => {
                                "same".into()
                            }
                            _ => format!("diff:{}:{}", opt_bits(lo), opt_bits(hi)),
                        }
                    };
                    if ws[0] == "gatherv" {
                        // the property, on the values gather itself reports
                        let (q, m) = (r.query_containment_ani(), r.match_containment_ani());
                        let (wq, wm) = (ani_from_containment(r.f_orig_query(), kf), ani_from_containment(r.f_match_orig(), kf));
                        let ani_ok = q.to_bits() == wq.to_bits() && m.to_bits() == wm.to_bits();
                        let avg_ok = r.average_containment_ani() == (q + m) / 2.0;
                        let mx = r.max_containment_ani();
                        let max_ok = mx >= q && mx >= m && (mx == q || mx == m);
                        let cq = ci_same(r.f_unique_to_query(), r.query_containment_ani_ci_low(), r.query_containment_ani_ci_high());
                        let cm = ci_same(r.f_match(), r.match_containment_ani_ci_low(), r.match_containment_ani_ci_high());
                        let ci_ok = [cq, cm].iter().all(|s| s == "same" || s == "none");
                        let t = |b: bool, s: &str| format!("{}-{}", s, if b { "ok" } else { "BAD" });
                        // invariance: where the match is downsampled must not matter
                        let pre = match run(&mat_ds) {
                            Err(e) => format!("pre-{}", err_name(&e).replace(' ', "-")),
                            Ok((p, _)) => {
                                let grp = |name: &str, a: Vec<Option<f64>>, b: Vec<Option<f64>>| -> String {
                                    let bits = |v: &[Option<f64>]| v.iter().map(|x| opt_bits(*x)).collect::<Vec<_>>().join(",");
                                    if bits(&a) == bits(&b) {
                                        format!("pre-{}-same", name)
                                    } else {
                                        format!("pre-{}-diff:{}/{}", name, bits(&a), bits(&b))
                                    }
                                };
                                let ratios = |g: &sourmash::index::GatherResult| {
                                    vec![Some(g.f_orig_query()), Some(g.f_match_orig()), Some(g.f_unique_to_query()), Some(g.f_match())]
                                };
                                let anis = |g: &sourmash::index::GatherResult| {
                                    vec![
                                        Some(g.query_containment_ani()),
                                        Some(g.match_containment_ani()),
                                        Some(g.average_containment_ani()),
                                        Some(g.max_containment_ani()),
                                    ]
                                };
                                let cis = |g: &sourmash::index::GatherResult| {
                                    vec![
                                        g.query_containment_ani_ci_low(),
                                        g.query_containment_ani_ci_high(),
                                        g.match_containment_ani_ci_low(),
                                        g.match_containment_ani_ci_high(),
                                    ]
                                };
                                format!(
                                    "{} {} {}",
                                    grp("ratios", ratios(&r), ratios(&p)),
                                    grp("ani", anis(&r), anis(&p)),
                                    grp("ci", cis(&r), cis(&p))
                                )
                            }
                        };
                        let ani_tok = if ani_ok {
                            "ani-ok".to_string()
                        } else {
                            // reported / value of ani_from_containment at the reported containment
                            format!("ani-BAD:{}/{},{}/{}", fb(q), fb(wq), fb(m), fb(wm))
                        };
                        return format!(
                            "{} {} {} {} {}",
                            ani_tok,
                            t(avg_ok, "avg"),
                            t(max_ok, "max"),
                            t(ci_ok, "ci"),
                            pre
                        );
                    }
                    format!(
                        "{} {} {} {} {} {} {} {} {} {} nu={}",
                        fb(r.f_orig_query()),
                        fb(r.f_match_orig()),
                        fb(r.f_unique_to_query()),
                        fb(r.f_match()),
                        fb(r.query_containment_ani()),
                        fb(r.match_containment_ani()),
                        fb(r.average_containment_ani()),
                        fb(r.max_containment_ani()),
                        ci_same(r.f_unique_to_query(), r.query_containment_ani_ci_low(), r.query_containment_ani_ci_high()),
                        ci_same(r.f_match(), r.match_containment_ani_ci_low(), r.match_containment_ani_ci_high()),
                        nu,
                    )
                }
            }
        }
        _ => "bad-op".into(),
    }
}

// ------------------------------------------------------------------------------------ generator

fn b(x: f64) -> String {
    format!("{:016x}", x.to_bits())
}
fn conf_s(c: Option<f64>) -> String {
    match c {
        None => "-".into(),
        Some(v) => b(v),
    }
}

const KS: [u64; 9] = [7, 11, 15, 21, 25, 31, 41, 47, 51];
const CONFS: [Option<f64>; 6] = [Some(0.8), Some(0.9), None, Some(0.95), Some(0.975), Some(0.99)];

/// numbers of unique k-mers for one scaled: from ten hashes up to beyond the i32 range
fn n_values(scaled: u64, r: &mut Rng, many: bool) -> Vec<u64> {
    let mut v = vec![10 * scaled, 11 * scaled, 100 * scaled, 1000 * scaled, 10_000 * scaled];
    v.push(r.range(10, 100_000) * scaled);
    if many {
        v.push(1_000_000 * scaled);
        v.push(r.range(10, 10_000_000) * scaled);
    }
    // around the `as i32` saturation point and far beyond it (multiples of scaled, as n_unique_kmers is)
    let two31 = 1u64 << 31;
    let m = two31 / scaled;
    for q in [m.saturating_sub(1), m, m + 1, 4 * m + 3] {
        if q >= 10 {
            v.push(q * scaled);
        }
    }
    v.push((1u64 << 40) / scaled * scaled);
    if many {
        v.push((1u64 << 53) / scaled * scaled + scaled);
        v.push((u64::MAX / scaled) * scaled);
    }
    v.sort();
    v.dedup();
    v
}

fn gen(a: &Args) {
    let mut r = Rng::new(a.seed);
    let mut o = Out::new();
    let thorough = a.tier == "thorough";

    // ---- stream 1: point estimate on the grid, every k
    for k in 7..=51u64 {
        o.case(&format!("point k={}", k));
        o.op(&format!("point {} {}", b(0.0), k));
        o.op(&format!("point {} {}", b(-0.0), k));
        o.op(&format!("point {} {}", b(1.0), k));
        o.op(&format!("ci {} {} 1000 100000 -", b(0.0), k));
        o.op(&format!("ci {} {} 1000 100000 -", b(1.0), k));
        o.op(&format!("cib {} {} 1000 100000 -", b(0.0), k));
        o.op(&format!("cib {} {} 1000 100000 -", b(1.0), k));
        let step = if thorough { 1 } else { 4 };
        let mut i = 1;
        while i < 400 {
            let c = i as f64 / 400.0;
            o.op(&format!("point {} {}", b(c), k));
            o.op(&format!("prange {} {}", b(c), k));
            // grid neighbours are 1/400 apart: strictly ordered outputs are required
            let c2 = (i + step).min(400) as f64 / 400.0;
            o.op(&format!("mono {} {} {}", b(c), b(c2), k));
            o.op(&format!("mono {} {} {}", b(c2), b(c), k));
            i += step;
        }
        // extremes of (0,1): smallest subnormal, smallest normal, next below 1
        for c in [f64::from_bits(1), f64::MIN_POSITIVE, 1e-300, 1e-18, 1.0 - f64::EPSILON / 2.0, 1.0 - f64::EPSILON] {
            o.op(&format!("point {} {}", b(c), k));
            o.op(&format!("prange {} {}", b(c), k));
        }
        // a containment is a ratio of two counts below 2^64: 2^-64 is the scale of the least non-zero one.
        // (Below 2^(-54k) the expression 1 − (1 − x) returns exactly 0: see corpus/C19/tiny.ops.)
        o.op(&format!("mono {} {} {}", b(0.0), b(2f64.powi(-64)), k));
        o.op(&format!("monole {} {} {}", b(0.0), b(f64::from_bits(1)), k));
        o.op(&format!("mono {} {} {}", b(1.0 - 1e-9), b(1.0), k));
    }
    let n = if thorough { 60_000 } else { 4_000 };
    for i in 0..n {
        if i % 1000 == 0 {
            o.case("point-random");
        }
        let k = r.range(7, 51);
        // random doubles of (0,1) at every magnitude
        let c = match r.below(3) {
            0 => (r.next() >> 11) as f64 / (1u64 << 53) as f64,
            1 => f64::from_bits(r.range(1, 1.0f64.to_bits() - 1)),
            _ => 1.0 - (r.next() >> 11) as f64 / (1u64 << 53) as f64 * 2f64.powi(-(r.range(1, 40) as i32)),
        };
        if c <= 0.0 || c >= 1.0 {
            continue;
        }
        o.op(&format!("point {} {}", b(c), k));
        o.op(&format!("prange {} {}", b(c), k));
        // pairs separated by a relative 2^-30 (well above the rounding of pow): strict order
        let c2 = c * (1.0 + 2f64.powi(-30));
        if c2 < 1.0 && c >= 2f64.powi(-64) {
            o.op(&format!("mono {} {} {}", b(c), b(c2), k));
        }
        // adjacent doubles: never in the wrong order
        let c3 = f64::from_bits(c.to_bits() + r.range(1, 4));
        if c3 <= 1.0 {
            o.op(&format!("monole {} {} {}", b(c), b(c3), k));
        }
    }

    // ---- stream 2: private intermediates (bit-for-bit against the Float transcription)
    o.case("intermediates");
    let n = if thorough { 30_000 } else { 3_000 };
    for i in 0..n {
        if i % 500 == 0 && i > 0 {
            o.case("intermediates");
        }
        let k = if i % 4 == 0 { *r.pick(&KS) } else { r.range(7, 51) };
        let scaled = match r.below(5) {
            0 => 1,
            1 => r.range(2, 10),
            2 => r.range(11, 1000),
            3 => 1000,
            _ => r.range(1001, 10_000),
        };
        let ns = n_values(scaled, &mut r, true);
        let nk = *r.pick(&ns);
        let r1 = match r.below(6) {
            0 => 0.0,
            1 => 1e-7,
            2 => 0.9999999,
            3 => (r.next() >> 11) as f64 / (1u64 << 53) as f64 * 0.1,
            _ => (r.next() >> 11) as f64 / (1u64 << 53) as f64,
        };
        o.op(&format!("mid q {} {}", k, b(r1)));
        o.op(&format!("mid expn {} {} {}", nk, k, b(r1)));
        o.op(&format!("mid varn {} {} {}", nk, k, b(r1)));
        o.op(&format!("mid expsq {} {} {}", nk, k, b(r1)));
        let c = r.range(1, 399) as f64 / 400.0;
        let ani = ani_from_containment(c, k as f64);
        o.op(&format!("mid pnc {} {} {} {}", b(ani), k, scaled, nk));
        let conf = *r.pick(&CONFS);
        // any z exercises the arithmetic; the typical ones are the normal quantiles 1.28 .. 2.58
        let z = [1.2815515655446004, 1.6448536269514722, 1.959963984540054, 2.241402727604947, 2.5758293035489004]
            [r.below(5) as usize];
        // probe points: the bracket ends, the point estimate's distance, anything in between
        let pest = match r.below(4) {
            0 => 0.0000001,
            1 => 0.9999999,
            2 => 1.0 - ani,
            _ => (r.next() >> 11) as f64 / (1u64 << 53) as f64,
        };
        o.op(&format!("mid f12 {} {} {} {} {} {} {}", b(c), k, scaled, nk, conf_s(conf), b(z), b(pest)));
    }

    // ---- stream 3: the confidence interval on the grid
    o.case("ci-grid");
    // quick: 13 c × 5 k × 6 scaled × ~10 n × 3 conf ≈ 10^4 ; thorough: 99 c × 9 k × 9 scaled × ~13 n × 6 conf
    let cs: Vec<u64> = if thorough {
        (1..400).step_by(4).collect()
    } else {
        vec![1, 2, 10, 40, 100, 160, 200, 240, 300, 360, 390, 398, 399]
    };
    let ks: Vec<u64> = if thorough { KS.to_vec() } else { vec![7, 21, 31, 41, 51] };
    let scaleds: Vec<u64> = if thorough {
        vec![1, 2, 10, 100, 1000, 2000, 5000, 9999, 10_000]
    } else {
        vec![1, 10, 100, 1000, 7919, 10_000]
    };
    for &k in &ks {
        for &scaled in &scaleds {
            o.case(&format!("ci-grid k={} scaled={}", k, scaled));
            let ns = n_values(scaled, &mut r, thorough);
            for &n in &ns {
                for &ci in &cs {
                    let c = ci as f64 / 400.0;
                    let confs: Vec<Option<f64>> = if thorough {
                        CONFS.to_vec()
                    } else {
                        vec![*r.pick(&CONFS)]
                    };
                    for conf in confs {
                        o.op(&format!("ci {} {} {} {} {}", b(c), k, scaled, n, conf_s(conf)));
                    }
                }
            }
        }
    }
    // ---- stream 3b: order independence.  One case = one thread's history of interval requests whose
    // confidence levels differ but lie close together (inside one whole percent, one tenth of a percent, …),
    // interleaved with a second group; every answer must be the one a fresh thread gives (`fresh-same`).
    // The same through calculate_gather_stats (gather/gatherv with calc_ani_ci: the reference interval is
    // computed on a fresh thread).
    let groups: [&[Option<f64>]; 8] = [
        &[None, Some(0.95), Some(0.9545), Some(0.959), Some(0.955), Some(0.9501)],
        &[Some(0.99), Some(0.995), Some(0.999), Some(0.9973), Some(0.9901)],
        &[Some(0.9), Some(0.905), Some(0.909), Some(0.9001)],
        &[Some(0.97), Some(0.975), Some(0.979)],
        &[Some(0.8), Some(0.805), Some(0.8099)],
        &[Some(0.98), Some(0.985), Some(0.989)],
        &[Some(0.6827), Some(0.68), Some(0.689)],
        &[Some(0.5), Some(0.501), Some(0.509)],
    ];
    let n = if thorough { 3_000 } else { 240 };
    for i in 0..n {
        o.case("ci-order");
        let k = *r.pick(&KS);
        let scaled = *r.pick(&[1u64, 10, 100, 1000, 1000, 10_000]);
        let nk = *r.pick(&[100u64, 1000, 10_000, 100_000]) * scaled;
        let c0 = r.range(20, 380) as f64 / 400.0;
        // the first two groups (the default level and 0.99) most often; otherwise any percent bucket
        let pick_group = |r: &mut Rng| -> Vec<Option<f64>> {
            match r.below(10) {
                0..=2 => groups[0].to_vec(),
                3..=4 => groups[1].to_vec(),
                5..=7 => groups[r.range(2, 7) as usize].to_vec(),
                _ => {
                    let pct = r.range(50, 99);
                    (0..4).map(|_| Some((pct * 1000 + r.below(1000)) as f64 / 100_000.0)).collect()
                }
            }
        };
        let (g1, g2) = (pick_group(&mut r), pick_group(&mut r));
        // a small sketch pair for the calls through gather (ten shared hashes of fifteen / twenty)
        let orig: Vec<u64> = (1..=15).collect();
        let mat: Vec<u64> = (6..=25).collect();
        let len = r.range(2, if thorough { 12 } else { 8 });
        for j in 0..len {
            let conf = if j % 2 == 0 || r.chance(1, 3) { *r.pick(&g1) } else { *r.pick(&g2) };
            // the same request under different levels, or different requests: the level alone decides z
            let c = if r.chance(2, 3) { c0 } else { r.range(20, 380) as f64 / 400.0 };
            if i % 3 == 2 && r.chance(1, 2) {
                let args = format!("{} {} {} 1 {} {} {} {} {} 0", k, scaled, conf_s(conf), show_nats(orig.clone()), show_nats(orig.clone()), show_nats(mat.clone()), r.range(1, 10), scaled);
                o.op(&format!("gather {}", args));
                o.op(&format!("gatherv {}", args));
            } else {
                o.op(&format!("ci {} {} {} {} {}", b(c), k, scaled, nk, conf_s(conf)));
            }
        }
    }

    // random off-grid points
    let n = if thorough { 40_000 } else { 3_000 };
    for i in 0..n {
        if i % 500 == 0 {
            o.case("ci-random");
        }
        let k = r.range(7, 51);
        let scaled = if r.chance(1, 4) { 1 } else { r.range(1, 10_000) };
        let ns = n_values(scaled, &mut r, true);
        let nk = *r.pick(&ns);
        let c = r.range(1, 399_999) as f64 / 400_000.0;
        let conf = if r.chance(1, 3) { *r.pick(&CONFS) } else { Some(0.8 + r.below(1901) as f64 / 10_000.0) };
        o.op(&format!("ci {} {} {} {} {}", b(c), k, scaled, nk, conf_s(conf)));
    }

    // ---- stream 4: gather's ANI fields
    // match sketch at the query's scaled / finer (really thinned inside the function) / finer but with
    // nothing above the query's max_hash (equal after downsampling) / coarser (refused);
    // calc_ani_ci on and off; confidence None and Some; rank 0 (remaining = original) and rank >= 1.
    o.case("gather");
    let n = if thorough { 8_000 } else { 800 };
    for i in 0..n {
        if i % 100 == 0 && i > 0 {
            o.case("gather");
        }
        let k = *r.pick(&[21u64, 31, 51, 7]);
        let scaled = *r.pick(&[1u64, 2, 10, 100, 1000, 1000, 7919, 10_000]);
        // 0 same, 1 finer, 2 finer/equal-after-downsample, 3 coarser
        let class = if scaled == 1 {
            if r.chance(1, 12) { 3 } else { 0 }
        } else {
            match r.below(12) {
                0..=2 => 0,
                3..=7 => 1,
                8..=10 => 2,
                _ => 3,
            }
        };
        let mscaled = match class {
            0 => scaled,
            1 | 2 => *r.pick(&[1u64, 1.max(scaled / 10), 1.max(scaled / 2), scaled - 1]),
            _ => *r.pick(&[scaled + 1, 2 * scaled, 10 * scaled]),
        };
        let mq = sourmash::sketch::minhash::max_hash_for_scaled(scaled);
        let mm = sourmash::sketch::minhash::max_hash_for_scaled(mscaled);
        let universe = r.range(20, 120);
        let pickset = |r: &mut Rng, p: u64| -> Vec<u64> { (1..=universe).filter(|_| r.chance(p, 8)).collect() };
        let mut orig = pickset(&mut r, 5);
        let mut mat = pickset(&mut r, 4);
        // at least ten hashes on each side
        for h in 1..=10u64 {
            if orig.len() < 10 && !orig.contains(&h) {
                orig.push(h);
            }
            if mat.len() < 10 && !mat.contains(&(universe + h)) {
                mat.push(universe + h);
            }
        }
        // the largest hash the query can hold, on either side
        if r.chance(1, 4) {
            orig.push(mq);
        }
        if r.chance(1, 4) {
            mat.push(mq);
        }
        if r.chance(1, 6) {
            orig.push(mq - 1);
            mat.push(mq - 1);
        }
        // hashes the query sketch drops when they are added
        if mq < u64::MAX && r.chance(1, 8) {
            orig.push(mq + 1);
        }
        // the part of a finer match that downsampling removes: right above the query's max_hash, spread
        // up to the match's own max_hash, that max_hash itself, and one beyond it (dropped on insertion)
        if class == 1 && mm > mq {
            let span = mm - mq;
            let nhigh = r.range(1, 2 * universe);
            mat.push(mq + 1);
            for _ in 0..nhigh {
                mat.push(mq + 1 + r.below(span));
            }
            if r.chance(1, 3) {
                mat.push(mm);
            }
            if mm < u64::MAX && r.chance(1, 4) {
                mat.push(mm + 1);
            }
        }
        if class == 3 && r.chance(1, 2) {
            // a coarser match cannot hold these anyway
            mat.retain(|h| *h <= mm);
        }
        orig.sort();
        orig.dedup();
        mat.sort();
        mat.dedup();
        // the remaining query is an ARBITRARY subset of the original one, chosen independently of the match:
        // 0 equal (rank 0) | 1 random subset | 2 everything shared with the match already claimed (disjoint from
        // the match while the original still overlaps it) | 3 empty | 4 part of the shared hashes claimed |
        // 5 only shared hashes left | 6 the shared hashes claimed and a random part of the rest too
        let shared = |h: &u64| mat.binary_search(h).is_ok();
        let rclass = *r.pick(&[0u64, 0, 0, 1, 1, 2, 2, 2, 3, 4, 4, 5, 6]);
        let rank = if rclass == 0 { 0 } else { r.range(1, 5) };
        let remaining: Vec<u64> = match rclass {
            0 => orig.clone(),
            1 => orig.iter().cloned().filter(|_| r.chance(3, 4)).collect(),
            2 => orig.iter().cloned().filter(|h| !shared(h)).collect(),
            3 => vec![],
            4 => orig.iter().cloned().filter(|h| !shared(h) || r.chance(1, 2)).collect(),
            5 => orig.iter().cloned().filter(|h| shared(h)).collect(),
            _ => orig.iter().cloned().filter(|h| !shared(h) && r.chance(1, 2)).collect(),
        };
        // size of the match as the comparison sees it
        let ds = mat.iter().filter(|h| **h <= mq.min(mm)).count() as u64;
        let match_size = r.range(0, ds);
        let conf = if r.chance(1, 5) { Some(0.8 + r.below(1901) as f64 / 10_000.0) } else { *r.pick(&CONFS) };
        let calc_ci = r.chance(2, 3);
        let args = format!(
            "{} {} {} {} {} {} {} {} {} {}",
            k,
            scaled,
            conf_s(conf),
            calc_ci as u8,
            show_nats(orig),
            show_nats(remaining),
            show_nats(mat),
            match_size,
            mscaled,
            rank
        );
        o.op(&format!("gather {}", args));
        o.op(&format!("gatherv {}", args));
    }

    // ---- stream 4b: digit collisions.  KmerMinHash::eq compares md5sum() only, and the md5 preimage is
    // ksize followed by the decimal hashes WITHOUT separators: (original query, match) pairs that are
    // DIFFERENT sets of hashes with the SAME decimal concatenation ({1,23,45} / {1,2,345}) compare equal.
    // Partially overlapping (a shared tail of longer numbers, and whatever the two splits share) and
    // disjoint pairs, at rank 0 and >= 1, all match scaled classes, with and without intervals.  Nothing
    // changes in what is demanded: the ANI fields are ani_from_containment of the ratios reported.
    let n = if thorough { 4_000 } else { 400 };
    for i in 0..n {
        if i % 100 == 0 {
            o.case("gather-digits");
        }
        let k = *r.pick(&[21u64, 31, 51, 7]);
        let scaled = *r.pick(&[1u64, 2, 10, 100, 1000, 1000, 7919, 10_000]);
        let mscaled = if scaled > 1 && r.chance(1, 3) { *r.pick(&[1u64, 1.max(scaled / 10), 1.max(scaled / 2), scaled - 1]) } else { scaled };
        let want_disjoint = i % 3 == 0;
        let mut pair = None;
        for _ in 0..200 {
            if let Some((a, bset)) = digit_pair(&mut r) {
                let common = a.iter().filter(|h| bset.contains(h)).count();
                if want_disjoint && common > 0 {
                    continue;
                }
                pair = Some((a, bset));
                break;
            }
        }
        let (mut orig, mut mat) = match pair {
            Some(p) => p,
            None => (vec![12, 345], vec![1, 23, 45]),
        };
        if !want_disjoint {
            // a shared tail of numbers longer than everything so far keeps the concatenations equal
            let top = *orig.iter().chain(mat.iter()).max().unwrap();
            let mut t = top;
            for _ in 0..r.range(0, 12) {
                t += r.range(1, 1000);
                orig.push(t);
                mat.push(t);
            }
        }
        if r.chance(1, 2) {
            std::mem::swap(&mut orig, &mut mat);
        }
        debug_assert_ne!(orig, mat);
        let shared = |h: &u64| mat.binary_search(h).is_ok();
        let rclass = *r.pick(&[0u64, 0, 0, 1, 2, 3, 5]);
        let rank = if rclass == 0 { 0 } else { r.range(1, 5) };
        let remaining: Vec<u64> = match rclass {
            0 => orig.clone(),
            1 => orig.iter().cloned().filter(|_| r.chance(3, 4)).collect(),
            2 => orig.iter().cloned().filter(|h| !shared(h)).collect(),
            3 => vec![],
            _ => orig.iter().cloned().filter(|h| shared(h)).collect(),
        };
        let match_size = r.range(0, mat.len() as u64);
        let conf = *r.pick(&CONFS);
        let calc_ci = r.chance(1, 2);
        let args = format!(
            "{} {} {} {} {} {} {} {} {} {}",
            k,
            scaled,
            conf_s(conf),
            calc_ci as u8,
            show_nats(orig),
            show_nats(remaining),
            show_nats(mat),
            match_size,
            mscaled,
            rank
        );
        o.op(&format!("gather {}", args));
        o.op(&format!("gatherv {}", args));
    }
}

/// one digit string cut in two different ways into strictly increasing numbers (no leading zeros):
/// two different sorted hash lists with the same decimal concatenation
fn digit_pair(r: &mut Rng) -> Option<(Vec<u64>, Vec<u64>)> {
    let len = r.range(4, 40) as usize;
    let digits: Vec<u8> = (0..len).map(|i| if i == 0 || r.chance(9, 10) { r.range(1, 9) as u8 } else { 0 }).collect();
    let cut = |r: &mut Rng| -> Option<Vec<u64>> {
        // piece lengths never decrease; equal lengths must still increase numerically
        let mut out: Vec<u64> = vec![];
        let (mut at, mut plen) = (0usize, r.range(1, 3) as usize);
        while at < len {
            let rest = len - at;
            let mut l = if r.chance(2, 3) { plen } else { plen + r.range(1, 2) as usize };
            // what is left must be cut into pieces at least this long
            if l > rest || (rest > l && rest - l < l) {
                l = rest;
            }
            if l > 12 || digits[at] == 0 {
                return None;
            }
            let v: u64 = digits[at..at + l].iter().fold(0u64, |a, d| a * 10 + *d as u64);
            if out.last().map_or(false, |p| *p >= v) {
                return None;
            }
            out.push(v);
            at += l;
            plen = l;
        }
        Some(out)
    };
    for _ in 0..50 {
        if let (Some(a), Some(bb)) = (cut(r), cut(r)) {
            if a != bb && a.len() >= 2 && bb.len() >= 2 {
                return Some((a, bb));
            }
        }
    }
    None
}

/// the thread a case runs on: request lines go in, one answer per line comes back
struct Worker {
    tx: Option<std::sync::mpsc::Sender<String>>,
    rx: std::sync::mpsc::Receiver<String>,
    handle: Option<std::thread::JoinHandle<()>>,
}
impl Worker {
    fn new() -> Worker {
        let (tx, wrx) = std::sync::mpsc::channel::<String>();
        let (wtx, rx) = std::sync::mpsc::channel::<String>();
        let handle = std::thread::Builder::new()
            .stack_size(64 << 20)
            .spawn(move || {
                for line in wrx {
                    let ws: Vec<&str> = line.split_whitespace().collect();
                    let r = std::panic::catch_unwind(std::panic::AssertUnwindSafe(|| step(&mut (), &ws)));
                    if wtx.send(r.unwrap_or_else(|_| "PANIC".into())).is_err() {
                        break;
                    }
                }
            })
            .unwrap();
        Worker { tx: Some(tx), rx, handle: Some(handle) }
    }
    fn ask(&mut self, ws: &[&str]) -> String {
        if self.tx.as_ref().unwrap().send(ws.join(" ")).is_err() {
            return "PANIC".into();
        }
        self.rx.recv().unwrap_or_else(|_| "PANIC".into())
    }
}
impl Drop for Worker {
    fn drop(&mut self) {
        self.tx.take();
        if let Some(h) = self.handle.take() {
            let _ = h.join();
        }
    }
}

fn main() {
    let a = args();
    match a.mode.as_str() {
        "gen" => gen(&a),
        "exec" => exec_loop(Worker::new, |w, ws| w.ask(ws)),
        _ => panic!("mode"),
    }
}
