//! C01: a sketch always holds exactly the sample its parameters define.
//!
//! Request lines
//!   case <n> <vec|tree> num=<n> scaled=<s> mh=<max_hash> track=<0|1> onum=<n> otrack=<0|1>
//!   add <h> <a> | set <h> <a> | rm <h> | rmmany <h,h,..> | clear | merge
//!   o.add / o.set / o.rm / o.rmmany / o.clear / o.merge   (the same on the second sketch `o`;
//!   `merge` merges `o` into the main sketch, `o.merge` the main sketch into `o`)
//! Response to every op: the canonical observation of the sketch the op acted on,
//!   `mins=<list> abunds=<list|none> size=<n> sum=<n> empty=<0|1>`.
use sourmash::encodings::HashFunctions;
use sourmash::signature::SigsTrait;
use sourmash::sketch::minhash::{max_hash_for_scaled, KmerMinHash, KmerMinHashBTree};
use verif_harness::*;

enum Sk {
    V(KmerMinHash),
    T(KmerMinHashBTree),
}

impl Sk {
    fn new(tree: bool, scaled: u64, num: u32, track: bool) -> Sk {
        if tree {
            Sk::T(KmerMinHashBTree::new(scaled, 21, HashFunctions::Murmur64Dna, 42, track, num))
        } else {
            Sk::V(KmerMinHash::new(scaled, 21, HashFunctions::Murmur64Dna, 42, track, num))
        }
    }
    fn max_hash(&self) -> u64 {
        match self {
            Sk::V(m) => m.max_hash(),
            Sk::T(m) => m.max_hash(),
        }
    }
    fn obs(&self) -> String {
        let (mins, abunds, size, sum, empty) = match self {
            Sk::V(m) => (m.mins(), m.abunds(), m.size(), m.sum_abunds(), m.is_empty()),
            Sk::T(m) => (m.mins(), m.abunds(), m.size(), m.sum_abunds(), m.is_empty()),
        };
        format!(
            "mins={} abunds={} size={} sum={} empty={}",
            show_nats(mins),
            match abunds {
                Some(a) => show_nats(a),
                None => "none".into(),
            },
            size,
            sum,
            empty as u8
        )
    }
    fn add(&mut self, h: u64, a: u64) {
        match self {
            Sk::V(m) => m.add_hash_with_abundance(h, a),
            Sk::T(m) => m.add_hash_with_abundance(h, a),
        }
    }
    fn set(&mut self, h: u64, a: u64) -> bool {
        match self {
            Sk::V(m) => {
                m.set_hash_with_abundance(h, a);
                true
            }
            Sk::T(_) => false,
        }
    }
    fn rm(&mut self, h: u64) {
        match self {
            Sk::V(m) => m.remove_hash(h),
            Sk::T(m) => m.remove_hash(h),
        }
    }
    fn rmmany(&mut self, hs: Vec<u64>) -> Result<(), sourmash::Error> {
        match self {
            Sk::V(m) => m.remove_many(hs),
            Sk::T(m) => m.remove_many(hs),
        }
    }
    fn clear(&mut self) {
        match self {
            Sk::V(m) => m.clear(),
            Sk::T(m) => m.clear(),
        }
    }
    fn merge(&mut self, o: &Sk) -> Result<(), sourmash::Error> {
        match (self, o) {
            (Sk::V(m), Sk::V(o)) => m.merge(o),
            (Sk::T(m), Sk::T(o)) => m.merge(o),
            _ => unreachable!(),
        }
    }
}

struct St {
    main: Option<Sk>,
    other: Option<Sk>,
}

fn kv<'a>(ws: &'a [&str], key: &str) -> &'a str {
    for w in ws {
        if let Some(v) = w.strip_prefix(key) {
            if let Some(v) = v.strip_prefix('=') {
                return v;
            }
        }
    }
    panic!("missing {}", key)
}

fn err_name(e: &sourmash::Error) -> String {
    let d = format!("{:?}", e);
    let n: String = d.chars().take_while(|c| c.is_alphanumeric()).collect();
    format!("err {}", n)
}

fn step(st: &mut St, ws: &[&str]) -> String {
    if ws[0] == "case" {
        let tree = ws[2] == "tree";
        let scaled: u64 = kv(ws, "scaled").parse().unwrap();
        let mh: u64 = kv(ws, "mh").parse().unwrap();
        let num: u32 = kv(ws, "num").parse().unwrap();
        let onum: u32 = kv(ws, "onum").parse().unwrap();
        let track = kv(ws, "track") == "1";
        let otrack = kv(ws, "otrack") == "1";
        let main = Sk::new(tree, scaled, num, track);
        if main.max_hash() != mh {
            st.main = None;
            st.other = None;
            return format!("err max_hash {}", main.max_hash());
        }
        st.main = Some(main);
        st.other = Some(Sk::new(tree, scaled, onum, otrack));
        return "ok".into();
    }
    let (on_other, op) = match ws[0].strip_prefix("o.") {
        Some(op) => (true, op),
        None => (false, ws[0]),
    };
    let (mut tgt, mut src) = (st.main.take().unwrap(), st.other.take().unwrap());
    if on_other {
        std::mem::swap(&mut tgt, &mut src);
    }
    let n = |i: usize| -> u64 { ws[i].parse().unwrap() };
    let r: Result<(), String> = match op {
        "add" => {
            tgt.add(n(1), n(2));
            Ok(())
        }
        "set" => {
            if tgt.set(n(1), n(2)) {
                Ok(())
            } else {
                Err("bad-op".into())
            }
        }
        "rm" => {
            tgt.rm(n(1));
            Ok(())
        }
        "rmmany" => tgt.rmmany(parse_nats(ws[1])).map_err(|e| err_name(&e)),
        "clear" => {
            tgt.clear();
            Ok(())
        }
        "merge" => tgt.merge(&src).map_err(|e| err_name(&e)),
        _ => Err("bad-op".into()),
    };
    let out = match r {
        Ok(()) => tgt.obs(),
        Err(e) => e,
    };
    if on_other {
        std::mem::swap(&mut tgt, &mut src);
    }
    st.main = Some(tgt);
    st.other = Some(src);
    out
}

/// Small scope, exhaustively: every history of exactly `depth` ops from a fixed 18-op alphabet over
/// the 4-hash universe {0, 1, c, c+1} (c = the ceiling for the scaled class, 2 for the num class),
/// for both types x {scaled = 2^63 (ceiling 2), num = 2} x tracking on/off.
fn gen_exhaustive(o: &mut Out, depth: u32) {
    for tree in [false, true] {
        for is_scaled in [true, false] {
            for track in [false, true] {
                let (scaled, num) = if is_scaled { (1u64 << 63, 0) } else { (0, 2) };
                let mh = max_hash_for_scaled(scaled);
                let c = if is_scaled { mh } else { 2 };
                let uni = [0u64, 1, c, c + 1];
                let mut alphabet: Vec<String> = vec![];
                for h in uni {
                    alphabet.push(format!("add {} 1", h));
                    alphabet.push(format!("add {} 0", h));
                    alphabet.push(format!("rm {}", h));
                    alphabet.push(format!("o.add {} 2", h));
                }
                alphabet.push("merge".into());
                alphabet.push("clear".into());
                let n = alphabet.len() as u64;
                let total = n.pow(depth);
                for code in 0..total {
                    o.case(&format!(
                        "{} num={} scaled={} mh={} track={} onum={} otrack={}",
                        if tree { "tree" } else { "vec" },
                        num,
                        scaled,
                        mh,
                        track as u8,
                        num,
                        // the second sketch tracks iff the low bit of the code says so: both mixes occur
                        ((code & 1) as u8) ^ (track as u8)
                    ));
                    let mut c = code;
                    for _ in 0..depth {
                        o.op(&alphabet[(c % n) as usize]);
                        c /= n;
                    }
                }
            }
        }
    }
}

fn gen(a: &Args) {
    let mut r = Rng::new(a.seed);
    let mut o = Out::new();
    gen_exhaustive(&mut o, if a.tier == "thorough" { 4 } else { 3 });
    let ncases = if a.cases > 0 {
        a.cases
    } else if a.tier == "thorough" {
        200_000
    } else {
        4_000
    };
    let scaleds: [u64; 6] = [1, 2, 3, 100, 1000, 1u64 << 63];
    for _ in 0..ncases {
        let tree = r.chance(1, 2);
        let is_scaled = r.chance(3, 5);
        let (scaled, num, onum) = if is_scaled {
            (*r.pick(&scaleds), 0u64, 0u64)
        } else {
            let n = r.range(1, 8);
            let on = if r.chance(3, 4) { n } else { r.range(1, 8) };
            (0, n, on)
        };
        let mh = max_hash_for_scaled(scaled);
        let track = r.chance(1, 2);
        let otrack = if r.chance(7, 10) { track } else { !track };
        o.case(&format!(
            "{} num={} scaled={} mh={} track={} onum={} otrack={}",
            if tree { "tree" } else { "vec" },
            num,
            scaled,
            mh,
            track as u8,
            onum,
            otrack as u8
        ));
        // 8 pooled values: forces duplicates, removals of present keys, merges with overlap
        let mut pool = [0u64; 8];
        for p in pool.iter_mut() {
            *p = if is_scaled {
                if mh < 16 {
                    r.range(0, mh + 2)
                } else if r.chance(3, 4) {
                    r.below(mh)
                } else {
                    mh.saturating_add(r.bits(20))
                }
            } else if r.chance(1, 3) {
                r.range(0, 20)
            } else {
                r.bits(64)
            };
        }
        let boundary = [
            0u64,
            1,
            mh.wrapping_sub(1),
            mh,
            mh.wrapping_add(1),
            u64::MAX,
            u64::MAX - 1,
            2,
        ];
        let nops = r.range(1, 40);
        for _ in 0..nops {
            let hash = |r: &mut Rng| -> u64 {
                match r.below(20) {
                    0..=6 => *r.pick(&boundary),
                    7..=16 => *r.pick(&pool),
                    _ => r.next(),
                }
            };
            let abund = |r: &mut Rng| -> u64 {
                match r.below(10) {
                    0..=4 => 1,
                    5..=7 => r.range(0, 3),
                    8 => 0,
                    _ => r.bits(30),
                }
            };
            let pfx = |on_o: bool| if on_o { "o." } else { "" };
            let k = r.below(100);
            match k {
                0..=39 => {
                    let (h, ab) = (hash(&mut r), abund(&mut r));
                    o.op(&format!("add {} {}", h, ab));
                }
                40..=47 => {
                    let on_o = r.chance(1, 4);
                    let (h, ab) = (hash(&mut r), abund(&mut r));
                    if tree {
                        o.op(&format!("{}add {} {}", pfx(on_o), h, ab));
                    } else {
                        o.op(&format!("{}set {} {}", pfx(on_o), h, ab));
                    }
                }
                48..=59 => {
                    let on_o = r.chance(1, 6);
                    o.op(&format!("{}rm {}", pfx(on_o), hash(&mut r)));
                }
                60..=64 => {
                    let on_o = r.chance(1, 6);
                    let n = r.range(0, 4);
                    let hs: Vec<u64> = (0..n).map(|_| hash(&mut r)).collect();
                    o.op(&format!("{}rmmany {}", pfx(on_o), show_nats(hs)));
                }
                65..=67 => {
                    let on_o = r.chance(1, 4);
                    o.op(&format!("{}clear", pfx(on_o)));
                }
                68..=77 => o.op("merge"),
                78..=80 => o.op("o.merge"),
                _ => {
                    let (h, ab) = (hash(&mut r), abund(&mut r));
                    o.op(&format!("o.add {} {}", h, ab));
                }
            }
        }
    }
}

fn main() {
    let a = args();
    match a.mode.as_str() {
        "gen" => gen(&a),
        "exec" => exec_loop(
            || St {
                main: None,
                other: None,
            },
            step,
        ),
        _ => panic!("mode"),
    }
}
