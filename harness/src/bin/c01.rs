//! C01: a sketch always holds exactly the sample its parameters define.
//!
//! Request lines
//!   case <n> <vec|tree> num=<n> scaled=<s> mh=<max_hash> track=<0|1> onum=<n> otrack=<0|1>
//!   add <h> <a> | set <h> <a> | rm <h> | rmmany <h,h,..> | clear | merge
//!   o.add / o.set / o.rm / o.rmmany / o.clear / o.merge   (the same on the second sketch `o`;
//!   `merge` merges `o` into the main sketch, `o.merge` the main sketch into `o`)
//!   every other insertion / removal entry point (bulk steps; abstract meaning = the fold of the
//!   single steps):
//!     addh <h> (add_hash) | addmany <h,..> (add_many) | addab <h:a,..> (add_many_with_abund) |
//!     addfrom / rmfrom (add_from / remove_from with the other sketch as operand; the tree type has
//!     no remove_from, `remove_many(other.mins())` is its spelling) | addword <hex> (add_word)
//!   observers (abstract meaning: nothing changes):
//!     md5 (md5sum(); answer `md5=<hex> <obs>`) | eq (`target == operand`; answer `eq=<0|1> <obs>`) |
//!     clone (target := operand.clone(): parameters, content AND digest cache of the operand) |
//!     ser (serde_json::to_string, result dropped) | reload (target := from_str(to_string(target)))
//!   C API (vector type only), the register handed over as a `SourmashKmerMinHash` handle WITHOUT
//!   cloning it (ForeignObject::from_rust / into_rust; a clone would fill the digest cache):
//!     cadd <h> <a> | caddh <h> | crm <h> | crmmany <l> | cclear | cmerge | caddfrom | crmfrom |
//!     caddmany <l> (kmerminhash_add_many) | csetab <clear> <h:a,..> (kmerminhash_set_abundances)
//! Response to every op: the canonical observation of the sketch the op acted on,
//!   `mins=<list> abunds=<list|none> size=<n> sum=<n> empty=<0|1>`.
use sourmash::encodings::HashFunctions;
use sourmash::ffi::minhash::*;
use sourmash::ffi::utils::{sourmash_err_clear, sourmash_err_get_last_code, ForeignObject};
use sourmash::signature::SigsTrait;
use sourmash::sketch::minhash::{max_hash_for_scaled, KmerMinHash, KmerMinHashBTree};
use verif_harness::*;

enum Sk {
    V(KmerMinHash),
    T(KmerMinHashBTree),
}

impl Sk {
    fn new(tree: bool, scaled: u64, num: u32, track: bool) -> Sk {
        if tree {
            Sk::T(KmerMinHashBTree::new(scaled, 21, HashFunctions::Murmur64Dna, 42, track, num))
        } else {
            Sk::V(KmerMinHash::new(scaled, 21, HashFunctions::Murmur64Dna, 42, track, num))
        }
    }
    fn max_hash(&self) -> u64 {
        match self {
            Sk::V(m) => m.max_hash(),
            Sk::T(m) => m.max_hash(),
        }
    }
    fn obs(&self) -> String {
        let (mins, abunds, size, sum, empty) = match self {
            Sk::V(m) => (m.mins(), m.abunds(), m.size(), m.sum_abunds(), m.is_empty()),
            Sk::T(m) => (m.mins(), m.abunds(), m.size(), m.sum_abunds(), m.is_empty()),
        };
        format!(
            "mins={} abunds={} size={} sum={} empty={}",
            show_nats(mins),
            match abunds {
                Some(a) => show_nats(a),
                None => "none".into(),
            },
            size,
            sum,
            empty as u8
        )
    }
    fn add(&mut self, h: u64, a: u64) {
        match self {
            Sk::V(m) => m.add_hash_with_abundance(h, a),
            Sk::T(m) => m.add_hash_with_abundance(h, a),
        }
    }
    fn set(&mut self, h: u64, a: u64) -> bool {
        match self {
            Sk::V(m) => {
                m.set_hash_with_abundance(h, a);
                true
            }
            Sk::T(_) => false,
        }
    }
    fn rm(&mut self, h: u64) {
        match self {
            Sk::V(m) => m.remove_hash(h),
            Sk::T(m) => m.remove_hash(h),
        }
    }
    fn rmmany(&mut self, hs: Vec<u64>) -> Result<(), sourmash::Error> {
        match self {
            Sk::V(m) => m.remove_many(hs),
            Sk::T(m) => m.remove_many(hs),
        }
    }
    fn clear(&mut self) {
        match self {
            Sk::V(m) => m.clear(),
            Sk::T(m) => m.clear(),
        }
    }
    fn merge(&mut self, o: &Sk) -> Result<(), sourmash::Error> {
        match (self, o) {
            (Sk::V(m), Sk::V(o)) => m.merge(o),
            (Sk::T(m), Sk::T(o)) => m.merge(o),
            _ => unreachable!(),
        }
    }
    fn addh(&mut self, h: u64) {
        match self {
            Sk::V(m) => m.add_hash(h),
            Sk::T(m) => m.add_hash(h),
        }
    }
    fn addmany(&mut self, hs: &[u64]) -> Result<(), sourmash::Error> {
        match self {
            Sk::V(m) => m.add_many(hs),
            Sk::T(m) => m.add_many(hs),
        }
    }
    fn addab(&mut self, ps: &[(u64, u64)]) -> Result<(), sourmash::Error> {
        match self {
            Sk::V(m) => m.add_many_with_abund(ps),
            Sk::T(m) => m.add_many_with_abund(ps),
        }
    }
    fn addfrom(&mut self, o: &Sk) -> Result<(), sourmash::Error> {
        match (self, o) {
            (Sk::V(m), Sk::V(o)) => m.add_from(o),
            (Sk::T(m), Sk::T(o)) => m.add_from(o),
            _ => unreachable!(),
        }
    }
    fn rmfrom(&mut self, o: &Sk) -> Result<(), sourmash::Error> {
        match (self, o) {
            (Sk::V(m), Sk::V(o)) => m.remove_from(o),
            (Sk::T(m), Sk::T(o)) => m.remove_many(o.mins()),
            _ => unreachable!(),
        }
    }
    fn addword(&mut self, w: &[u8]) {
        match self {
            Sk::V(m) => m.add_word(w),
            Sk::T(m) => m.add_word(w),
        }
    }
    fn md5(&self) -> String {
        match self {
            Sk::V(m) => m.md5sum(),
            Sk::T(m) => m.md5sum(),
        }
    }
    fn eq(&self, o: &Sk) -> bool {
        match (self, o) {
            (Sk::V(m), Sk::V(o)) => m == o,
            (Sk::T(m), Sk::T(o)) => m == o,
            _ => unreachable!(),
        }
    }
    fn cloned(&self) -> Sk {
        match self {
            Sk::V(m) => Sk::V(m.clone()),
            Sk::T(m) => Sk::T(m.clone()),
        }
    }
    fn ser(&self) -> String {
        match self {
            Sk::V(m) => serde_json::to_string(m).unwrap(),
            Sk::T(m) => serde_json::to_string(m).unwrap(),
        }
    }
    fn reload(&self) -> Sk {
        match self {
            Sk::V(_) => Sk::V(serde_json::from_str(&self.ser()).unwrap()),
            Sk::T(_) => Sk::T(serde_json::from_str(&self.ser()).unwrap()),
        }
    }
}

fn parse_pairs(s: &str) -> Vec<(u64, u64)> {
    if s == "-" || s.is_empty() {
        return vec![];
    }
    s.split(',')
        .map(|w| {
            let (h, a) = w.split_once(':').unwrap();
            (h.parse().unwrap(), a.parse().unwrap())
        })
        .collect()
}

fn show_pairs(v: &[(u64, u64)]) -> String {
    if v.is_empty() {
        "-".into()
    } else {
        v.iter().map(|(h, a)| format!("{}:{}", h, a)).collect::<Vec<_>>().join(",")
    }
}

// ------------------------------------------------------------------------------- C-API plumbing

/// set by the panic hook: a panic inside an `ffi_fn!` body is swallowed by `landingpad`
static PANICKED: std::sync::atomic::AtomicBool = std::sync::atomic::AtomicBool::new(false);

fn ffi_begin() {
    static HOOK: std::sync::Once = std::sync::Once::new();
    HOOK.call_once(|| {
        std::panic::set_hook(Box::new(|_| {
            PANICKED.store(true, std::sync::atomic::Ordering::SeqCst);
        }))
    });
    PANICKED.store(false, std::sync::atomic::Ordering::SeqCst);
    unsafe { sourmash_err_clear() };
}

fn ffi_end() -> Result<(), String> {
    let code = unsafe { sourmash_err_get_last_code() } as u32;
    unsafe { sourmash_err_clear() };
    if PANICKED.swap(false, std::sync::atomic::Ordering::SeqCst) {
        return Err("PANIC".into());
    }
    match code {
        0 => Ok(()),
        101 => Err("err MismatchKSizes".into()),
        102 => Err("err MismatchDNAProt".into()),
        103 => Err("err MismatchScaled".into()),
        104 => Err("err MismatchSeed".into()),
        c => Err(format!("err code{}", c)),
    }
}

/// one C-API op on `tgt` (operand `src`), both handed over as handles made from the VALUES
/// themselves and taken back afterwards: no clone, the digest caches stay as they are
fn capi(tgt: Sk, src: Sk, op: &str, ws: &[&str]) -> (Sk, Sk, Result<(), String>) {
    let (t, o) = match (tgt, src) {
        (Sk::V(t), Sk::V(o)) => (t, o),
        (t, o) => return (t, o, Err("bad-op".into())),
    };
    let n = |i: usize| -> u64 { ws[i].parse().unwrap() };
    unsafe {
        let h = SourmashKmerMinHash::from_rust(t);
        let oh = SourmashKmerMinHash::from_rust(o);
        ffi_begin();
        let mut known = true;
        match op {
            "cadd" => kmerminhash_add_hash_with_abundance(h, n(1), n(2)),
            "caddh" => kmerminhash_add_hash(h, n(1)),
            "crm" => kmerminhash_remove_hash(h, n(1)),
            "crmmany" => {
                let hs = parse_nats(ws[1]);
                kmerminhash_remove_many(h, hs.as_ptr(), hs.len())
            }
            "cclear" => kmerminhash_clear(h),
            "cmerge" => kmerminhash_merge(h, oh),
            "caddfrom" => kmerminhash_add_from(h, oh),
            "crmfrom" => kmerminhash_remove_from(h, oh),
            "caddmany" => {
                let hs = parse_nats(ws[1]);
                kmerminhash_add_many(h, hs.as_ptr(), hs.len())
            }
            "csetab" => {
                let (hs, abs): (Vec<u64>, Vec<u64>) = parse_pairs(ws[2]).into_iter().unzip();
                kmerminhash_set_abundances(h, hs.as_ptr(), abs.as_ptr(), hs.len(), ws[1] == "1")
            }
            _ => known = false,
        }
        let r = ffi_end();
        let t = *SourmashKmerMinHash::into_rust(h);
        let o = *SourmashKmerMinHash::into_rust(oh);
        (Sk::V(t), Sk::V(o), if known { r } else { Err("bad-op".into()) })
    }
}

struct St {
    main: Option<Sk>,
    other: Option<Sk>,
}

fn kv<'a>(ws: &'a [&str], key: &str) -> &'a str {
    for w in ws {
        if let Some(v) = w.strip_prefix(key) {
            if let Some(v) = v.strip_prefix('=') {
                return v;
            }
        }
    }
    panic!("missing {}", key)
}

fn err_name(e: &sourmash::Error) -> String {
    let d = format!("{:?}", e);
    let n: String = d.chars().take_while(|c| c.is_alphanumeric()).collect();
    format!("err {}", n)
}

fn step(st: &mut St, ws: &[&str]) -> String {
    if ws[0] == "case" {
        let tree = ws[2] == "tree";
        let scaled: u64 = kv(ws, "scaled").parse().unwrap();
        let mh: u64 = kv(ws, "mh").parse().unwrap();
        let num: u32 = kv(ws, "num").parse().unwrap();
        let onum: u32 = kv(ws, "onum").parse().unwrap();
        let track = kv(ws, "track") == "1";
        let otrack = kv(ws, "otrack") == "1";
        let main = Sk::new(tree, scaled, num, track);
        if main.max_hash() != mh {
            st.main = None;
            st.other = None;
            return format!("err max_hash {}", main.max_hash());
        }
        st.main = Some(main);
        st.other = Some(Sk::new(tree, scaled, onum, otrack));
        return "ok".into();
    }
    let (on_other, op) = match ws[0].strip_prefix("o.") {
        Some(op) => (true, op),
        None => (false, ws[0]),
    };
    let (mut tgt, mut src) = (st.main.take().unwrap(), st.other.take().unwrap());
    if on_other {
        std::mem::swap(&mut tgt, &mut src);
    }
    let n = |i: usize| -> u64 { ws[i].parse().unwrap() };
    if op.starts_with('c') && !matches!(op, "clear" | "clone") {
        let (t, o, r) = capi(tgt, src, op, ws);
        let out = match r {
            Ok(()) => t.obs(),
            Err(e) => e,
        };
        let (t, o) = if on_other { (o, t) } else { (t, o) };
        st.main = Some(t);
        st.other = Some(o);
        return out;
    }
    let mut prefix = String::new();
    let r: Result<(), String> = match op {
        "addh" => {
            tgt.addh(n(1));
            Ok(())
        }
        "addmany" => tgt.addmany(&parse_nats(ws[1])).map_err(|e| err_name(&e)),
        "addab" => tgt.addab(&parse_pairs(ws[1])).map_err(|e| err_name(&e)),
        "addfrom" => tgt.addfrom(&src).map_err(|e| err_name(&e)),
        "rmfrom" => tgt.rmfrom(&src).map_err(|e| err_name(&e)),
        "addword" => {
            tgt.addword(&unhex(ws[1]));
            Ok(())
        }
        "md5" => {
            prefix = format!("md5={} ", tgt.md5());
            Ok(())
        }
        "eq" => {
            prefix = format!("eq={} ", tgt.eq(&src) as u8);
            Ok(())
        }
        "clone" => {
            tgt = src.cloned();
            Ok(())
        }
        "ser" => {
            let _ = tgt.ser();
            Ok(())
        }
        "reload" => {
            tgt = tgt.reload();
            Ok(())
        }
        "add" => {
            tgt.add(n(1), n(2));
            Ok(())
        }
        "set" => {
            if tgt.set(n(1), n(2)) {
                Ok(())
            } else {
                Err("bad-op".into())
            }
        }
        "rm" => {
            tgt.rm(n(1));
            Ok(())
        }
        "rmmany" => tgt.rmmany(parse_nats(ws[1])).map_err(|e| err_name(&e)),
        "clear" => {
            tgt.clear();
            Ok(())
        }
        "merge" => tgt.merge(&src).map_err(|e| err_name(&e)),
        _ => Err("bad-op".into()),
    };
    let out = match r {
        Ok(()) => format!("{}{}", prefix, tgt.obs()),
        Err(e) => e,
    };
    if on_other {
        std::mem::swap(&mut tgt, &mut src);
    }
    st.main = Some(tgt);
    st.other = Some(src);
    out
}

/// Small scope, exhaustively: every history of exactly `depth` ops from a fixed 18-op alphabet over
/// the 4-hash universe {0, 1, c, c+1} (c = the ceiling for the scaled class, 2 for the num class),
/// for both types x {scaled = 2^63 (ceiling 2), num = 2} x tracking on/off.
fn gen_exhaustive(o: &mut Out, depth: u32) {
    for tree in [false, true] {
        for is_scaled in [true, false] {
            for track in [false, true] {
                let (scaled, num) = if is_scaled { (1u64 << 63, 0) } else { (0, 2) };
                let mh = max_hash_for_scaled(scaled);
                let c = if is_scaled { mh } else { 2 };
                let uni = [0u64, 1, c, c + 1];
                let mut alphabet: Vec<String> = vec![];
                for h in uni {
                    alphabet.push(format!("add {} 1", h));
                    alphabet.push(format!("add {} 0", h));
                    alphabet.push(format!("rm {}", h));
                    alphabet.push(format!("o.add {} 2", h));
                }
                alphabet.push("merge".into());
                alphabet.push("clear".into());
                let n = alphabet.len() as u64;
                let total = n.pow(depth);
                for code in 0..total {
                    o.case(&format!(
                        "{} num={} scaled={} mh={} track={} onum={} otrack={}",
                        if tree { "tree" } else { "vec" },
                        num,
                        scaled,
                        mh,
                        track as u8,
                        num,
                        // the second sketch tracks iff the low bit of the code says so: both mixes occur
                        ((code & 1) as u8) ^ (track as u8)
                    ));
                    let mut c = code;
                    for _ in 0..depth {
                        o.op(&alphabet[(c % n) as usize]);
                        c /= n;
                    }
                }
            }
        }
    }
}

fn case_line(tree: bool, num: u64, scaled: u64, mh: u64, track: bool, onum: u64, otrack: bool) -> String {
    format!(
        "{} num={} scaled={} mh={} track={} onum={} otrack={}",
        if tree { "tree" } else { "vec" },
        num,
        scaled,
        mh,
        track as u8,
        onum,
        otrack as u8
    )
}

/// the C-API spelling of an op, where there is one
fn capi_name(op: &str) -> Option<&'static str> {
    Some(match op {
        "add" => "cadd",
        "addh" => "caddh",
        "rm" => "crm",
        "rmmany" => "crmmany",
        "clear" => "cclear",
        "merge" => "cmerge",
        "addfrom" => "caddfrom",
        "rmfrom" => "crmfrom",
        "addmany" => "caddmany",
        _ => return None,
    })
}

/// Small scope over the BULK entry points, exhaustively: every pair list of length <= 2 over the
/// 4-hash universe x abundances {0,1,2} (plus `extra` random lists of length 3-4), handed to
/// add_many_with_abund / add_many / kmerminhash_set_abundances / kmerminhash_add_many of an EMPTY
/// receiver (`o`) and of a receiver that already holds one hash (or nothing), followed by add_from,
/// remove_from and merge between the two; both types x {scaled, num = 2} x tracking on/off.
fn gen_bulk_exhaustive(o: &mut Out, r: &mut Rng, extra: u64) {
    for tree in [false, true] {
        for is_scaled in [true, false] {
            for track in [false, true] {
                let (scaled, num) = if is_scaled { (1u64 << 63, 0) } else { (0, 2) };
                let mh = max_hash_for_scaled(scaled);
                let c = if is_scaled { mh } else { 2 };
                let uni = [0u64, 1, c, c + 1];
                let mut pairs: Vec<(u64, u64)> = vec![];
                for h in uni {
                    for a in [0u64, 1, 2] {
                        pairs.push((h, a));
                    }
                }
                let mut lists: Vec<Vec<(u64, u64)>> = vec![vec![]];
                for p in &pairs {
                    lists.push(vec![*p]);
                }
                for p in &pairs {
                    for q in &pairs {
                        lists.push(vec![*p, *q]);
                    }
                }
                for _ in 0..extra {
                    let n = r.range(3, 4);
                    lists.push((0..n).map(|_| *r.pick(&pairs)).collect());
                }
                let prefixes = ["", "add 0 1", "add 1 2", &format!("add {} 1", c)];
                for (li, l) in lists.iter().enumerate() {
                    for (pi, pre) in prefixes.iter().enumerate() {
                        let otrack = track ^ ((li + pi) % 3 == 0);
                        o.case(&format!("{} bulk", case_line(tree, num, scaled, mh, track, num, otrack)));
                        if !pre.is_empty() {
                            o.op(pre);
                        }
                        let keys = show_nats(l.iter().map(|p| p.0));
                        let capi = !tree && (li + pi) % 2 == 1;
                        o.op(&format!("o.addab {}", show_pairs(l)));
                        o.op(&format!("addab {}", show_pairs(l)));
                        o.op(if capi { "o.cclear" } else { "o.clear" });
                        o.op(&format!("o.{} {}", if capi { "caddmany" } else { "addmany" }, keys));
                        o.op(&format!("{} {}", if capi { "caddmany" } else { "addmany" }, keys));
                        if !tree {
                            o.op(&format!("o.csetab 1 {}", show_pairs(l)));
                            o.op(&format!("csetab 0 {}", show_pairs(l)));
                        }
                        o.op(if capi { "caddfrom" } else { "addfrom" });
                        o.op(if capi { "o.crmfrom" } else { "o.rmfrom" });
                        o.op(if capi { "cmerge" } else { "merge" });
                    }
                }
            }
        }
    }
}

/// Merges whose operands were OBSERVED first: md5sum / == / serialisation / Clone between the
/// mutators, the second operand a clone of the first, a reloaded copy, or a separately built sketch
/// holding the SAME hash set with other abundances (and possibly the other tracking mode).
fn gen_observed(o: &mut Out, r: &mut Rng, n: u64) {
    let scaleds: [u64; 4] = [1, 2, 1000, 1u64 << 63];
    for _ in 0..n {
        let tree = r.chance(1, 2);
        let is_scaled = r.chance(3, 5);
        let (scaled, num) = if is_scaled { (*r.pick(&scaleds), 0u64) } else { (0, r.range(1, 6)) };
        let onum = if is_scaled || r.chance(3, 4) { num } else { r.range(1, 6) };
        let mh = max_hash_for_scaled(scaled);
        let track = r.chance(3, 4);
        let otrack = if r.chance(3, 4) { track } else { !track };
        o.case(&format!("{} observed", case_line(tree, num, scaled, mh, track, onum, otrack)));
        let nk = r.range(0, 6);
        let mut keys: Vec<u64> = vec![];
        for _ in 0..nk {
            let h = if is_scaled {
                if mh < 16 {
                    r.range(0, mh)
                } else if r.chance(1, 8) {
                    mh - r.below(2)
                } else {
                    r.below(mh)
                }
            } else if r.chance(1, 2) {
                r.range(0, 12)
            } else {
                r.bits(64)
            };
            keys.push(h);
        }
        let with_ab = |r: &mut Rng, ks: &[u64]| -> Vec<(u64, u64)> { ks.iter().map(|k| (*k, r.range(1, 5))).collect() };
        let observe = |o: &mut Out, r: &mut Rng, pfx: &str| {
            for _ in 0..r.below(3) {
                o.op(&format!("{}{}", pfx, *r.pick(&["md5", "md5", "eq", "ser"])));
            }
        };
        let first = with_ab(r, &keys);
        o.op(&format!("addab {}", show_pairs(&first)));
        observe(o, r, "");
        match r.below(5) {
            0 => o.op("o.clone"),
            1 => {
                // the same hash set, other abundances, built separately, digest requested
                let mut second = with_ab(r, &keys);
                second.reverse();
                o.op(&format!("o.addab {}", show_pairs(&second)));
                o.op("o.md5");
                o.op("md5");
            }
            2 => {
                // a clone whose abundances are then bumped / overwritten: the digest cache survives
                o.op("o.clone");
                for k in keys.iter().take(3) {
                    if tree || r.chance(1, 2) {
                        o.op(&format!("o.add {} {}", k, r.range(1, 3)));
                    } else {
                        o.op(&format!("o.set {} {}", k, r.range(0, 3)));
                    }
                }
            }
            3 => {
                o.op("o.clone");
                o.op("o.reload");
                if r.chance(1, 2) {
                    o.op("reload");
                }
            }
            _ => {
                // same hash set through add_many on the second sketch, compared with ==
                o.op(&format!("o.addmany {}", show_nats(keys.iter().cloned())));
                o.op("eq");
            }
        }
        observe(o, r, "o.");
        let cm = |r: &mut Rng, tree: bool, op: &str| -> String {
            if !tree && r.chance(1, 3) {
                op.replace("merge", "cmerge")
            } else {
                op.to_string()
            }
        };
        o.op(&cm(r, tree, "merge"));
        observe(o, r, "");
        o.op(&cm(r, tree, "o.merge"));
        // and once more with the now-equal sketches, after another insertion on one side
        if r.chance(1, 2) {
            let h = if is_scaled { r.below(mh.max(1)) } else { r.range(0, 12) };
            o.op(&format!("add {} {}", h, r.range(1, 3)));
        }
        o.op("md5");
        o.op("o.md5");
        o.op(&cm(r, tree, "merge"));
        o.op("o.clone");
        o.op(&cm(r, tree, "o.merge"));
    }
}

fn gen(a: &Args) {
    let mut r = Rng::new(a.seed);
    let mut o = Out::new();
    gen_exhaustive(&mut o, if a.tier == "thorough" { 4 } else { 3 });
    gen_bulk_exhaustive(&mut o, &mut r, if a.tier == "thorough" { 2000 } else { 60 });
    gen_observed(&mut o, &mut r, if a.tier == "thorough" { 60_000 } else { 2_500 });
    let ncases = if a.cases > 0 {
        a.cases
    } else if a.tier == "thorough" {
        200_000
    } else {
        4_000
    };
    let scaleds: [u64; 6] = [1, 2, 3, 100, 1000, 1u64 << 63];
    for _ in 0..ncases {
        let tree = r.chance(1, 2);
        let is_scaled = r.chance(3, 5);
        let (scaled, num, onum) = if is_scaled {
            (*r.pick(&scaleds), 0u64, 0u64)
        } else {
            let n = r.range(1, 8);
            let on = if r.chance(3, 4) { n } else { r.range(1, 8) };
            (0, n, on)
        };
        let mh = max_hash_for_scaled(scaled);
        let track = r.chance(1, 2);
        let otrack = if r.chance(7, 10) { track } else { !track };
        o.case(&format!(
            "{} num={} scaled={} mh={} track={} onum={} otrack={}",
            if tree { "tree" } else { "vec" },
            num,
            scaled,
            mh,
            track as u8,
            onum,
            otrack as u8
        ));
        // 8 pooled values: forces duplicates, removals of present keys, merges with overlap
        let mut pool = [0u64; 8];
        for p in pool.iter_mut() {
            *p = if is_scaled {
                if mh < 16 {
                    r.range(0, mh + 2)
                } else if r.chance(3, 4) {
                    r.below(mh)
                } else {
                    mh.saturating_add(r.bits(20))
                }
            } else if r.chance(1, 3) {
                r.range(0, 20)
            } else {
                r.bits(64)
            };
        }
        let boundary = [
            0u64,
            1,
            mh.wrapping_sub(1),
            mh,
            mh.wrapping_add(1),
            u64::MAX,
            u64::MAX - 1,
            2,
        ];
        let nops = r.range(1, 40);
        for _ in 0..nops {
            let hash = |r: &mut Rng| -> u64 {
                match r.below(20) {
                    0..=6 => *r.pick(&boundary),
                    7..=16 => *r.pick(&pool),
                    _ => r.next(),
                }
            };
            let abund = |r: &mut Rng| -> u64 {
                match r.below(10) {
                    0..=4 => 1,
                    5..=7 => r.range(0, 3),
                    8 => 0,
                    _ => r.bits(30),
                }
            };
            let pfx = |on_o: bool| if on_o { "o." } else { "" };
            let k = r.below(100);
            match k {
                0..=39 => {
                    let (h, ab) = (hash(&mut r), abund(&mut r));
                    o.op(&format!("{} {} {}", if !tree && r.chance(1, 6) { "cadd" } else { "add" }, h, ab));
                }
                40..=47 => {
                    let on_o = r.chance(1, 4);
                    let (h, ab) = (hash(&mut r), abund(&mut r));
                    if tree {
                        o.op(&format!("{}add {} {}", pfx(on_o), h, ab));
                    } else {
                        o.op(&format!("{}set {} {}", pfx(on_o), h, ab));
                    }
                }
                48..=59 => {
                    let on_o = r.chance(1, 6);
                    o.op(&format!("{}rm {}", pfx(on_o), hash(&mut r)));
                }
                60..=64 => {
                    let on_o = r.chance(1, 6);
                    let n = r.range(0, 4);
                    let hs: Vec<u64> = (0..n).map(|_| hash(&mut r)).collect();
                    o.op(&format!("{}rmmany {}", pfx(on_o), show_nats(hs)));
                }
                65..=67 => {
                    let on_o = r.chance(1, 4);
                    o.op(&format!("{}clear", pfx(on_o)));
                }
                68..=74 => o.op(if !tree && r.chance(1, 3) { "cmerge" } else { "merge" }),
                75..=76 => o.op("o.merge"),
                77..=84 => {
                    let (h, ab) = (hash(&mut r), abund(&mut r));
                    o.op(&format!("o.add {} {}", h, ab));
                }
                85..=93 => {
                    // a bulk entry point: list sorted strictly increasing / as drawn / with repeats;
                    // one in four on a receiver that was just emptied
                    let on_o = r.chance(1, 3);
                    let n = r.range(0, 7);
                    let mut ps: Vec<(u64, u64)> = (0..n).map(|_| (hash(&mut r), abund(&mut r))).collect();
                    match r.below(3) {
                        0 => {
                            ps.sort();
                            ps.dedup_by_key(|p| p.0);
                        }
                        1 => {
                            for i in 0..ps.len() {
                                if r.chance(1, 3) {
                                    let d = (ps[i].0, abund(&mut r));
                                    ps.push(d);
                                }
                            }
                        }
                        _ => {}
                    }
                    if r.chance(1, 4) {
                        o.op(&format!("{}clear", pfx(on_o)));
                    }
                    let keys = show_nats(ps.iter().map(|p| p.0));
                    let c = !tree && r.chance(1, 3);
                    match r.below(if tree { 5 } else { 7 }) {
                        0 | 1 => o.op(&format!("{}addab {}", pfx(on_o), show_pairs(&ps))),
                        2 => o.op(&format!("{}{} {}", pfx(on_o), if c { "caddmany" } else { "addmany" }, keys)),
                        3 => o.op(&format!("{}{} {}", pfx(on_o), if c { "crmmany" } else { "rmmany" }, keys)),
                        4 => {
                            let h = hash(&mut r);
                            o.op(&format!("{}{} {}", pfx(on_o), if c { "caddh" } else { "addh" }, h));
                        }
                        _ => o.op(&format!("{}csetab {} {}", pfx(on_o), r.below(2), show_pairs(&ps))),
                    }
                }
                94..=96 => {
                    let on_o = r.chance(1, 2);
                    let op = *r.pick(&["addfrom", "addfrom", "rmfrom"]);
                    let op = if !tree && r.chance(1, 3) { capi_name(op).unwrap() } else { op };
                    o.op(&format!("{}{}", pfx(on_o), op));
                }
                97 => {
                    let w: Vec<u8> = (0..r.range(0, 24)).map(|_| *r.pick(b"ACGTacgtN")).collect();
                    o.op(&format!("{}addword {}", pfx(r.chance(1, 4)), hex(&w)));
                }
                _ => {
                    let on_o = r.chance(1, 2);
                    o.op(&format!("{}{}", pfx(on_o), *r.pick(&["md5", "eq", "clone", "ser", "reload", "md5"])));
                }
            }
        }
    }
}

fn main() {
    let a = args();
    match a.mode.as_str() {
        "gen" => gen(&a),
        "exec" => exec_loop(
            || St {
                main: None,
                other: None,
            },
            step,
        ),
        _ => panic!("mode"),
    }
}
