//! C08: gather on the on-disk (RocksDB) index returns the greedy minimum set cover with
//! consistent statistics.
//!
//! Request lines of one case (`case <n> <scaled> <track 0|1>`):
//!   `d <hashes>`            append a dataset (id = position), answer `ok`
//!   `q <hashes> <abunds>`   set the query (abunds `-` or one per hash), answer `ok`
//!   (the four requests below may carry a trailing `@<case>` tag, ignored)
//!   `gather <t>`            every field of every GatherResult (model column)
//!   `cover <t>`             per match `name:unique overlap:f_match bits`            (spec column)
//!   `stats <t>`             per match `rank:unique_bp:remaining_bp:f_unique bits`   (spec column)
//!   `wstats <t>`            per match `n_unique_weighted:sum_weighted:total_weighted:f_unique_weighted bits`
//! The index is a real `RevIndex::create` on a scratch directory, built once per case.
use sourmash::index::revindex::{RevIndex, RevIndexOps};
use sourmash::index::GatherResult;
use sourmash::selection::Selection;
use sourmash::signature::SigsTrait;
use verif_harness::index_util::*;
use verif_harness::*;

// ------------------------------------------------------------------------------------------ gen

fn subset(r: &mut Rng, from: &[u64], num: u64, den: u64) -> Vec<u64> {
    from.iter().copied().filter(|_| r.chance(num, den)).collect()
}

fn pick_k(r: &mut Rng, from: &[u64], k: usize) -> Vec<u64> {
    let mut v: Vec<u64> = from.to_vec();
    let mut out = vec![];
    while out.len() < k && !v.is_empty() {
        let i = r.below(v.len() as u64) as usize;
        out.push(v.swap_remove(i));
    }
    out.sort();
    out
}

fn union(a: &[u64], b: &[u64]) -> Vec<u64> {
    let mut v: Vec<u64> = a.iter().chain(b.iter()).copied().collect();
    v.sort();
    v.dedup();
    v
}

fn gen_case(r: &mut Rng, o: &mut Out) {
    let scaled = *r.pick(&[1u64, 2]);
    let track = r.chance(1, 2);
    // universe: <= 40 hashes, all below the ceiling of scaled = 2 (2^63)
    let usize_ = match r.below(6) {
        0 => r.range(1, 6),
        1 => r.range(6, 14),
        _ => r.range(10, 40),
    } as usize;
    let mut uni: Vec<u64> = vec![];
    let big = r.chance(1, 3);
    while uni.len() < usize_ {
        let h = if big && r.chance(1, 2) { r.bits(62) } else { r.range(0, 60) };
        if !uni.contains(&h) {
            uni.push(h);
        }
    }
    uni.sort();
    // query
    let q: Vec<u64> = match r.below(12) {
        0 => vec![],
        1 => uni.clone(),
        2 | 3 => subset(r, &uni, 1, 4),
        _ => {
            let num = r.range(2, 5);
            subset(r, &uni, num, 5)
        }
    };
    let not_q: Vec<u64> = uni.iter().copied().filter(|h| !q.contains(h)).collect();
    let nd = r.range(1, 8) as usize;
    let mut ds: Vec<Vec<u64>> = vec![];
    for _ in 0..nd {
        let prev: Option<Vec<u64>> = if ds.is_empty() { None } else { Some(r.pick(&ds).clone()) };
        let kind = r.below(14);
        let d: Vec<u64> = match (kind, prev) {
            (0, Some(p)) => p,                                             // duplicate
            (1, Some(p)) => subset(r, &p, 1, 2),                            // nested inside
            (2, Some(p)) => union(&p, &subset(r, &uni, 1, 4)),              // superset
            (3, Some(p)) => {
                // same overlap with the query as an earlier dataset (tie), different members
                let k = p.iter().filter(|h| q.contains(h)).count();
                union(&pick_k(r, &q, k), &subset(r, &not_q, 1, 3))
            }
            (4, Some(p)) => {
                // same overlap, shares hashes with p (the tie breaks after the first removal)
                let inq: Vec<u64> = p.iter().copied().filter(|h| q.contains(h)).collect();
                let keep = pick_k(r, &inq, inq.len() / 2);
                let rest: Vec<u64> = q.iter().copied().filter(|h| !inq.contains(h)).collect();
                union(&union(&keep, &pick_k(r, &rest, inq.len() - keep.len())), &subset(r, &not_q, 1, 4))
            }
            (5, _) => subset(r, &not_q, 1, 2),                              // disjoint from the query
            (6, _) if r.chance(1, 3) => q.clone(),                         // the query itself
            (7, _) => subset(r, &q, 1, 2),                                  // inside the query
            (8, _) => {
                // tiny
                let k = r.range(1, 3) as usize;
                pick_k(r, &uni, k)
            }
            (9, _) if r.chance(1, 3) => uni.clone(),                       // everything
            (6, _) | (9, _) | (10, _) | (11, _) if !q.is_empty() => {
                // a contiguous chunk of the query (covers need several rounds) + strangers
                let a = r.below(q.len() as u64) as usize;
                let l = r.range(1, (q.len() as u64 / 2).max(1)) as usize;
                union(&q[a..(a + l).min(q.len())], &subset(r, &not_q, 1, 5))
            }
            _ => {
                let num = r.range(1, 4);
                subset(r, &uni, num, 5)
            }
        };
        // an empty sketch cannot be told apart from a missing one by the manifest; keep >= 1 hash
        let d = if d.is_empty() { vec![*r.pick(&uni)] } else { d };
        ds.push(d);
    }
    o.case(&format!("{} {}", scaled, track as u8));
    for d in &ds {
        o.op(&format!("d {}", show_nats(d.iter().copied())));
    }
    let ab: Vec<u64> = q
        .iter()
        .map(|_| match r.below(10) {
            0 => r.bits(40).max(1),
            1 | 2 => 1,
            _ => r.range(1, 6),
        })
        .collect();
    o.op(&format!(
        "q {} {}",
        show_nats(q.iter().copied()),
        if track { show_nats(ab.iter().copied()) } else { "-".into() }
    ));
    // the trailing `@n` only names the collection the request is about (ignored by both sides)
    let tag = format!("@{}", o.ncases - 1);
    for t in 0..=5u64 {
        o.op(&format!("gather {} {}", t, tag));
        o.op(&format!("cover {} {}", t, tag));
        o.op(&format!("stats {} {}", t, tag));
        o.op(&format!("wstats {} {}", t, tag));
    }
    // a threshold at / next to the largest overlap, and one far above everything
    let best = ds.iter().map(|d| d.iter().filter(|h| q.contains(h)).count() as u64).max().unwrap_or(0);
    for t in [best.saturating_sub(1), best, best + 1, 1000] {
        if t > 5 {
            o.op(&format!("gather {} {}", t, tag));
            o.op(&format!("cover {} {}", t, tag));
        }
    }
}

fn gen(a: &Args) {
    let mut r = Rng::new(a.seed);
    let mut o = Out::new();
    let n = if a.cases > 0 {
        a.cases
    } else if a.tier == "thorough" {
        6000
    } else {
        300
    };
    for _ in 0..n {
        gen_case(&mut r, &mut o);
    }
}

// ----------------------------------------------------------------------------------------- exec

struct St {
    scaled: u64,
    track: bool,
    ds: Vec<Vec<u64>>,
    q: Vec<u64>,
    ab: Vec<u64>,
    index: Option<(tempfile::TempDir, RevIndex)>,
}

fn new_state() -> St {
    St { scaled: 1, track: false, ds: vec![], q: vec![], ab: vec![], index: None }
}

fn bits(x: f64) -> String {
    format!("{:016x}", x.to_bits())
}

fn run_gather(s: &mut St, t: usize) -> Result<Vec<GatherResult>, String> {
    if s.index.is_none() {
        let sigs: Vec<_> = s
            .ds
            .iter()
            .enumerate()
            .map(|(i, d)| make_sig(&format!("d{}", i), d, None, s.scaled))
            .collect();
        let dir = scratch_dir();
        let idx = RevIndex::create(dir.path().join("idx"), mem_collection(sigs), false)
            .map_err(|e| format!("err {:?}", e))?;
        s.index = Some((dir, idx));
    }
    let idx = &s.index.as_ref().unwrap().1;
    let qmh = make_mh(&s.q, if s.track { Some(&s.ab) } else { None }, s.scaled);
    assert_eq!(qmh.size(), s.q.len());
    let (counter, query_colors, hash_to_color) = idx.prepare_gather_counters(&qmh);
    // `None` would reach `CollectionSet::selection()`, which is `todo!()`; the value is unused by gather
    idx.gather(counter, query_colors, hash_to_color, t, &qmh, Some(Selection::default()))
        .map_err(|e| format!("err {:?}", e))
}

fn join(rows: Vec<String>) -> String {
    if rows.is_empty() {
        "-".into()
    } else {
        rows.join(";")
    }
}

fn step(s: &mut St, ws: &[&str]) -> String {
    match ws[0] {
        "case" => {
            s.scaled = ws.get(2).map(|x| x.parse().unwrap()).unwrap_or(1);
            s.track = ws.get(3).map(|x| *x == "1").unwrap_or(false);
            "ok".into()
        }
        "d" => {
            s.ds.push(parse_nats(ws[1]));
            s.index = None;
            "ok".into()
        }
        "q" => {
            s.q = parse_nats(ws[1]);
            s.ab = parse_nats(ws.get(2).copied().unwrap_or("-"));
            if s.track && s.ab.len() != s.q.len() {
                s.ab = vec![1; s.q.len()];
            }
            "ok".into()
        }
        "gather" | "cover" | "stats" | "wstats" => {
            let t: usize = ws[1].parse().unwrap();
            if s.ds.is_empty() {
                return "no-datasets".into();
            }
            let res = match run_gather(s, t) {
                Ok(r) => r,
                Err(e) => return e,
            };
            let sc = s.scaled as usize;
            join(match ws[0] {
                "gather" => res
                    .iter()
                    .map(|g| {
                        format!(
                            "{},{},{},{},{},{},{},{},{},{},{},{},{},{},{},{},{},{},{},{}",
                            g.name(),
                            g.gather_result_rank(),
                            g.intersect_bp(),
                            g.unique_intersect_bp(),
                            g.remaining_bp(),
                            g.n_unique_weighted_found(),
                            g.sum_weighted_found(),
                            g.total_weighted_hashes(),
                            bits(g.f_orig_query()),
                            bits(g.f_match()),
                            bits(g.f_unique_to_query()),
                            bits(g.f_unique_weighted()),
                            bits(g.f_match_orig()),
                            bits(g.average_abund()),
                            bits(g.median_abund()),
                            bits(g.std_abund()),
                            bits(g.query_containment_ani()),
                            bits(g.match_containment_ani()),
                            bits(g.average_containment_ani()),
                            bits(g.max_containment_ani()),
                        )
                    })
                    .collect(),
                "cover" => res
                    .iter()
                    .map(|g| format!("{}:{}:{}", g.name(), g.unique_intersect_bp() / sc, bits(g.f_match())))
                    .collect(),
                "stats" => res
                    .iter()
                    .map(|g| {
                        format!(
                            "{}:{}:{}:{}",
                            g.gather_result_rank(),
                            g.unique_intersect_bp(),
                            g.remaining_bp(),
                            bits(g.f_unique_to_query())
                        )
                    })
                    .collect(),
                _ => res
                    .iter()
                    .map(|g| {
                        format!(
                            "{}:{}:{}:{}",
                            g.n_unique_weighted_found(),
                            g.sum_weighted_found(),
                            g.total_weighted_hashes(),
                            bits(g.f_unique_weighted())
                        )
                    })
                    .collect(),
            })
        }
        _ => "bad-op".into(),
    }
}

fn main() {
    let a = args();
    match a.mode.as_str() {
        "gen" => gen(&a),
        "exec" => exec_loop(new_state, step),
        "debug" => {
            // like exec, but panics are printed
            use std::io::BufRead;
            let mut st = new_state();
            for line in std::io::stdin().lock().lines() {
                let line = line.unwrap();
                let ws: Vec<&str> = line.split_whitespace().collect();
                if ws.first() == Some(&"case") {
                    st = new_state();
                }
                println!("{}", step(&mut st, &ws));
            }
        }
        _ => panic!("mode"),
    }
}
