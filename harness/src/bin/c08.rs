//! C08: gather on the on-disk (RocksDB) index returns the greedy minimum set cover with
//! consistent statistics.
//!
//! Request lines of one case (`case <n> <scaled> <track 0|1>`):
//!   `d <hashes>`            append a dataset (id = position), answer `ok`
//!   `q <hashes> <abunds>`   set the query (abunds `-` or one per hash), answer `ok`
//!   (the four requests below may carry a trailing `@<case>` tag, ignored)
//!   `gather <t>`            every field of every GatherResult (model column)
//!   `cover <t>`             per match `name:unique overlap:f_match bits`            (spec column)
//!   `stats <t>`             per match `rank:unique_bp:remaining_bp:f_unique bits`   (spec column)
//!   `wstats <t>`            per match `n_unique_weighted:sum_weighted:total_weighted:f_unique_weighted bits`
//!   `counter`               `counter_for_query(q)`: `id:count` per dataset sharing a hash, by id (spec column)
//!   `colors`                `prepare_gather_counters(q)`: the dataset set that HashToColor / QueryColors
//!                           record for every query hash, in query order, run-length encoded
//!                           `<n>x<id>+<id>…` (`<n>x-` = not in the index)                  (model column)
//!
//! Besides the small cases (universe <= 40 hashes) there is a LARGE family: queries of 1023..9000
//! hashes (sizes straddling 1024 / 4096 / 8192 and 4100..9000) against 2..5 datasets that are ranges /
//! strided subsets of the sorted query placed on both sides of positions 1024 / 4096 / 8192, so that a
//! cover needs several rounds with overlaps far into the query (look-up batching, hash/colour pairing).
//! The index is a real `RevIndex::create` on a scratch directory, built once per case.
//!
//! HISTORY family (generated after the other two, same request grammar): the case line carries a fourth
//! parameter `h=<threads>:<n0>[r]+<n1>[r]+…` and the index of that case is built INCREMENTALLY inside a
//! rayon pool of <threads>: `RevIndex::create` over the first n0 datasets (filesystem-backed collection),
//! then one `update` per further segment that appends the next n_i datasets (the last segment takes all
//! that is left); `r` = the index is closed and reopened (`RevIndex::open`) after that step.  The model
//! and the specification do not look at the parameter: gather on an index that was extended must answer
//! exactly what the model says about the collection (C09 proves the builds indistinguishable).
use sourmash::index::revindex::{RevIndex, RevIndexOps};
use sourmash::index::GatherResult;
use sourmash::selection::Selection;
use sourmash::signature::SigsTrait;
use verif_harness::index_util::*;
use verif_harness::*;

// ------------------------------------------------------------------------------------------ gen

fn subset(r: &mut Rng, from: &[u64], num: u64, den: u64) -> Vec<u64> {
    from.iter().copied().filter(|_| r.chance(num, den)).collect()
}

fn pick_k(r: &mut Rng, from: &[u64], k: usize) -> Vec<u64> {
    let mut v: Vec<u64> = from.to_vec();
    let mut out = vec![];
    while out.len() < k && !v.is_empty() {
        let i = r.below(v.len() as u64) as usize;
        out.push(v.swap_remove(i));
    }
    out.sort();
    out
}

fn union(a: &[u64], b: &[u64]) -> Vec<u64> {
    let mut v: Vec<u64> = a.iter().chain(b.iter()).copied().collect();
    v.sort();
    v.dedup();
    v
}

/// a build history for `nd` datasets: `<threads>:<n0>[r]+<n1>[r]…` (see the module comment)
fn gen_history(r: &mut Rng, nd: usize) -> String {
    let threads = *r.pick(&[1u64, 4]);
    // the first build leaves at least two datasets for the extensions when there are that many: an
    // update that appends SEVERAL datasets at once is the interesting one (its operands are merged with
    // each other before they meet the stored value)
    let n0 = if nd <= 2 {
        r.range(0, nd as u64 - 1) as usize
    } else if r.chance(1, 8) {
        0
    } else {
        r.range(1, nd as u64 - 2) as usize
    };
    let rest = nd - n0;
    let mut segs = vec![n0];
    if rest >= 3 && r.chance(1, 2) {
        let a = r.range(1, rest as u64 - 1) as usize;
        segs.push(a);
        segs.push(rest - a);
    } else {
        segs.push(rest);
    }
    let segs: Vec<String> =
        segs.iter().map(|n| format!("{}{}", n, if r.chance(1, 2) { "r" } else { "" })).collect();
    format!(" h={}:{}", threads, segs.join("+"))
}

fn gen_case(r: &mut Rng, o: &mut Out, hist: bool) {
    let scaled = *r.pick(&[1u64, 2]);
    let track = r.chance(1, 2);
    // universe: <= 40 hashes, all below the ceiling of scaled = 2 (2^63)
    let usize_ = match r.below(6) {
        0 => r.range(1, 6),
        1 => r.range(6, 14),
        _ => r.range(10, 40),
    } as usize;
    let mut uni: Vec<u64> = vec![];
    let big = r.chance(1, 3);
    while uni.len() < usize_ {
        let h = if big && r.chance(1, 2) { r.bits(62) } else { r.range(0, 60) };
        if !uni.contains(&h) {
            uni.push(h);
        }
    }
    uni.sort();
    // query
    let q: Vec<u64> = match r.below(12) {
        0 => vec![],
        1 => uni.clone(),
        2 | 3 => subset(r, &uni, 1, 4),
        _ => {
            let num = r.range(2, 5);
            subset(r, &uni, num, 5)
        }
    };
    let not_q: Vec<u64> = uni.iter().copied().filter(|h| !q.contains(h)).collect();
    let nd = r.range(1, 8) as usize;
    let mut ds: Vec<Vec<u64>> = vec![];
    for _ in 0..nd {
        let prev: Option<Vec<u64>> = if ds.is_empty() { None } else { Some(r.pick(&ds).clone()) };
        let kind = r.below(14);
        let d: Vec<u64> = match (kind, prev) {
            (0, Some(p)) => p,                                             // duplicate
            (1, Some(p)) => subset(r, &p, 1, 2),                            // nested inside
            (2, Some(p)) => union(&p, &subset(r, &uni, 1, 4)),              // superset
            (3, Some(p)) => {
                // same overlap with the query as an earlier dataset (tie), different members
                let k = p.iter().filter(|h| q.contains(h)).count();
                union(&pick_k(r, &q, k), &subset(r, &not_q, 1, 3))
            }
            (4, Some(p)) => {
                // same overlap, shares hashes with p (the tie breaks after the first removal)
                let inq: Vec<u64> = p.iter().copied().filter(|h| q.contains(h)).collect();
                let keep = pick_k(r, &inq, inq.len() / 2);
                let rest: Vec<u64> = q.iter().copied().filter(|h| !inq.contains(h)).collect();
                union(&union(&keep, &pick_k(r, &rest, inq.len() - keep.len())), &subset(r, &not_q, 1, 4))
            }
            (5, _) => subset(r, &not_q, 1, 2),                              // disjoint from the query
            (6, _) if r.chance(1, 3) => q.clone(),                         // the query itself
            (7, _) => subset(r, &q, 1, 2),                                  // inside the query
            (8, _) => {
                // tiny
                let k = r.range(1, 3) as usize;
                pick_k(r, &uni, k)
            }
            (9, _) if r.chance(1, 3) => uni.clone(),                       // everything
            (6, _) | (9, _) | (10, _) | (11, _) if !q.is_empty() => {
                // a contiguous chunk of the query (covers need several rounds) + strangers
                let a = r.below(q.len() as u64) as usize;
                let l = r.range(1, (q.len() as u64 / 2).max(1)) as usize;
                union(&q[a..(a + l).min(q.len())], &subset(r, &not_q, 1, 5))
            }
            _ => {
                let num = r.range(1, 4);
                subset(r, &uni, num, 5)
            }
        };
        // an empty sketch cannot be told apart from a missing one by the manifest; keep >= 1 hash
        let d = if d.is_empty() { vec![*r.pick(&uni)] } else { d };
        ds.push(d);
    }
    let h = if hist { gen_history(r, ds.len()) } else { String::new() };
    o.case(&format!("{} {}{}", scaled, track as u8, h));
    for d in &ds {
        o.op(&format!("d {}", show_nats(d.iter().copied())));
    }
    let ab: Vec<u64> = q
        .iter()
        .map(|_| match r.below(10) {
            0 => r.bits(40).max(1),
            1 | 2 => 1,
            _ => r.range(1, 6),
        })
        .collect();
    o.op(&format!(
        "q {} {}",
        show_nats(q.iter().copied()),
        if track { show_nats(ab.iter().copied()) } else { "-".into() }
    ));
    // the trailing `@n` only names the collection the request is about (ignored by both sides)
    let tag = format!("@{}", o.ncases - 1);
    o.op(&format!("counter {}", tag));
    o.op(&format!("colors {}", tag));
    for t in 0..=5u64 {
        o.op(&format!("gather {} {}", t, tag));
        o.op(&format!("cover {} {}", t, tag));
        o.op(&format!("stats {} {}", t, tag));
        o.op(&format!("wstats {} {}", t, tag));
    }
    // a threshold at / next to the largest overlap, and one far above everything
    let best = ds.iter().map(|d| d.iter().filter(|h| q.contains(h)).count() as u64).max().unwrap_or(0);
    for t in [best.saturating_sub(1), best, best + 1, 1000] {
        if t > 5 {
            o.op(&format!("gather {} {}", t, tag));
            o.op(&format!("cover {} {}", t, tag));
        }
    }
}


/// `{q[i] : a <= i < b, (i - a) % stride == phase}`
fn span(q: &[u64], a: usize, b: usize, stride: usize, phase: usize) -> Vec<u64> {
    (a..b.min(q.len())).filter(|i| (i - a) % stride == phase).map(|i| q[i]).collect()
}

/// LARGE family: a query of `nq` hashes; datasets are (unions of) ranges / strided subsets of the
/// sorted query around positions 1024 / 4096 / 8192 (+ a few hashes foreign to the query).
fn gen_large(r: &mut Rng, o: &mut Out, nq: usize, maxlen: usize, hist: bool) {
    let scaled = *r.pick(&[1u64, 2]);
    let track = r.chance(1, 2);
    // the query: increasing, gaps of 1..4 (a gap >= 2 leaves room for a foreign hash), sometimes jumps
    let wide = r.chance(1, 3);
    let mut q: Vec<u64> = Vec::with_capacity(nq);
    let mut h = r.range(0, 50);
    for _ in 0..nq {
        h += if wide && r.chance(1, 60) { r.bits(40) + 1 } else { r.range(1, 4) };
        q.push(h);
    }
    let foreign: Vec<u64> = (1..nq).filter(|&i| q[i] - q[i - 1] >= 2).map(|i| q[i] - 1).collect();
    let marks: Vec<usize> = [1024usize, 4096, 8192].iter().copied().filter(|&m| m < nq).collect();
    let len_of = |r: &mut Rng| -> usize {
        (match r.below(4) {
            0 => r.range(40, 300),
            1 | 2 => r.range(300, 1200),
            _ => r.range(1200, 3000),
        } as usize)
            .min(maxlen)
            .min(nq)
    };
    // a range [a, a + len): half of them straddle a mark (the largest one favoured: every earlier
    // position has been passed by then), a quarter lie beyond the largest mark, a quarter anywhere
    let place = |r: &mut Rng, len: usize| -> usize {
        let c = match (r.below(4), marks.last()) {
            (0, _) | (_, None) => r.below(nq as u64) as usize,
            (1, Some(&top)) => top + r.below((nq - top) as u64) as usize,
            (_, Some(&top)) => {
                let m = if r.chance(1, 2) { top } else { *r.pick(&marks) };
                (m + r.below(3) as usize).saturating_sub(1)
            }
        };
        c.saturating_sub(r.below(len as u64 + 1) as usize).min(nq - len)
    };
    let mut ds: Vec<Vec<u64>> = vec![];
    let mut spans: Vec<(usize, usize)> = vec![];
    if r.chance(1, 3) && nq >= 600 {
        // d0 large, d2 overlaps d0's upper end, d1 elsewhere with |d1| = |d2 \ d0|: after d0 is taken
        // d1 and d2 tie, the lower id has to come first
        let l0 = len_of(r).max(200);
        let a0 = place(r, l0);
        let l2 = (len_of(r) / 2).max(60).min(nq - a0);
        let x = r.range(1, (l2 as u64 - 1).min(l0 as u64 - 1)) as usize; // shared with d0
        let a2 = (a0 + l0 - x).min(nq - l2);
        let k = l2 - (a0 + l0).min(a2 + l2).saturating_sub(a2);
        let k = k.max(1);
        // d1: k hashes outside d0 and d2, below d0 if there is room, above d2 otherwise
        let a1 = if a0 >= k { r.below((a0 - k) as u64 + 1) as usize } else { (a2 + l2).min(nq - k) };
        for (a, l) in [(a0, l0), (a1, k), (a2, l2)] {
            ds.push(span(&q, a, a + l, 1, 0));
            spans.push((a, a + l));
        }
    }
    let nd = r.range(2, 5) as usize;
    while ds.len() < nd {
        let prev = if spans.is_empty() { None } else { Some(*r.pick(&spans)) };
        let (a, b, stride, phase) = match (r.below(20), prev) {
            (0..=4, Some((a, b))) => {
                // shifted copy: overlaps the earlier range by a quarter to three quarters
                let l = b - a;
                let a2 = (a + l / 4 + r.below(l as u64 / 2 + 1) as usize).min(nq - 1);
                (a2, (a2 + l).min(nq), 1, 0)
            }
            (5 | 6, Some((a, b))) => {
                // nested inside
                let l = b - a;
                let a2 = a + r.below(l as u64 / 2 + 1) as usize;
                (a2, (a2 + l / 2).max(a2 + 1).min(b), 1, 0)
            }
            (7 | 8, Some((a, b))) => {
                // every second / third hash of the earlier range
                let st = r.range(2, 3) as usize;
                (a, b, st, r.below(st as u64) as usize)
            }
            (9, Some((a, b))) => (a, b, 1, 0), // duplicate
            (10..=13, _) => {
                // strided range: twice as wide for the same number of hashes
                let l = len_of(r);
                let w = (2 * l).min(nq);
                let a = place(r, w);
                (a, a + w, 2, r.below(2) as usize)
            }
            _ => {
                let l = len_of(r);
                let a = place(r, l);
                (a, a + l, 1, 0)
            }
        };
        let mut d = span(&q, a, b, stride, phase);
        if r.chance(1, 4) {
            // a second piece far away (union of two ranges)
            let l = len_of(r) / 2 + 1;
            let a = place(r, l);
            d = union(&d, &span(&q, a, a + l, 1, 0));
        }
        if r.chance(1, 2) && !foreign.is_empty() {
            let k = r.range(1, 200) as usize;
            let a = r.below(foreign.len() as u64) as usize;
            d = union(&d, &foreign[a..(a + k).min(foreign.len())]);
        }
        if d.is_empty() {
            d = vec![q[a.min(nq - 1)]];
        }
        ds.push(d);
        spans.push((a, b.min(nq)));
    }
    let h = if hist { gen_history(r, ds.len()) } else { String::new() };
    o.case(&format!("{} {}{}", scaled, track as u8, h));
    for d in &ds {
        o.op(&format!("d {}", show_nats(d.iter().copied())));
    }
    let ab: Vec<u64> = q
        .iter()
        .map(|_| match r.below(12) {
            0 => r.bits(30).max(1),
            1 | 2 | 3 => 1,
            _ => r.range(1, 6),
        })
        .collect();
    o.op(&format!(
        "q {} {}",
        show_nats(q.iter().copied()),
        if track { show_nats(ab.iter().copied()) } else { "-".into() }
    ));
    let tag = format!("@{}", o.ncases - 1);
    o.op(&format!("counter {}", tag));
    o.op(&format!("colors {}", tag));
    // threshold 0 (full cover) and one at / next to an initial overlap (stop rules)
    let mut ov: Vec<u64> = ds.iter().map(|d| d.iter().filter(|h| q.binary_search(h).is_ok()).count() as u64).collect();
    ov.sort();
    let t1 = match r.below(5) {
        0 => ov[0],
        1 => ov[ov.len() - 1].saturating_sub(1),
        2 => ov[ov.len() / 2] / 2,
        3 => r.range(1, 300),
        _ => ov[ov.len() / 2],
    };
    for op in ["gather", "cover", "stats", "wstats"] {
        o.op(&format!("{} 0 {}", op, tag));
    }
    o.op(&format!("gather {} {}", t1, tag));
    o.op(&format!("cover {} {}", t1, tag));
}

/// MANY-DATASETS family: 33..80 datasets; a handful of query hashes are SHARED, each by a large set of
/// datasets (32 or more members), and the sets of one case are nearly identical: a base set and copies
/// of it of the same size in which one or two members are exchanged for non-members, at every rank (most
/// exchanges are with a neighbouring id, so that the two sets differ at exactly one rank of their sorted
/// member lists; some are with a far id, which shifts every rank in between).  Every dataset also holds
/// 0..4 query hashes of its own (a few hold 5..10 and come first), so a cover takes many rounds, and
/// after each match that holds several shared hashes the remaining overlaps of ALL the datasets in the
/// respective sets have to go down by exactly the number of shared hashes each of them holds.
fn gen_many(r: &mut Rng, o: &mut Out, hist: bool) {
    let scaled = *r.pick(&[1u64, 2]);
    let track = r.chance(1, 2);
    let nd = match r.below(4) {
        0 => r.range(33, 36),
        1 => r.range(60, 80),
        _ => r.range(33, 80),
    } as usize;
    // base set: everything but 1..(nd - 32) holes
    let maxholes = (nd - 32).min(match r.below(3) {
        0 => 2,
        1 => 8,
        _ => 48,
    });
    let nholes = r.range(1, maxholes as u64) as usize;
    let mut member = vec![true; nd];
    let mut left = nholes;
    while left > 0 {
        let i = r.below(nd as u64) as usize;
        if member[i] {
            member[i] = false;
            left -= 1;
        }
    }
    // one exchange: a member leaves, a non-member enters
    let exchange = |r: &mut Rng, m: &mut Vec<bool>| {
        let holes: Vec<usize> = (0..m.len()).filter(|&i| !m[i]).collect();
        let y = *r.pick(&holes);
        let near: Vec<usize> = [y.wrapping_sub(1), y + 1].iter().copied().filter(|&x| x < m.len() && m[x]).collect();
        let x = if !near.is_empty() && r.chance(3, 4) {
            *r.pick(&near)
        } else {
            let mem: Vec<usize> = (0..m.len()).filter(|&i| m[i]).collect();
            *r.pick(&mem)
        };
        m[x] = false;
        m[y] = true;
    };
    let nshared = r.range(2, 6) as usize;
    let mut sets: Vec<Vec<bool>> = vec![];
    for i in 0..nshared {
        let mut m = match (r.below(6), sets.is_empty()) {
            (_, true) | (0, _) => member.clone(),
            (1, false) => r.pick(&sets).clone(), // the same set as another shared hash, or a variant of a variant
            _ => member.clone(),
        };
        if i > 0 || r.chance(1, 2) {
            let k = if r.chance(1, 4) { 2 } else { 1 };
            for _ in 0..k {
                exchange(r, &mut m);
            }
        }
        sets.push(m);
    }
    // hashes: shared ones first come from a pool spread over the value range, so that they are not
    // neighbours in the sorted query
    let mut next = r.range(0, 20);
    let mut fresh = |r: &mut Rng| -> u64 {
        next += r.range(1, 3);
        next
    };
    let mut q: Vec<u64> = vec![];
    let mut ds: Vec<Vec<u64>> = vec![vec![]; nd];
    let mut shared_at: Vec<usize> = (0..nshared).map(|_| r.below(nd as u64 + 1) as usize).collect();
    shared_at.sort();
    let mut si = 0usize;
    // datasets that come first: members of (nearly) all sets with many hashes of their own
    let nfirst = r.range(1, 3) as usize;
    let firsts: Vec<usize> = (0..nfirst).map(|_| r.below(nd as u64) as usize).collect();
    for d in 0..=nd {
        while si < nshared && shared_at[si] == d {
            let h = fresh(r);
            // now and then a shared hash is not in the query at all
            if !r.chance(1, 12) {
                q.push(h);
            }
            for (e, m) in sets[si].iter().enumerate() {
                if *m {
                    ds[e].push(h);
                }
            }
            si += 1;
        }
        if d == nd {
            break;
        }
        let own = if firsts.contains(&d) {
            r.range(5, 10)
        } else {
            match r.below(8) {
                0 => 0,
                1 | 2 => 1,
                _ => r.range(0, 4),
            }
        };
        for _ in 0..own {
            let h = fresh(r);
            q.push(h);
            ds[d].push(h);
            // now and then shared with one other dataset (small sets next to the large ones)
            if r.chance(1, 6) {
                let e = r.below(nd as u64) as usize;
                if e != d {
                    ds[e].push(h);
                }
            }
        }
        // hashes foreign to the query
        for _ in 0..r.below(3) {
            let h = fresh(r);
            ds[d].push(h);
        }
    }
    // query hashes nobody holds
    for _ in 0..r.below(4) {
        let h = fresh(r);
        q.push(h);
    }
    for d in ds.iter_mut() {
        if d.is_empty() {
            d.push(fresh(r));
        }
        d.sort();
        d.dedup();
    }
    q.sort();
    q.dedup();
    let h = if hist { gen_history(r, ds.len()) } else { String::new() };
    o.case(&format!("{} {}{}", scaled, track as u8, h));
    for d in &ds {
        o.op(&format!("d {}", show_nats(d.iter().copied())));
    }
    let ab: Vec<u64> = q
        .iter()
        .map(|_| match r.below(10) {
            0 => r.bits(30).max(1),
            1 | 2 => 1,
            _ => r.range(1, 6),
        })
        .collect();
    o.op(&format!(
        "q {} {}",
        show_nats(q.iter().copied()),
        if track { show_nats(ab.iter().copied()) } else { "-".into() }
    ));
    let tag = format!("@{}", o.ncases - 1);
    o.op(&format!("counter {}", tag));
    o.op(&format!("colors {}", tag));
    for t in 0..=3u64 {
        for op in ["gather", "cover", "stats", "wstats"] {
            o.op(&format!("{} {} {}", op, t, tag));
        }
    }
}

/// query sizes of the LARGE family: straddling 1024 / 4096 / 8192, and anything in 4100..9000
fn large_size(r: &mut Rng, i: usize) -> usize {
    const EDGE: [usize; 9] = [4097, 8193, 1025, 4096, 8191, 1023, 4095, 1024, 8192];
    if i % 2 == 0 {
        r.range(4100, 9000) as usize
    } else {
        EDGE[(i / 2) % EDGE.len()]
    }
}

fn gen(a: &Args) {
    let mut r = Rng::new(a.seed);
    let mut o = Out::new();
    let n = if a.cases > 0 {
        a.cases
    } else if a.tier == "thorough" {
        6000
    } else {
        300
    };
    // LARGE cases are spread over the stream (./check splits it into chunks by line count)
    let nlarge: u64 = if a.cases > 0 {
        0
    } else if a.tier == "thorough" {
        300
    } else {
        20
    };
    let every = if nlarge > 0 { (n / nlarge).max(1) } else { u64::MAX };
    let mut li = 0usize;
    for i in 0..n {
        if nlarge > 0 && i % every == every / 2 && (li as u64) < nlarge {
            let nq = large_size(&mut r, li);
            // dataset pieces of at most 2000 / 3000 hashes keep the list-based Lean side fast
            gen_large(&mut r, &mut o, nq, if a.tier == "thorough" { 3000 } else { 2000 }, false);
            li += 1;
        }
        gen_case(&mut r, &mut o, false);
    }
    // HISTORY family (after the streams above, which stay the same requests): the same two generators,
    // the index built by create + update(s) (+ reopen) instead of one create
    if a.cases > 0 {
        return;
    }
    let (nh, nhl) = if a.tier == "thorough" { (3000u64, 60u64) } else { (200, 4) };
    let every = nh / nhl;
    let mut li = 0usize;
    for i in 0..nh {
        if i % every == every / 2 {
            let nq = large_size(&mut r, li);
            gen_large(&mut r, &mut o, nq, if a.tier == "thorough" { 3000 } else { 2000 }, true);
            li += 1;
        }
        gen_case(&mut r, &mut o, true);
    }
    // MANY-DATASETS family (after everything above): one-shot builds and a few incremental ones
    let (nm, nmh) = if a.tier == "thorough" { (600u64, 60u64) } else { (40, 6) };
    for _ in 0..nm {
        gen_many(&mut r, &mut o, false);
    }
    for _ in 0..nmh {
        gen_many(&mut r, &mut o, true);
    }
}

// ----------------------------------------------------------------------------------------- exec

struct St {
    scaled: u64,
    track: bool,
    ds: Vec<Vec<u64>>,
    q: Vec<u64>,
    ab: Vec<u64>,
    /// `h=` parameter of the case line: (threads, [(number of datasets appended, reopen afterwards)])
    hist: Option<(usize, Vec<(usize, bool)>)>,
    // the index is dropped before its directory is removed
    index: Option<(RevIndex, tempfile::TempDir)>,
}

fn new_state() -> St {
    St { scaled: 1, track: false, ds: vec![], q: vec![], ab: vec![], hist: None, index: None }
}

fn bits(x: f64) -> String {
    format!("{:016x}", x.to_bits())
}

fn ensure_index(s: &mut St) -> Result<(), String> {
    if s.index.is_none() {
        let sigs: Vec<_> = s
            .ds
            .iter()
            .enumerate()
            .map(|(i, d)| make_sig(&format!("d{}", i), d, None, s.scaled))
            .collect();
        let dir = fast_scratch_dir();
        let idx = match &s.hist {
            None => RevIndex::create(dir.path().join("idx"), mem_collection(sigs), false)
                .map_err(|e| format!("err {:?}", e))?,
            Some((threads, segs)) => build_history(dir.path(), &sigs, *threads, segs)?,
        };
        s.index = Some((idx, dir));
    }
    Ok(())
}

/// scratch directory on tmpfs when there is one (every create / update ends in a flush and a compaction,
/// whose fsyncs dominate the run on a real filesystem; durability is not what this property is about)
fn fast_scratch_dir() -> tempfile::TempDir {
    let shm = std::path::Path::new("/dev/shm");
    if shm.is_dir() {
        if let Ok(d) = tempfile::Builder::new().prefix("verif-idx-").tempdir_in(shm) {
            return d;
        }
    }
    scratch_dir()
}

/// create over the first segment, one `update` per further segment, reopen where asked (all inside a
/// pool of `threads`); the last segment takes every dataset that is left
fn build_history(dir: &std::path::Path, sigs: &[sourmash::signature::Signature], threads: usize, segs: &[(usize, bool)]) -> Result<RevIndex, String> {
    let paths = write_sig_files(&dir.join("sigs"), sigs);
    let path = dir.join("idx");
    let pool = rayon::ThreadPoolBuilder::new().num_threads(threads.max(1)).build().unwrap();
    let n = sigs.len();
    let mut k = segs.first().map(|x| x.0).unwrap_or(n).min(n);
    if segs.len() <= 1 {
        k = n;
    }
    let mut idx = pool
        .install(|| RevIndex::create(&path, fs_collection(&paths[..k]), false))
        .map_err(|e| format!("err {:?}", e))?;
    let reopen = |idx: RevIndex| -> Result<RevIndex, String> {
        drop(idx);
        RevIndex::open(&path, false, None).map_err(|e| format!("err {:?}", e))
    };
    if segs.first().map(|x| x.1).unwrap_or(false) {
        idx = reopen(idx)?;
    }
    for (i, (add, re)) in segs.iter().enumerate().skip(1) {
        k = if i + 1 == segs.len() { n } else { (k + add).min(n) };
        let coll = fs_collection(&paths[..k]);
        idx = pool.install(|| idx.update(coll)).map_err(|e| format!("err {:?}", e))?;
        if *re {
            idx = reopen(idx)?;
        }
    }
    Ok(idx)
}

fn query_mh(s: &St) -> sourmash::sketch::minhash::KmerMinHash {
    let qmh = make_mh(&s.q, if s.track { Some(&s.ab) } else { None }, s.scaled);
    assert_eq!(qmh.size(), s.q.len());
    qmh
}

fn run_gather(s: &mut St, t: usize) -> Result<Vec<GatherResult>, String> {
    ensure_index(s)?;
    let idx = &s.index.as_ref().unwrap().0;
    let qmh = query_mh(s);
    let (counter, query_colors, hash_to_color) = idx.prepare_gather_counters(&qmh);
    // `None` would reach `CollectionSet::selection()`, which is `todo!()`; the value is unused by gather
    idx.gather(counter, query_colors, hash_to_color, t, &qmh, Some(Selection::default()))
        .map_err(|e| format!("err {:?}", e))
}

/// `counter_for_query`: `id:count` by ascending id
fn run_counter(s: &mut St) -> Result<String, String> {
    ensure_index(s)?;
    let idx = &s.index.as_ref().unwrap().0;
    let counter = idx.counter_for_query(&query_mh(s));
    let mut c: Vec<(u32, usize)> = counter.iter().map(|(k, v)| (*k, *v)).collect();
    c.sort_unstable();
    Ok(if c.is_empty() {
        "-".into()
    } else {
        c.iter().map(|(k, v)| format!("{}:{}", k, v)).collect::<Vec<_>>().join(",")
    })
}

/// what `prepare_gather_counters` records per query hash: HashToColor (read through its serde form,
/// the accessors are private) followed by QueryColors; run-length encoded over the sorted query
fn run_colors(s: &mut St) -> Result<String, String> {
    ensure_index(s)?;
    let idx = &s.index.as_ref().unwrap().0;
    let qmh = query_mh(s);
    let (_counter, query_colors, hash_to_color) = idx.prepare_gather_counters(&qmh);
    let h2c = serde_json::to_value(&hash_to_color).map_err(|e| format!("err {:?}", e))?;
    let h2c = h2c.as_object().ok_or("err h2c-not-a-map")?;
    let mut runs: Vec<(usize, String)> = vec![];
    for h in &s.q {
        let ids = match h2c.get(&h.to_string()) {
            None => "-".to_string(),
            Some(color) => {
                let color = color.as_u64().ok_or("err colour-not-u64")?;
                match query_colors.get(&color) {
                    None => "nocolor".to_string(),
                    Some(dsets) => {
                        let mut ids: Vec<u32> = dsets.clone().into_iter().collect();
                        ids.sort_unstable();
                        ids.iter().map(|x| x.to_string()).collect::<Vec<_>>().join("+")
                    }
                }
            }
        };
        match runs.last_mut() {
            Some((n, last)) if *last == ids => *n += 1,
            _ => runs.push((1, ids)),
        }
    }
    if h2c.len() != s.q.iter().filter(|h| h2c.contains_key(&h.to_string())).count() {
        return Ok("h2c-has-foreign-keys".into());
    }
    Ok(join(runs.iter().map(|(n, ids)| format!("{}x{}", n, ids)).collect()))
}

fn join(rows: Vec<String>) -> String {
    if rows.is_empty() {
        "-".into()
    } else {
        rows.join(";")
    }
}

fn step(s: &mut St, ws: &[&str]) -> String {
    match ws[0] {
        "case" => {
            s.scaled = ws.get(2).map(|x| x.parse().unwrap()).unwrap_or(1);
            s.track = ws.get(3).map(|x| *x == "1").unwrap_or(false);
            s.hist = ws.get(4).and_then(|x| x.strip_prefix("h=")).map(|h| {
                let (t, segs) = h.split_once(':').unwrap();
                (
                    t.parse().unwrap(),
                    segs.split('+').map(|x| (x.trim_end_matches('r').parse().unwrap(), x.ends_with('r'))).collect(),
                )
            });
            "ok".into()
        }
        "d" => {
            s.ds.push(parse_nats(ws[1]));
            s.index = None;
            "ok".into()
        }
        "q" => {
            s.q = parse_nats(ws[1]);
            s.ab = parse_nats(ws.get(2).copied().unwrap_or("-"));
            if s.track && s.ab.len() != s.q.len() {
                s.ab = vec![1; s.q.len()];
            }
            "ok".into()
        }
        "counter" | "colors" => {
            if s.ds.is_empty() {
                return "no-datasets".into();
            }
            let r = if ws[0] == "counter" { run_counter(s) } else { run_colors(s) };
            r.unwrap_or_else(|e| e)
        }
        "gather" | "cover" | "stats" | "wstats" => {
            let t: usize = ws[1].parse().unwrap();
            if s.ds.is_empty() {
                return "no-datasets".into();
            }
            let res = match run_gather(s, t) {
                Ok(r) => r,
                Err(e) => return e,
            };
            let sc = s.scaled as usize;
            join(match ws[0] {
                "gather" => res
                    .iter()
                    .map(|g| {
                        format!(
                            "{},{},{},{},{},{},{},{},{},{},{},{},{},{},{},{},{},{},{},{}",
                            g.name(),
                            g.gather_result_rank(),
                            g.intersect_bp(),
                            g.unique_intersect_bp(),
                            g.remaining_bp(),
                            g.n_unique_weighted_found(),
                            g.sum_weighted_found(),
                            g.total_weighted_hashes(),
                            bits(g.f_orig_query()),
                            bits(g.f_match()),
                            bits(g.f_unique_to_query()),
                            bits(g.f_unique_weighted()),
                            bits(g.f_match_orig()),
                            bits(g.average_abund()),
                            bits(g.median_abund()),
                            bits(g.std_abund()),
                            bits(g.query_containment_ani()),
                            bits(g.match_containment_ani()),
                            bits(g.average_containment_ani()),
                            bits(g.max_containment_ani()),
                        )
                    })
                    .collect(),
                "cover" => res
                    .iter()
                    .map(|g| format!("{}:{}:{}", g.name(), g.unique_intersect_bp() / sc, bits(g.f_match())))
                    .collect(),
                "stats" => res
                    .iter()
                    .map(|g| {
                        format!(
                            "{}:{}:{}:{}",
                            g.gather_result_rank(),
                            g.unique_intersect_bp(),
                            g.remaining_bp(),
                            bits(g.f_unique_to_query())
                        )
                    })
                    .collect(),
                _ => res
                    .iter()
                    .map(|g| {
                        format!(
                            "{}:{}:{}:{}",
                            g.n_unique_weighted_found(),
                            g.sum_weighted_found(),
                            g.total_weighted_hashes(),
                            bits(g.f_unique_weighted())
                        )
                    })
                    .collect(),
            })
        }
        _ => "bad-op".into(),
    }
}

fn main() {
    let a = args();
    match a.mode.as_str() {
        "gen" => gen(&a),
        "exec" => exec_loop(new_state, step),
        "debug" => {
            // like exec, but panics are printed
            use std::io::BufRead;
            let mut st = new_state();
            for line in std::io::stdin().lock().lines() {
                let line = line.unwrap();
                let ws: Vec<&str> = line.split_whitespace().collect();
                if ws.first() == Some(&"case") {
                    st = new_state();
                }
                println!("{}", step(&mut st, &ws));
            }
        }
        _ => panic!("mode"),
    }
}
