//! C05: similarity, containment and angular similarity are exact on retained hashes.
//!
//! Request lines
//!   sk <x> <scaled> <num> <ksize> <dna|protein|dayhoff|hp> <seed> <track 0|1> <mins> <abunds>
//!        builds the sketch in BOTH containers; answer = what the real objects hold
//!   isz|isect|jac|jacx|jacv|ang|angin|angone|angzero  V|T ab|ba
//!        (jacx = jac, answered on the Lean side by the exact integer model of binary64 division)
//!   cc V|T ab|ba <downsample>
//!   sim V|T ab|ba <ignore_abundance> <downsample>
//!   cmp|cmpv sig|store|large sim|cont ab|ba        (Comparable impls of Signature / SigStore)
//!   search sig|store sim|cont ab|ba <threshold as decimal f64 bits>
//!   ffi jac|ang|ius <xy> ; ffi cc <xy> <downsample> ; ffi sim <xy> <ignore_abundance> <downsample>
//!        the C API on `SourmashKmerMinHash` handles of the vector-backed sketches
//!        (kmerminhash_jaccard / _angular_similarity / _intersection_union_size / _count_common /
//!        _similarity); an error is read back through sourmash_err_get_last_code -> `err <Variant>`
//!        and then cleared
//! HISTORY ops (answer = what both real objects hold afterwards, `V:<mins>|<abunds> T:<mins>|<abunds>`):
//!   addab <x> <h> <n>   add_hash_with_abundance on both containers
//!   setab <x> <h> <n>   set_hash_with_abundance (vector); the tree type has no such method: remove_hash
//!                       followed by add_hash_with_abundance
//!   rm <x> <h> | clear <x> | merge <x> <y> (`V:err <Variant> T:err <Variant>` when refused)
//!   md5 <x>             md5sum() of both containers (fills the caches)
//!   clone <x> <z>       z := Clone of x (both containers); answer = what z holds
//! Sketch names are single letters; the operand order of every comparison is a two-letter word
//! (`ab`, `ba`, `cb`, …).
//! Integers in decimal, every float as its 16-hex-digit bit pattern (`nan` for NaN).
use sourmash::encodings::HashFunctions;
use sourmash::ffi::minhash::{
    kmerminhash_angular_similarity, kmerminhash_count_common, kmerminhash_intersection_union_size,
    kmerminhash_jaccard, kmerminhash_similarity, SourmashKmerMinHash,
};
use sourmash::ffi::utils::{sourmash_err_clear, sourmash_err_get_last_code, ForeignObject};
use sourmash::index::search::{search_minhashes, search_minhashes_containment};
use sourmash::prelude::*;
use sourmash::signature::{Signature, SigsTrait};
use sourmash::sketch::minhash::{max_hash_for_scaled, KmerMinHash, KmerMinHashBTree};
use sourmash::sketch::Sketch;
use sourmash::storage::SigStore;
use std::collections::{BTreeMap, BTreeSet, HashMap};
use verif_harness::*;

// ------------------------------------------------------------------------------------ generator

#[derive(Clone)]
struct Sk {
    scaled: u64,
    num: u32,
    ksize: u32,
    hf: &'static str,
    seed: u64,
    track: bool,
    mins: Vec<u64>,
    abunds: Vec<u64>,
}

impl Sk {
    fn line(&self, w: &str) -> String {
        format!(
            "sk {} {} {} {} {} {} {} {} {}",
            w,
            self.scaled,
            self.num,
            self.ksize,
            self.hf,
            self.seed,
            self.track as u8,
            show_nats(self.mins.iter().cloned()),
            if self.track { show_nats(self.abunds.iter().cloned()) } else { "-".into() }
        )
    }
    fn limit(&self) -> u64 {
        if self.scaled == 0 {
            u64::MAX
        } else {
            max_hash_for_scaled(self.scaled)
        }
    }
}

fn isqrt(n: u128) -> u64 {
    let mut x = (n as f64).sqrt() as u128;
    while x * x > n {
        x -= 1;
    }
    while (x + 1) * (x + 1) <= n {
        x += 1;
    }
    x as u64
}

const SQ_BUDGET: u128 = 1u128 << 63;

/// abundance vector for `n` hashes whose squared sum stays <= 2^63
fn gen_abunds(r: &mut Rng, n: usize, mode: u64) -> Vec<u64> {
    if n == 0 {
        return vec![];
    }
    let cap = isqrt(SQ_BUDGET / n as u128);
    match mode {
        0 => vec![1; n],
        1 => (0..n).map(|_| r.range(1, 5)).collect(),
        2 => (0..n).map(|_| r.bits(16).max(1)).collect(),
        // every entry close to the cap: squared sum just below 2^63
        3 => (0..n).map(|_| r.range(cap - cap / 8, cap)).collect(),
        // one dominant entry filling the budget, the others small
        4 => {
            let mut v: Vec<u64> = (0..n).map(|_| r.range(1, 3)).collect();
            let rest: u128 = v.iter().map(|x| (*x as u128) * (*x as u128)).sum();
            let i = r.below(n as u64) as usize;
            let rest = rest - (v[i] as u128) * (v[i] as u128);
            v[i] = isqrt(SQ_BUDGET - rest);
            v
        }
        // any magnitude
        _ => (0..n).map(|_| r.bits(32).max(1).min(cap)).collect(),
    }
}

/// sorted, duplicate-free pool of candidate hashes: small values (dense overlaps), values around
/// both ceilings, values of every magnitude
fn pool(r: &mut Rng, size: usize, lim_a: u64, lim_b: u64) -> Vec<u64> {
    let mut s = BTreeSet::new();
    let lo = lim_a.min(lim_b);
    let hi = lim_a.max(lim_b);
    let style = r.below(4);
    let mut guard = 0;
    while s.len() < size && guard < size * 20 {
        guard += 1;
        let h = match (style, r.below(10)) {
            (0, _) => r.below(3 * size as u64 + 1),
            (1, 0..=5) => r.below(3 * size as u64 + 1),
            (1, 6) => lo.saturating_sub(r.below(4)),
            (1, 7) => lo.saturating_add(1 + r.below(4)),
            (1, _) => hi.saturating_sub(r.below(6)),
            (2, 0..=2) => lo.saturating_sub(r.below(size as u64 + 1)),
            (2, 3..=4) => lo.saturating_add(1 + r.below(size as u64 + 1)),
            (2, 5) => 0,
            (2, _) => r.bits(64),
            (_, 0) => u64::MAX - r.below(3),
            (_, _) => r.bits(64),
        };
        if h <= hi {
            s.insert(h);
        }
    }
    s.into_iter().collect()
}

const SHAPES: &[&str] = &[
    "disjoint-a-first",
    "disjoint-b-first",
    "disjoint-interleaved",
    "nested-a-prefix",
    "nested-a-suffix",
    "nested-a-middle",
    "nested-a-random",
    "nested-b-random",
    "identical",
    "interleaved",
    "a-exhausted-first",
    "b-exhausted-first",
    "empty-a",
    "empty-b",
    "empty-both",
    "single-same",
    "single-diff",
    "shifted",
];

/// (A, B) as index sets over the pool
fn shape(r: &mut Rng, sh: &str, p: &[u64]) -> (Vec<u64>, Vec<u64>) {
    let n = p.len();
    let cut = if n == 0 { 0 } else { r.below(n as u64 + 1) as usize };
    let sub = |r: &mut Rng, v: &[u64], num: u64, den: u64| -> Vec<u64> {
        v.iter().cloned().filter(|_| r.chance(num, den)).collect()
    };
    match sh {
        "disjoint-a-first" => (p[..cut].to_vec(), p[cut..].to_vec()),
        "disjoint-b-first" => (p[cut..].to_vec(), p[..cut].to_vec()),
        "disjoint-interleaved" => (
            p.iter().cloned().step_by(2).collect(),
            p.iter().cloned().skip(1).step_by(2).collect(),
        ),
        "nested-a-prefix" => (p[..cut].to_vec(), p.to_vec()),
        "nested-a-suffix" => (p[cut..].to_vec(), p.to_vec()),
        "nested-a-middle" => {
            let c2 = cut + r.below((n - cut) as u64 + 1) as usize;
            (p[cut..c2].to_vec(), p.to_vec())
        }
        "nested-a-random" => (sub(r, p, 1, 2), p.to_vec()),
        "nested-b-random" => (p.to_vec(), sub(r, p, 1, 3)),
        "identical" => (p.to_vec(), p.to_vec()),
        "interleaved" => {
            let mut a = vec![];
            let mut b = vec![];
            for h in p {
                match r.below(3) {
                    0 => a.push(*h),
                    1 => b.push(*h),
                    _ => {
                        a.push(*h);
                        b.push(*h)
                    }
                }
            }
            (a, b)
        }
        // A lives in the low part only, B everywhere (overlapping A in part)
        "a-exhausted-first" => (sub(r, &p[..cut], 2, 3), sub(r, p, 2, 3)),
        "b-exhausted-first" => (sub(r, p, 2, 3), sub(r, &p[..cut], 2, 3)),
        "empty-a" => (vec![], p.to_vec()),
        "empty-b" => (p.to_vec(), vec![]),
        "empty-both" => (vec![], vec![]),
        "single-same" => {
            if n == 0 {
                (vec![], vec![])
            } else {
                (vec![p[cut % n]], vec![p[cut % n]])
            }
        }
        "single-diff" => {
            if n < 2 {
                (p.to_vec(), vec![])
            } else {
                (vec![p[cut % n]], vec![p[(cut + 1) % n]])
            }
        }
        // B = A shifted by one pool position: long runs of Less/Greater alternation
        _ => (
            p[..n.saturating_sub(1)].to_vec(),
            p[n.min(1)..].to_vec(),
        ),
    }
}

/// the two sketches of a case: parameters (mostly compatible), hashes laid out in the overlap shape
/// `sh`, abundances.  `hist` = the case continues with mutations: smaller sketches, abundances far
/// from the 2^63 budget (the history generator keeps its own account of the squared sums).
fn gen_pair(r: &mut Rng, sh: &str, thorough: bool, hist: bool) -> (Sk, Sk, bool) {
    let hfs = ["dna", "protein", "dayhoff", "hp"];
    // ---- parameters
    let regime = r.below(100);
    let (scaled, num) = if regime < 55 {
        (*r.pick(&[1u64, 1, 2, 3, 10, 100, 1000, 10_000, 1 << 20, (1 << 31) - 1]), 0u32)
    } else if regime < 95 {
        (0u64, *r.pick(&[1u32, 2, 3, 4, 5, 8, 20, 50, 500]))
    } else {
        // both set: outside the property's parameter space, the model still has to follow
        (*r.pick(&[1u64, 2, 1000]), *r.pick(&[3u32, 10, 500]))
    };
    let mut pa = Sk {
        scaled,
        num,
        ksize: *r.pick(&[21u32, 31, 51]),
        hf: "dna",
        seed: 42,
        track: r.chance(2, 3),
        mins: vec![],
        abunds: vec![],
    };
    let mut pb = pa.clone();
    pb.track = if r.chance(3, 4) { pa.track } else { !pa.track };
    // different scaled values for the downsample path (scaled-only sketches)
    let mut ds_case = false;
    if num == 0 && r.chance(1, 5) {
        pb.scaled = *r.pick(&[1u64, 2, 3, 10, 100, 1000, 10_000, 1 << 20]);
        ds_case = pb.scaled != pa.scaled;
    }
    // incompatibilities (order of the checks: ksize, hash function, max_hash, seed)
    if r.chance(1, 9) {
        for _ in 0..r.range(1, 2) {
            match r.below(5) {
                0 => pb.ksize = pa.ksize + 10,
                1 => pb.hf = *r.pick(&hfs[1..]),
                2 => {
                    if num == 0 {
                        pb.scaled = pa.scaled + 1
                    } else {
                        pb.scaled = 1000;
                        pb.num = 0
                    }
                }
                3 => pb.seed = 43,
                // a different num is *not* an incompatibility for the code
                _ => {
                    if pb.num != 0 {
                        pb.num = *r.pick(&[1u32, 2, 7, 500])
                    }
                }
            }
        }
    }
    // ---- hashes
    let size = match r.below(20) {
        0 => 0,
        1 => 1,
        2 => 2,
        3..=12 => r.range(3, 16) as usize,
        13..=18 if hist => r.range(3, 12) as usize,
        _ if hist => r.range(17, 40) as usize,
        13..=18 => r.range(17, 48) as usize,
        _ => {
            if thorough {
                r.range(49, 400) as usize
            } else {
                r.range(49, 120) as usize
            }
        }
    };
    let p = pool(r, size, pa.limit(), pb.limit());
    let (ma, mb) = shape(r, sh, &p);
    let fit = |s: &Sk, m: Vec<u64>| -> Vec<u64> {
        let lim = s.limit();
        let mut m: Vec<u64> = m.into_iter().filter(|h| *h <= lim).collect();
        if s.num != 0 {
            m.truncate(s.num as usize);
        }
        m
    };
    pa.mins = fit(&pa, ma);
    pb.mins = fit(&pb, mb);
    // ---- abundances
    let nmodes = if hist { 3 } else { 6 };
    let mode = r.below(nmodes);
    pa.abunds = gen_abunds(r, pa.mins.len(), mode);
    let bmode = if r.chance(2, 3) { mode } else { r.below(nmodes) };
    pb.abunds = gen_abunds(r, pb.mins.len(), bmode);
    if pa.mins == pb.mins {
        match r.below(4) {
            // identical abundance vectors: the cosine is 1
            0 | 1 => pb.abunds = pa.abunds.clone(),
            // parallel, not equal
            2 => {
                if pa.abunds.iter().all(|x| *x < 1 << 20) {
                    pb.abunds = pa.abunds.iter().map(|x| x * 3).collect()
                }
            }
            _ => {}
        }
    }
    // zero abundances (reachable through set_hash_with_abundance / conversion)
    if pa.track && r.chance(1, 25) {
        for x in pa.abunds.iter_mut() {
            if r.chance(1, 2) {
                *x = 0
            }
        }
    }
    if pb.track && r.chance(1, 40) {
        for x in pb.abunds.iter_mut() {
            *x = 0
        }
    }
    (pa, pb, ds_case)
}

fn ffi_block(o: &mut Out, r: &mut Rng, x: char, y: char, ds: bool, rich: bool) {
    for (p, q) in [(x, y), (y, x)] {
        o.op(&format!("ffi ius {}{}", p, q));
        o.op(&format!("ffi ang {}{}", p, q));
        o.op(&format!("ffi sim {}{} 0 0", p, q));
        o.op(&format!("ffi cc {}{} 0", p, q));
        if rich || r.chance(1, 3) {
            o.op(&format!("ffi jac {}{}", p, q));
            o.op(&format!("ffi sim {}{} 1 0", p, q));
        }
        if ds || r.chance(1, 6) {
            o.op(&format!("ffi sim {}{} {} 1", p, q, r.below(2)));
            o.op(&format!("ffi cc {}{} 1", p, q));
        }
    }
}

fn shape_case(r: &mut Rng, o: &mut Out, sh: &str, thorough: bool) {
    let (pa, pb, ds_case) = gen_pair(r, sh, thorough, false);
    o.case(sh);
    o.op(&pa.line("a"));
    o.op(&pb.line("b"));
    // ---- operations: both containers, both orders
    for c in ["V", "T"] {
        for ord in ["ab", "ba"] {
            o.op(&format!("isz {} {}", c, ord));
            if r.chance(1, 3) {
                o.op(&format!("isect {} {}", c, ord));
            }
            o.op(&format!("cc {} {} 0", c, ord));
            o.op(&format!("jac {} {}", c, ord));
            o.op(&format!("jacx {} {}", c, ord));
            o.op(&format!("jacv {} {}", c, ord));
            o.op(&format!("ang {} {}", c, ord));
            o.op(&format!("angin {} {}", c, ord));
            o.op(&format!("angone {} {}", c, ord));
            o.op(&format!("angzero {} {}", c, ord));
            for ign in [0, 1] {
                o.op(&format!("sim {} {} {} 0", c, ord, ign));
                if ds_case || r.chance(1, 4) {
                    o.op(&format!("sim {} {} {} 1", c, ord, ign));
                }
            }
            if ds_case || r.chance(1, 4) {
                o.op(&format!("cc {} {} 1", c, ord));
            }
        }
    }
    // ---- Comparable impls and the search predicates
    let sa: BTreeSet<u64> = pa.mins.iter().cloned().collect();
    let sb: BTreeSet<u64> = pb.mins.iter().cloned().collect();
    let common = sa.intersection(&sb).count() as f64;
    let union = sa.union(&sb).count().max(1) as f64;
    for ord in ["ab", "ba"] {
        for kind in ["sig", "store"] {
            for which in ["sim", "cont"] {
                o.op(&format!("cmp {} {} {}", kind, which, ord));
                o.op(&format!("cmpv {} {} {}", kind, which, ord));
                // thresholds at, just below and just above the exact value, and a random one
                let size = if ord == "ab" { sa.len() } else { sb.len() }.max(1) as f64;
                let exact = if which == "sim" { common / union } else { common / size };
                let t = match r.below(5) {
                    0 => exact,
                    1 => f64::from_bits(exact.to_bits().saturating_sub(1)),
                    2 => f64::from_bits(exact.to_bits() + 1),
                    3 => 0.0,
                    _ => r.below(1001) as f64 / 1000.0,
                };
                o.op(&format!("search {} {} {} {}", kind, which, ord, t.to_bits()));
            }
        }
        if r.chance(1, 50) {
            o.op(&format!("cmp large sim {}", ord));
        }
    }
    ffi_block(o, r, 'a', 'b', ds_case, true);
}

// ---------------------------------------------------------------- histories (generator side)

/// what the generator believes one container of a sketch holds (only used to pick interesting
/// operands — a present hash, the largest hash — and to keep every squared sum and dot product
/// below 2^63; the answers never depend on it)
#[derive(Clone)]
struct Sim {
    p: Sk,
    tree: bool,
    track: bool,
    m: BTreeMap<u64, u64>,
}

impl Sim {
    fn new(p: &Sk, tree: bool) -> Sim {
        let mut m = BTreeMap::new();
        for (i, h) in p.mins.iter().enumerate() {
            m.insert(*h, if p.track { p.abunds[i] } else { 1 });
        }
        Sim { p: p.clone(), tree, track: p.track, m }
    }
    fn add(&mut self, h: u64, n: u64) {
        if (self.p.scaled != 0 && h > self.p.limit()) || (self.p.scaled == 0 && self.p.num == 0) {
            return;
        }
        if n == 0 {
            // vector: remove_hash; tree: "well, don't add it"
            if !self.tree {
                self.m.remove(&h);
            }
            return;
        }
        *self.m.entry(h).or_insert(0) += n;
        if self.p.num != 0 && self.m.len() > self.p.num as usize {
            let last = *self.m.keys().next_back().unwrap();
            self.m.remove(&last);
        }
    }
    fn set(&mut self, h: u64, n: u64) {
        if self.tree {
            self.m.remove(&h);
            self.add(h, n);
        } else if self.m.contains_key(&h) {
            self.m.insert(h, n);
        } else {
            self.add(h, n);
        }
    }
    fn compatible(&self, o: &Sim) -> bool {
        self.p.ksize == o.p.ksize && self.p.hf == o.p.hf && self.p.limit() == o.p.limit() && self.p.seed == o.p.seed
    }
    fn merge(&mut self, o: &Sim) {
        if !self.compatible(o) {
            return;
        }
        for (h, n) in &o.m {
            *self.m.entry(*h).or_insert(0) += *n;
        }
        while self.p.num != 0 && self.m.len() > self.p.num as usize {
            let last = *self.m.keys().next_back().unwrap();
            self.m.remove(&last);
        }
        self.track = self.track && o.track;
    }
    fn sumsq(&self) -> u128 {
        if !self.track {
            return 0;
        }
        self.m.values().map(|x| (*x as u128) * (*x as u128)).sum()
    }
}

#[derive(Clone)]
struct SimPair {
    v: Sim,
    t: Sim,
}

#[derive(Clone)]
enum Mut {
    Add(char, u64, u64),
    Set(char, u64, u64),
    Rm(char, u64),
    Merge(char, char),
    Clear(char),
    Md5(char),
    Clone(char, char),
}

impl Mut {
    fn line(&self) -> String {
        match self {
            Mut::Add(x, h, n) => format!("addab {} {} {}", x, h, n),
            Mut::Set(x, h, n) => format!("setab {} {} {}", x, h, n),
            Mut::Rm(x, h) => format!("rm {} {}", x, h),
            Mut::Merge(x, y) => format!("merge {} {}", x, y),
            Mut::Clear(x) => format!("clear {}", x),
            Mut::Md5(x) => format!("md5 {}", x),
            Mut::Clone(x, z) => format!("clone {} {}", x, z),
        }
    }
}

struct World {
    s: BTreeMap<char, SimPair>,
}

impl World {
    fn apply(&mut self, m: &Mut) {
        match m {
            Mut::Add(x, h, n) => {
                let e = self.s.get_mut(x).unwrap();
                e.v.add(*h, *n);
                e.t.add(*h, *n);
            }
            Mut::Set(x, h, n) => {
                let e = self.s.get_mut(x).unwrap();
                e.v.set(*h, *n);
                e.t.set(*h, *n);
            }
            Mut::Rm(x, h) => {
                let e = self.s.get_mut(x).unwrap();
                e.v.m.remove(h);
                e.t.m.remove(h);
            }
            Mut::Merge(x, y) => {
                let o = self.s.get(y).unwrap().clone();
                let e = self.s.get_mut(x).unwrap();
                e.v.merge(&o.v);
                e.t.merge(&o.t);
            }
            Mut::Clear(x) => {
                let e = self.s.get_mut(x).unwrap();
                e.v.m.clear();
                e.t.m.clear();
            }
            Mut::Md5(_) => {}
            Mut::Clone(x, z) => {
                let e = self.s.get(x).unwrap().clone();
                self.s.insert(*z, e);
            }
        }
    }
    /// every squared sum (hence, by Cauchy-Schwarz, every dot product) stays below 2^62
    fn within_budget(&self) -> bool {
        self.s.values().all(|e| e.v.sumsq() < (1u128 << 62) && e.t.sumsq() < (1u128 << 62))
    }
    /// emit the mutation unless it would leave the u64 budget of the property's quantifier
    fn emit(&mut self, o: &mut Out, m: Mut) -> bool {
        let saved = self.s.clone();
        self.apply(&m);
        if self.within_budget() {
            o.op(&m.line());
            true
        } else {
            self.s = saved;
            false
        }
    }
}

/// the comparisons that are repeated after every mutation: both containers, both operand orders,
/// and the C API
fn cmp_block(o: &mut Out, r: &mut Rng, x: char, y: char, ds: bool) {
    for c in ["V", "T"] {
        for (p, q) in [(x, y), (y, x)] {
            o.op(&format!("isz {} {}{}", c, p, q));
            o.op(&format!("cc {} {}{} 0", c, p, q));
            o.op(&format!("jac {} {}{}", c, p, q));
            o.op(&format!("ang {} {}{}", c, p, q));
            o.op(&format!("sim {} {}{} 0 0", c, p, q));
            match r.below(4) {
                0 => o.op(&format!("jacv {} {}{}", c, p, q)),
                1 => o.op(&format!("angone {} {}{}", c, p, q)),
                2 => o.op(&format!("angzero {} {}{}", c, p, q)),
                _ => o.op(&format!("sim {} {}{} 1 0", c, p, q)),
            }
            if ds {
                o.op(&format!("sim {} {}{} {} 1", c, p, q, r.below(2)));
            }
        }
    }
    ffi_block(o, r, x, y, ds, false);
    if r.chance(1, 3) {
        let kind = *r.pick(&["sig", "store"]);
        let which = *r.pick(&["sim", "cont"]);
        o.op(&format!("cmp {} {} {}{}", kind, which, x, y));
        o.op(&format!("cmpv {} {} {}{}", kind, which, y, x));
    }
}

fn small_bump(r: &mut Rng) -> u64 {
    match r.below(10) {
        0..=4 => 1,
        5..=7 => r.range(2, 9),
        8 => 1 << r.range(4, 20),
        _ => r.bits(24).max(1),
    }
}

/// one mutation step on sketch `x` (a few request lines); the comparison block follows it
fn mutate(r: &mut Rng, o: &mut Out, w: &mut World, x: char, y: char) {
    let cur = w.s[&x].v.clone();
    let present: Vec<u64> = cur.m.keys().cloned().collect();
    let largest = present.last().cloned();
    let lim = cur.p.limit();
    let fresh = |r: &mut Rng| -> u64 {
        match r.below(6) {
            0 => present.first().map(|h| h.saturating_sub(1 + r.below(3))).unwrap_or(0),
            1 => largest.map(|h| h.saturating_add(1 + r.below(3))).unwrap_or(5).min(lim),
            2 => lim.saturating_sub(r.below(3)),
            3 => lim.saturating_add(1 + r.below(3)),
            4 => r.below(3 * present.len() as u64 + 4),
            _ => r.bits(64).min(lim),
        }
    };
    // fill the caches first, most of the time: a forgotten invalidation only shows afterwards
    if r.chance(2, 3) {
        w.emit(o, Mut::Md5(x));
    }
    let kind = r.below(14);
    match (kind, present.is_empty()) {
        // abundance bump of a hash that is already there (the hash set does not change)
        (0..=2, false) => {
            let h = *r.pick(&present);
            w.emit(o, Mut::Add(x, h, small_bump(r)));
            if r.chance(1, 3) {
                let h = *r.pick(&present);
                w.emit(o, Mut::Add(x, h, 1));
            }
        }
        // overwrite the abundance of a present hash
        (3..=4, false) => {
            let h = *r.pick(&present);
            let n = match r.below(8) {
                0 => 0,
                1 => 1 << 30,
                _ => small_bump(r),
            };
            w.emit(o, Mut::Set(x, h, n));
        }
        // re-add the largest hash
        (5, false) => {
            w.emit(o, Mut::Add(x, largest.unwrap(), small_bump(r)));
        }
        // remove, (compare,) re-add
        (6..=7, false) => {
            let h = if r.chance(1, 3) { largest.unwrap() } else { *r.pick(&present) };
            w.emit(o, Mut::Rm(x, h));
            if r.chance(1, 2) {
                cmp_block(o, r, x, y, false);
            }
            w.emit(o, Mut::Add(x, h, small_bump(r)));
        }
        // a hash that is not there yet (below the smallest, above the largest, around the ceiling)
        (8..=9, _) | (0..=7, true) => {
            let h = fresh(r);
            if r.chance(1, 2) {
                w.emit(o, Mut::Add(x, h, small_bump(r)));
            } else {
                w.emit(o, Mut::Set(x, h, small_bump(r)));
            }
        }
        (10, _) => {
            w.emit(o, Mut::Merge(x, y));
        }
        (11, _) => {
            w.emit(o, Mut::Clear(x));
            if r.chance(2, 3) {
                for h in present.iter().take(r.range(1, 3) as usize) {
                    w.emit(o, Mut::Add(x, *h, small_bump(r)));
                }
            }
        }
        // abundance 0: the vector type removes, the tree type ignores
        (12, _) => {
            let h = if present.is_empty() || r.chance(1, 4) { fresh(r) } else { *r.pick(&present) };
            w.emit(o, Mut::Add(x, h, 0));
        }
        // make x hold exactly what y holds (equal sketches reached through a history)
        _ => {
            let other = w.s[&y].v.clone();
            w.emit(o, Mut::Clear(x));
            for (h, n) in other.m.iter().take(24) {
                w.emit(o, Mut::Add(x, *h, (*n).max(1)));
            }
        }
    }
}

/// comparison -> mutation -> the same comparison again (2-4 rounds), then a clone of the mutated
/// sketch compared in its place
fn history_case(r: &mut Rng, o: &mut Out, sh: &str, thorough: bool) {
    let (pa, pb, ds_case) = gen_pair(r, sh, thorough, true);
    o.case(&format!("history-{}", sh));
    o.op(&pa.line("a"));
    o.op(&pb.line("b"));
    let mut w = World { s: BTreeMap::new() };
    w.s.insert('a', SimPair { v: Sim::new(&pa, false), t: Sim::new(&pa, true) });
    w.s.insert('b', SimPair { v: Sim::new(&pb, false), t: Sim::new(&pb, true) });
    cmp_block(o, r, 'a', 'b', ds_case);
    let rounds = r.range(1, 3);
    for _ in 0..rounds {
        let (x, y) = if r.chance(2, 3) { ('a', 'b') } else { ('b', 'a') };
        mutate(r, o, &mut w, x, y);
        cmp_block(o, r, 'a', 'b', ds_case);
    }
    if r.chance(1, 2) {
        // a copy taken after the comparisons must behave like the original
        let x = if r.chance(2, 3) { 'a' } else { 'b' };
        let y = if x == 'a' { 'b' } else { 'a' };
        w.emit(o, Mut::Clone(x, 'c'));
        if r.chance(1, 2) {
            // ... also after the original moved on
            mutate(r, o, &mut w, x, y);
        }
        cmp_block(o, r, 'c', y, ds_case);
        if r.chance(1, 3) {
            cmp_block(o, r, 'c', x, false);
        }
    }
}

// ---------------------------------------------------------------- digest-colliding hash sets

/// split a digit string into a strictly increasing list of numbers without leading zeros
fn split_digits(r: &mut Rng, digits: &[u8]) -> Option<Vec<u64>> {
    let mut out: Vec<u64> = vec![];
    let mut i = 0;
    while i < digits.len() {
        let rest = digits.len() - i;
        let prev_len = out.last().map(|x| x.to_string().len()).unwrap_or(1);
        // the next number has at least as many digits as the previous one
        let len = if r.chance(1, 4) { rest } else { (prev_len + r.below(3) as usize).min(rest) };
        let len = len.min(19);
        if digits[i] == 0 && len > 1 {
            return None;
        }
        let mut x: u64 = 0;
        for d in &digits[i..i + len] {
            x = x * 10 + *d as u64;
        }
        if let Some(p) = out.last() {
            if x <= *p {
                return None;
            }
        }
        out.push(x);
        i += len;
    }
    Some(out)
}

const CONCAT_FIXED: &[(&[u64], &[u64])] = &[
    (&[1, 23], &[123]),
    (&[7, 12, 34], &[7, 1234]),
    // same digits, different order of the renderings: the digests differ
    (&[3, 12], &[1, 23]),
    (&[12, 34], &[1, 234]),
    (&[1, 2, 34], &[1234]),
    (&[12, 3500], &[1, 23, 500]),
    (&[5, 60, 700], &[5, 60, 700]),
    (&[5, 60, 700], &[5, 61, 700]),
    (&[1, 10], &[110]),
    (&[0, 1], &[1]),
];

/// two DIFFERENT hash sets whose sorted decimal renderings concatenate to the same digit string
/// (md5sum() and hence `==` cannot tell them apart), or equal sets with different abundances
fn concat_case(r: &mut Rng, o: &mut Out) {
    let mut pair: Option<(Vec<u64>, Vec<u64>)> = None;
    let style = r.below(10);
    if style < 3 {
        let (a, b) = *r.pick(CONCAT_FIXED);
        pair = Some((a.to_vec(), b.to_vec()));
    } else if style < 9 {
        for _ in 0..200 {
            let len = r.range(3, 14) as usize;
            let digits: Vec<u8> = (0..len).map(|_| if r.chance(1, 12) { 0 } else { r.range(1, 9) as u8 }).collect();
            if digits[0] == 0 {
                continue;
            }
            if let (Some(a), Some(b)) = (split_digits(r, &digits), split_digits(r, &digits)) {
                if a != b {
                    pair = Some((a, b));
                    break;
                }
            }
        }
    }
    // equal sets (style 9, or nothing found)
    let equal_sets = pair.is_none();
    let (ma, mb) = pair.unwrap_or_else(|| {
        let n = r.range(1, 8) as usize;
        let mut s = BTreeSet::new();
        while s.len() < n {
            s.insert(r.below(50));
        }
        let v: Vec<u64> = s.into_iter().collect();
        (v.clone(), v)
    });
    let need = ma.len().max(mb.len()) as u32;
    let top = *ma.iter().chain(mb.iter()).max().unwrap();
    let (scaled, num) = match r.below(8) {
        0..=2 => (1u64, 0u32),
        3 => (if top <= max_hash_for_scaled(1000) { 1000 } else { 2 }, 0),
        4 => (0, need),
        5 => (0, need + 1),
        6 => (0, 500),
        _ => (0, (ma.len().min(mb.len()) as u32).max(1)),
    };
    let track_a = equal_sets || r.chance(1, 2);
    let track_b = if r.chance(4, 5) { track_a } else { !track_a };
    let mk = |r: &mut Rng, mins: &Vec<u64>, track: bool| -> Sk {
        let mut s = Sk { scaled, num, ksize: 21, hf: "dna", seed: 42, track, mins: mins.clone(), abunds: vec![] };
        let lim = s.limit();
        s.mins.retain(|h| *h <= lim);
        if num != 0 {
            s.mins.truncate(num as usize);
        }
        let mode = r.below(3);
        s.abunds = gen_abunds(r, s.mins.len(), mode);
        s
    };
    let pa = mk(r, &ma, track_a);
    let mut pb = mk(r, &mb, track_b);
    if equal_sets && pa.abunds == pb.abunds && !pb.abunds.is_empty() {
        let i = r.below(pb.abunds.len() as u64) as usize;
        pb.abunds[i] += 1 + r.below(5);
    }
    o.case(if equal_sets { "equal-sets-different-abundances" } else { "same-digit-string" });
    o.op(&pa.line("a"));
    o.op(&pb.line("b"));
    if r.chance(1, 2) {
        o.op("md5 a");
        o.op("md5 b");
    }
    for c in ["V", "T"] {
        for ord in ["ab", "ba"] {
            o.op(&format!("isz {} {}", c, ord));
            o.op(&format!("isect {} {}", c, ord));
            o.op(&format!("cc {} {} 0", c, ord));
            o.op(&format!("jac {} {}", c, ord));
            o.op(&format!("jacv {} {}", c, ord));
            o.op(&format!("ang {} {}", c, ord));
            o.op(&format!("angone {} {}", c, ord));
            o.op(&format!("angzero {} {}", c, ord));
            o.op(&format!("sim {} {} 0 0", c, ord));
            o.op(&format!("sim {} {} 1 0", c, ord));
        }
    }
    for ord in ["ab", "ba"] {
        let kind = *r.pick(&["sig", "store"]);
        for which in ["sim", "cont"] {
            o.op(&format!("cmp {} {} {}", kind, which, ord));
            o.op(&format!("cmpv {} {} {}", kind, which, ord));
            o.op(&format!("search {} {} {} {}", kind, which, ord, (0.5f64).to_bits()));
        }
    }
    ffi_block(o, r, 'a', 'b', false, true);
    // ... and once more after a history that leaves the hash sets as they are
    if !pa.mins.is_empty() && r.chance(1, 2) {
        let h = *r.pick(&pa.mins);
        o.op(&format!("addab a {} {}", h, r.range(1, 4)));
        for c in ["V", "T"] {
            for ord in ["ab", "ba"] {
                o.op(&format!("jac {} {}", c, ord));
                o.op(&format!("ang {} {}", c, ord));
                o.op(&format!("sim {} {} 0 0", c, ord));
            }
        }
        ffi_block(o, r, 'a', 'b', false, false);
    }
}

fn gen(a: &Args) {
    let mut r = Rng::new(a.seed);
    let mut o = Out::new();
    let thorough = a.tier == "thorough";
    let ncases = if a.cases > 0 {
        a.cases
    } else if thorough {
        40_000
    } else {
        2_700
    };
    let mut nshape = 0usize;
    let mut nhist = 0usize;
    for ci in 0..ncases {
        match ci % 10 {
            0 | 2 | 4 | 6 | 8 => {
                shape_case(&mut r, &mut o, SHAPES[nshape % SHAPES.len()], thorough);
                nshape += 1;
            }
            9 => concat_case(&mut r, &mut o),
            _ => {
                history_case(&mut r, &mut o, SHAPES[nhist % SHAPES.len()], thorough);
                nhist += 1;
            }
        }
    }
}

// ------------------------------------------------------------------------------------ exec

struct Pair {
    v: KmerMinHash,
    t: KmerMinHashBTree,
}

#[derive(Default)]
struct St {
    sk: HashMap<String, Pair>,
}

fn hf_of(s: &str) -> HashFunctions {
    match s {
        "dna" => HashFunctions::Murmur64Dna,
        "protein" => HashFunctions::Murmur64Protein,
        "dayhoff" => HashFunctions::Murmur64Dayhoff,
        _ => HashFunctions::Murmur64Hp,
    }
}

fn build(ws: &[&str]) -> Pair {
    let scaled: u64 = ws[2].parse().unwrap();
    let num: u32 = ws[3].parse().unwrap();
    let ksize: u32 = ws[4].parse().unwrap();
    let hf = hf_of(ws[5]);
    let seed: u64 = ws[6].parse().unwrap();
    let track = ws[7] == "1";
    let mins = parse_nats(ws[8]);
    let abunds = parse_nats(ws[9]);
    let mut v = KmerMinHash::new(scaled, ksize, hf.clone(), seed, track, num);
    let mut t = KmerMinHashBTree::new(scaled, ksize, hf, seed, track, num);
    let mut zeros = false;
    for (i, h) in mins.iter().enumerate() {
        let x = if track { abunds[i] } else { 1 };
        if x == 0 {
            zeros = true;
        }
        v.add_hash_with_abundance(*h, x.max(1));
        t.add_hash_with_abundance(*h, x.max(1));
    }
    if zeros {
        // abundance 0 is only reachable by overwriting (vector) and by conversion (tree)
        for (i, h) in mins.iter().enumerate() {
            if abunds[i] == 0 {
                v.set_hash_with_abundance(*h, 0);
            }
        }
        t = v.clone().into();
    }
    Pair { v, t }
}

fn show_sk(mins: Vec<u64>, abunds: Option<Vec<u64>>) -> String {
    format!(
        "{}|{}",
        show_nats(mins),
        match abunds {
            Some(a) => show_nats(a),
            None => "none".into(),
        }
    )
}

fn fbits(x: f64) -> String {
    if x.is_nan() {
        "nan".into()
    } else {
        format!("{:016x}", x.to_bits())
    }
}

fn rf(r: Result<f64, sourmash::Error>) -> String {
    match r {
        Ok(x) => fbits(x),
        Err(e) => format!("err {:?}", e),
    }
}

fn b01(b: bool) -> &'static str {
    if b {
        "1"
    } else {
        "0"
    }
}

fn verdict(v: f64) -> String {
    format!("{} {} {}", b01((0.0..=1.0).contains(&v)), b01(v == 1.0), b01(v == 0.0))
}

fn sig_of(s: Sketch) -> Signature {
    let mut sig = Signature::default();
    sig.push(s);
    sig
}

/// the two operands named by a two-letter order word
fn operands<'a>(st: &'a St, ord: &str) -> Option<(&'a Pair, &'a Pair)> {
    if ord.len() != 2 || !ord.is_ascii() {
        return None;
    }
    Some((st.sk.get(&ord[0..1])?, st.sk.get(&ord[1..2])?))
}

fn show_pair(p: &Pair) -> String {
    format!("V:{} T:{}", show_sk(p.v.mins(), p.v.abunds()), show_sk(p.t.mins(), p.t.abunds()))
}

/// the mutating / cache-filling operations between comparisons; `None` = not one of them
fn history_step(st: &mut St, ws: &[&str]) -> Option<String> {
    if !matches!(ws[0], "addab" | "setab" | "rm" | "merge" | "clear" | "md5" | "clone") {
        return None;
    }
    let nat = |i: usize| ws[i].parse::<u64>().unwrap();
    if ws[0] == "merge" {
        if ws[1] == ws[2] || !st.sk.contains_key(ws[2]) {
            return Some("no-sketch".into());
        }
        let mut x = match st.sk.remove(ws[1]) {
            Some(x) => x,
            None => return Some("no-sketch".into()),
        };
        let y = &st.sk[ws[2]];
        let rv = x.v.merge(&y.v);
        let rt = x.t.merge(&y.t);
        let show = |r: Result<(), sourmash::Error>, s: String| match r {
            Ok(()) => s,
            Err(e) => format!("err {:?}", e),
        };
        let r = format!(
            "V:{} T:{}",
            show(rv, show_sk(x.v.mins(), x.v.abunds())),
            show(rt, show_sk(x.t.mins(), x.t.abunds()))
        );
        st.sk.insert(ws[1].to_string(), x);
        return Some(r);
    }
    if ws[0] == "clone" {
        let z = match st.sk.get(ws[1]) {
            Some(x) => Pair { v: x.v.clone(), t: x.t.clone() },
            None => return Some("no-sketch".into()),
        };
        let r = show_pair(&z);
        st.sk.insert(ws[2].to_string(), z);
        return Some(r);
    }
    let x = match st.sk.get_mut(ws[1]) {
        Some(x) => x,
        None => return Some("no-sketch".into()),
    };
    match ws[0] {
        "addab" => {
            x.v.add_hash_with_abundance(nat(2), nat(3));
            x.t.add_hash_with_abundance(nat(2), nat(3));
        }
        "setab" => {
            x.v.set_hash_with_abundance(nat(2), nat(3));
            // no set_hash_with_abundance on the tree type
            x.t.remove_hash(nat(2));
            x.t.add_hash_with_abundance(nat(2), nat(3));
        }
        "rm" => {
            x.v.remove_hash(nat(2));
            x.t.remove_hash(nat(2));
        }
        "clear" => {
            x.v.clear();
            x.t.clear();
        }
        _ => return Some(format!("V:{} T:{}", x.v.md5sum(), x.t.md5sum())),
    }
    Some(show_pair(x))
}

fn code_name(c: u32) -> String {
    match c {
        1 => "Panic".into(),
        2 => "Internal".into(),
        101 => "MismatchKSizes".into(),
        102 => "MismatchDNAProt".into(),
        103 => "MismatchScaled".into(),
        104 => "MismatchSeed".into(),
        105 => "MismatchSignatureType".into(),
        106 => "NonEmptyMinHash".into(),
        107 => "MismatchNum".into(),
        108 => "NeedsAbundanceTracking".into(),
        109 => "CannotUpsampleScaled".into(),
        n => format!("code{}", n),
    }
}

/// the answer of a C API call: the error left in the thread-local slot (then cleared), else the value
fn ffi_answer(v: String) -> String {
    let c = unsafe { sourmash_err_get_last_code() } as u32;
    if c != 0 {
        unsafe { sourmash_err_clear() };
        format!("err {}", code_name(c))
    } else {
        v
    }
}

fn ffi_step(st: &St, ws: &[&str]) -> String {
    let (x, y) = match operands(st, ws[2]) {
        Some(p) => p,
        None => return "no-sketch".into(),
    };
    let flag = |i: usize| ws[i] == "1";
    unsafe {
        sourmash_err_clear();
        let px = SourmashKmerMinHash::from_ref(&x.v);
        let py = SourmashKmerMinHash::from_ref(&y.v);
        match ws[1] {
            "jac" => ffi_answer(fbits(kmerminhash_jaccard(px, py))),
            "ang" => ffi_answer(fbits(kmerminhash_angular_similarity(px, py))),
            "sim" => ffi_answer(fbits(kmerminhash_similarity(px, py, flag(3), flag(4)))),
            "cc" => {
                let c = kmerminhash_count_common(px, py, flag(3));
                ffi_answer(format!("{} {}", c, x.v.size()))
            }
            "ius" => {
                let mut u: u64 = u64::MAX;
                let c = kmerminhash_intersection_union_size(px, py, &mut u);
                ffi_answer(format!("{} {}", c, u))
            }
            _ => "bad-op".into(),
        }
    }
}

fn step(st: &mut St, ws: &[&str]) -> String {
    if ws[0] == "case" {
        return "ok".into();
    }
    if ws[0] == "sk" {
        let p = build(ws);
        let r = show_pair(&p);
        st.sk.insert(ws[1].to_string(), p);
        return r;
    }
    if let Some(r) = history_step(st, ws) {
        return r;
    }
    if ws[0] == "ffi" {
        return ffi_step(st, ws);
    }
    let ord_at = match ws[0] {
        "cmp" | "cmpv" => 3,
        "search" => 3,
        _ => 2,
    };
    let (x, y) = match operands(st, ws[ord_at]) {
        Some(p) => p,
        None => return "no-sketch".into(),
    };
    let tree = ws[1] == "T";
    let flag = |i: usize| ws[i] == "1";
    match ws[0] {
        "isz" => {
            let r = if tree { x.t.intersection_size(&y.t) } else { x.v.intersection_size(&y.v) };
            match r {
                Ok((c, s)) => format!("{} {}", c, s),
                Err(e) => format!("err {:?}", e),
            }
        }
        "isect" => {
            let r = if tree { x.t.intersection(&y.t) } else { x.v.intersection(&y.v) };
            match r {
                Ok((l, s)) => format!("{} {}", show_nats(l), s),
                Err(e) => format!("err {:?}", e),
            }
        }
        "cc" => {
            let (r, n) = if tree {
                (x.t.count_common(&y.t, flag(3)), x.t.size())
            } else {
                (x.v.count_common(&y.v, flag(3)), x.v.size())
            };
            match r {
                Ok(c) => format!("{} {}", c, n),
                Err(e) => format!("err {:?}", e),
            }
        }
        "jac" | "jacx" => rf(if tree { x.t.jaccard(&y.t) } else { x.v.jaccard(&y.v) }),
        "jacv" => match if tree { x.t.jaccard(&y.t) } else { x.v.jaccard(&y.v) } {
            Ok(v) => verdict(v),
            Err(e) => format!("err {:?}", e),
        },
        "ang" => rf(if tree { x.t.angular_similarity(&y.t) } else { x.v.angular_similarity(&y.v) }),
        "angin" | "angone" | "angzero" => {
            match if tree { x.t.angular_similarity(&y.t) } else { x.v.angular_similarity(&y.v) } {
                Ok(v) => b01(match ws[0] {
                    "angin" => (0.0..=1.0).contains(&v),
                    // binary64 gives 0.99999998658… for identical vectors (conditioning of acos at 1)
                    "angone" => (v - 1.0).abs() <= 1e-7,
                    _ => v == 0.0,
                })
                .into(),
                Err(e) => format!("err {:?}", e),
            }
        }
        "sim" => rf(if tree {
            x.t.similarity(&y.t, flag(3), flag(4))
        } else {
            x.v.similarity(&y.v, flag(3), flag(4))
        }),
        "cmp" | "cmpv" | "search" => {
            let kind = ws[1];
            let cont = ws[2] == "cont";
            let (sx, sy) = if kind == "large" {
                (sig_of(Sketch::LargeMinHash(x.t.clone())), sig_of(Sketch::LargeMinHash(y.t.clone())))
            } else {
                (sig_of(Sketch::MinHash(x.v.clone())), sig_of(Sketch::MinHash(y.v.clone())))
            };
            if ws[0] == "search" {
                let thr = f64::from_bits(ws[4].parse::<u64>().unwrap());
                let r = if kind == "store" {
                    let (nx, ny) = (SigStore::from(sx), SigStore::from(sy));
                    if cont {
                        search_minhashes_containment(&nx, &ny, thr)
                    } else {
                        search_minhashes(&nx, &ny, thr)
                    }
                } else if cont {
                    search_minhashes_containment(&sx, &sy, thr)
                } else {
                    search_minhashes(&sx, &sy, thr)
                };
                return r.to_string();
            }
            let v = if kind == "store" {
                let (nx, ny) = (SigStore::from(sx), SigStore::from(sy));
                if cont {
                    nx.containment(&ny)
                } else {
                    Comparable::similarity(&nx, &ny)
                }
            } else if cont {
                sx.containment(&sy)
            } else {
                Comparable::similarity(&sx, &sy)
            };
            if ws[0] == "cmp" {
                fbits(v)
            } else if v.is_nan() {
                "nan".into()
            } else {
                verdict(v)
            }
        }
        _ => "bad-op".into(),
    }
}

fn main() {
    let a = args();
    match a.mode.as_str() {
        "gen" => gen(&a),
        "exec" => exec_loop(St::default, step),
        _ => panic!("mode"),
    }
}
