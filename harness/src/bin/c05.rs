//! C05: similarity, containment and angular similarity are exact on retained hashes.
//!
//! Request lines
//!   sk a|b <scaled> <num> <ksize> <dna|protein|dayhoff|hp> <seed> <track 0|1> <mins> <abunds>
//!        builds the sketch in BOTH containers; answer = what the real objects hold
//!   isz|isect|jac|jacx|jacv|ang|angin|angone|angzero  V|T ab|ba
//!        (jacx = jac, answered on the Lean side by the exact integer model of binary64 division)
//!   cc V|T ab|ba <downsample>
//!   sim V|T ab|ba <ignore_abundance> <downsample>
//!   cmp|cmpv sig|store|large sim|cont ab|ba        (Comparable impls of Signature / SigStore)
//!   search sig|store sim|cont ab|ba <threshold as decimal f64 bits>
//! Integers in decimal, every float as its 16-hex-digit bit pattern (`nan` for NaN).
use sourmash::encodings::HashFunctions;
use sourmash::index::search::{search_minhashes, search_minhashes_containment};
use sourmash::prelude::*;
use sourmash::signature::{Signature, SigsTrait};
use sourmash::sketch::minhash::{max_hash_for_scaled, KmerMinHash, KmerMinHashBTree};
use sourmash::sketch::Sketch;
use sourmash::storage::SigStore;
use std::collections::BTreeSet;
use verif_harness::*;

// ------------------------------------------------------------------------------------ generator

#[derive(Clone)]
struct Sk {
    scaled: u64,
    num: u32,
    ksize: u32,
    hf: &'static str,
    seed: u64,
    track: bool,
    mins: Vec<u64>,
    abunds: Vec<u64>,
}

impl Sk {
    fn line(&self, w: &str) -> String {
        format!(
            "sk {} {} {} {} {} {} {} {} {}",
            w,
            self.scaled,
            self.num,
            self.ksize,
            self.hf,
            self.seed,
            self.track as u8,
            show_nats(self.mins.iter().cloned()),
            if self.track { show_nats(self.abunds.iter().cloned()) } else { "-".into() }
        )
    }
    fn limit(&self) -> u64 {
        if self.scaled == 0 {
            u64::MAX
        } else {
            max_hash_for_scaled(self.scaled)
        }
    }
}

fn isqrt(n: u128) -> u64 {
    let mut x = (n as f64).sqrt() as u128;
    while x * x > n {
        x -= 1;
    }
    while (x + 1) * (x + 1) <= n {
        x += 1;
    }
    x as u64
}

const SQ_BUDGET: u128 = 1u128 << 63;

/// abundance vector for `n` hashes whose squared sum stays <= 2^63
fn gen_abunds(r: &mut Rng, n: usize, mode: u64) -> Vec<u64> {
    if n == 0 {
        return vec![];
    }
    let cap = isqrt(SQ_BUDGET / n as u128);
    match mode {
        0 => vec![1; n],
        1 => (0..n).map(|_| r.range(1, 5)).collect(),
        2 => (0..n).map(|_| r.bits(16).max(1)).collect(),
        // every entry close to the cap: squared sum just below 2^63
        3 => (0..n).map(|_| r.range(cap - cap / 8, cap)).collect(),
        // one dominant entry filling the budget, the others small
        4 => {
            let mut v: Vec<u64> = (0..n).map(|_| r.range(1, 3)).collect();
            let rest: u128 = v.iter().map(|x| (*x as u128) * (*x as u128)).sum();
            let i = r.below(n as u64) as usize;
            let rest = rest - (v[i] as u128) * (v[i] as u128);
            v[i] = isqrt(SQ_BUDGET - rest);
            v
        }
        // any magnitude
        _ => (0..n).map(|_| r.bits(32).max(1).min(cap)).collect(),
    }
}

/// sorted, duplicate-free pool of candidate hashes: small values (dense overlaps), values around
/// both ceilings, values of every magnitude
fn pool(r: &mut Rng, size: usize, lim_a: u64, lim_b: u64) -> Vec<u64> {
    let mut s = BTreeSet::new();
    let lo = lim_a.min(lim_b);
    let hi = lim_a.max(lim_b);
    let style = r.below(4);
    let mut guard = 0;
    while s.len() < size && guard < size * 20 {
        guard += 1;
        let h = match (style, r.below(10)) {
            (0, _) => r.below(3 * size as u64 + 1),
            (1, 0..=5) => r.below(3 * size as u64 + 1),
            (1, 6) => lo.saturating_sub(r.below(4)),
            (1, 7) => lo.saturating_add(1 + r.below(4)),
            (1, _) => hi.saturating_sub(r.below(6)),
            (2, 0..=2) => lo.saturating_sub(r.below(size as u64 + 1)),
            (2, 3..=4) => lo.saturating_add(1 + r.below(size as u64 + 1)),
            (2, 5) => 0,
            (2, _) => r.bits(64),
            (_, 0) => u64::MAX - r.below(3),
            (_, _) => r.bits(64),
        };
        if h <= hi {
            s.insert(h);
        }
    }
    s.into_iter().collect()
}

const SHAPES: &[&str] = &[
    "disjoint-a-first",
    "disjoint-b-first",
    "disjoint-interleaved",
    "nested-a-prefix",
    "nested-a-suffix",
    "nested-a-middle",
    "nested-a-random",
    "nested-b-random",
    "identical",
    "interleaved",
    "a-exhausted-first",
    "b-exhausted-first",
    "empty-a",
    "empty-b",
    "empty-both",
    "single-same",
    "single-diff",
    "shifted",
];

/// (A, B) as index sets over the pool
fn shape(r: &mut Rng, sh: &str, p: &[u64]) -> (Vec<u64>, Vec<u64>) {
    let n = p.len();
    let cut = if n == 0 { 0 } else { r.below(n as u64 + 1) as usize };
    let sub = |r: &mut Rng, v: &[u64], num: u64, den: u64| -> Vec<u64> {
        v.iter().cloned().filter(|_| r.chance(num, den)).collect()
    };
    match sh {
        "disjoint-a-first" => (p[..cut].to_vec(), p[cut..].to_vec()),
        "disjoint-b-first" => (p[cut..].to_vec(), p[..cut].to_vec()),
        "disjoint-interleaved" => (
            p.iter().cloned().step_by(2).collect(),
            p.iter().cloned().skip(1).step_by(2).collect(),
        ),
        "nested-a-prefix" => (p[..cut].to_vec(), p.to_vec()),
        "nested-a-suffix" => (p[cut..].to_vec(), p.to_vec()),
        "nested-a-middle" => {
            let c2 = cut + r.below((n - cut) as u64 + 1) as usize;
            (p[cut..c2].to_vec(), p.to_vec())
        }
        "nested-a-random" => (sub(r, p, 1, 2), p.to_vec()),
        "nested-b-random" => (p.to_vec(), sub(r, p, 1, 3)),
        "identical" => (p.to_vec(), p.to_vec()),
        "interleaved" => {
            let mut a = vec![];
            let mut b = vec![];
            for h in p {
                match r.below(3) {
                    0 => a.push(*h),
                    1 => b.push(*h),
                    _ => {
                        a.push(*h);
                        b.push(*h)
                    }
                }
            }
            (a, b)
        }
        // A lives in the low part only, B everywhere (overlapping A in part)
        "a-exhausted-first" => (sub(r, &p[..cut], 2, 3), sub(r, p, 2, 3)),
        "b-exhausted-first" => (sub(r, p, 2, 3), sub(r, &p[..cut], 2, 3)),
        "empty-a" => (vec![], p.to_vec()),
        "empty-b" => (p.to_vec(), vec![]),
        "empty-both" => (vec![], vec![]),
        "single-same" => {
            if n == 0 {
                (vec![], vec![])
            } else {
                (vec![p[cut % n]], vec![p[cut % n]])
            }
        }
        "single-diff" => {
            if n < 2 {
                (p.to_vec(), vec![])
            } else {
                (vec![p[cut % n]], vec![p[(cut + 1) % n]])
            }
        }
        // B = A shifted by one pool position: long runs of Less/Greater alternation
        _ => (
            p[..n.saturating_sub(1)].to_vec(),
            p[n.min(1)..].to_vec(),
        ),
    }
}

fn gen(a: &Args) {
    let mut r = Rng::new(a.seed);
    let mut o = Out::new();
    let thorough = a.tier == "thorough";
    let ncases = if a.cases > 0 {
        a.cases
    } else if thorough {
        40_000
    } else {
        3_000
    };
    let hfs = ["dna", "protein", "dayhoff", "hp"];
    for ci in 0..ncases {
        let sh = SHAPES[(ci % SHAPES.len() as u64) as usize];
        // ---- parameters
        let regime = r.below(100);
        let (scaled, num) = if regime < 55 {
            (*r.pick(&[1u64, 1, 2, 3, 10, 100, 1000, 10_000, 1 << 20, (1 << 31) - 1]), 0u32)
        } else if regime < 95 {
            (0u64, *r.pick(&[1u32, 2, 3, 4, 5, 8, 20, 50, 500]))
        } else {
            // both set: outside the property's parameter space, the model still has to follow
            (*r.pick(&[1u64, 2, 1000]), *r.pick(&[3u32, 10, 500]))
        };
        let mut pa = Sk {
            scaled,
            num,
            ksize: *r.pick(&[21u32, 31, 51]),
            hf: "dna",
            seed: 42,
            track: r.chance(2, 3),
            mins: vec![],
            abunds: vec![],
        };
        let mut pb = pa.clone();
        pb.track = if r.chance(3, 4) { pa.track } else { !pa.track };
        // different scaled values for the downsample path (scaled-only sketches)
        let mut ds_case = false;
        if num == 0 && r.chance(1, 5) {
            pb.scaled = *r.pick(&[1u64, 2, 3, 10, 100, 1000, 10_000, 1 << 20]);
            ds_case = pb.scaled != pa.scaled;
        }
        // incompatibilities (order of the checks: ksize, hash function, max_hash, seed)
        if r.chance(1, 9) {
            for _ in 0..r.range(1, 2) {
                match r.below(5) {
                    0 => pb.ksize = pa.ksize + 10,
                    1 => pb.hf = *r.pick(&hfs[1..]),
                    2 => {
                        if num == 0 {
                            pb.scaled = pa.scaled + 1
                        } else {
                            pb.scaled = 1000;
                            pb.num = 0
                        }
                    }
                    3 => pb.seed = 43,
                    // a different num is *not* an incompatibility for the code
                    _ => {
                        if pb.num != 0 {
                            pb.num = *r.pick(&[1u32, 2, 7, 500])
                        }
                    }
                }
            }
        }
        // ---- hashes
        let size = match r.below(20) {
            0 => 0,
            1 => 1,
            2 => 2,
            3..=12 => r.range(3, 16) as usize,
            13..=18 => r.range(17, 48) as usize,
            _ => {
                if thorough {
                    r.range(49, 400) as usize
                } else {
                    r.range(49, 120) as usize
                }
            }
        };
        let p = pool(&mut r, size, pa.limit(), pb.limit());
        let (ma, mb) = shape(&mut r, sh, &p);
        let fit = |s: &Sk, m: Vec<u64>| -> Vec<u64> {
            let lim = s.limit();
            let mut m: Vec<u64> = m.into_iter().filter(|h| *h <= lim).collect();
            if s.num != 0 {
                m.truncate(s.num as usize);
            }
            m
        };
        pa.mins = fit(&pa, ma);
        pb.mins = fit(&pb, mb);
        // ---- abundances
        let mode = r.below(6);
        pa.abunds = gen_abunds(&mut r, pa.mins.len(), mode);
        let bmode = if r.chance(2, 3) { mode } else { r.below(6) };
        pb.abunds = gen_abunds(&mut r, pb.mins.len(), bmode);
        if pa.mins == pb.mins {
            match r.below(4) {
                // identical abundance vectors: the cosine is 1
                0 | 1 => pb.abunds = pa.abunds.clone(),
                // parallel, not equal
                2 => {
                    if pa.abunds.iter().all(|x| *x < 1 << 20) {
                        pb.abunds = pa.abunds.iter().map(|x| x * 3).collect()
                    }
                }
                _ => {}
            }
        }
        // zero abundances (reachable through set_hash_with_abundance / conversion)
        if pa.track && r.chance(1, 25) {
            for x in pa.abunds.iter_mut() {
                if r.chance(1, 2) {
                    *x = 0
                }
            }
        }
        if pb.track && r.chance(1, 40) {
            for x in pb.abunds.iter_mut() {
                *x = 0
            }
        }
        o.case(sh);
        o.op(&pa.line("a"));
        o.op(&pb.line("b"));
        // ---- operations: both containers, both orders
        for c in ["V", "T"] {
            for ord in ["ab", "ba"] {
                o.op(&format!("isz {} {}", c, ord));
                if r.chance(1, 3) {
                    o.op(&format!("isect {} {}", c, ord));
                }
                o.op(&format!("cc {} {} 0", c, ord));
                o.op(&format!("jac {} {}", c, ord));
                o.op(&format!("jacx {} {}", c, ord));
                o.op(&format!("jacv {} {}", c, ord));
                o.op(&format!("ang {} {}", c, ord));
                o.op(&format!("angin {} {}", c, ord));
                o.op(&format!("angone {} {}", c, ord));
                o.op(&format!("angzero {} {}", c, ord));
                for ign in [0, 1] {
                    o.op(&format!("sim {} {} {} 0", c, ord, ign));
                    if ds_case || r.chance(1, 4) {
                        o.op(&format!("sim {} {} {} 1", c, ord, ign));
                    }
                }
                if ds_case || r.chance(1, 4) {
                    o.op(&format!("cc {} {} 1", c, ord));
                }
            }
        }
        // ---- Comparable impls and the search predicates
        let sa: BTreeSet<u64> = pa.mins.iter().cloned().collect();
        let sb: BTreeSet<u64> = pb.mins.iter().cloned().collect();
        let common = sa.intersection(&sb).count() as f64;
        let union = sa.union(&sb).count().max(1) as f64;
        for ord in ["ab", "ba"] {
            for kind in ["sig", "store"] {
                for which in ["sim", "cont"] {
                    o.op(&format!("cmp {} {} {}", kind, which, ord));
                    o.op(&format!("cmpv {} {} {}", kind, which, ord));
                    // thresholds at, just below and just above the exact value, and a random one
                    let size = if ord == "ab" { sa.len() } else { sb.len() }.max(1) as f64;
                    let exact = if which == "sim" { common / union } else { common / size };
                    let t = match r.below(5) {
                        0 => exact,
                        1 => f64::from_bits(exact.to_bits().saturating_sub(1)),
                        2 => f64::from_bits(exact.to_bits() + 1),
                        3 => 0.0,
                        _ => r.below(1001) as f64 / 1000.0,
                    };
                    o.op(&format!("search {} {} {} {}", kind, which, ord, t.to_bits()));
                }
            }
            if r.chance(1, 50) {
                o.op(&format!("cmp large sim {}", ord));
            }
        }
    }
}

// ------------------------------------------------------------------------------------ exec

struct Pair {
    v: KmerMinHash,
    t: KmerMinHashBTree,
}

#[derive(Default)]
struct St {
    a: Option<Pair>,
    b: Option<Pair>,
}

fn hf_of(s: &str) -> HashFunctions {
    match s {
        "dna" => HashFunctions::Murmur64Dna,
        "protein" => HashFunctions::Murmur64Protein,
        "dayhoff" => HashFunctions::Murmur64Dayhoff,
        _ => HashFunctions::Murmur64Hp,
    }
}

fn build(ws: &[&str]) -> Pair {
    let scaled: u64 = ws[2].parse().unwrap();
    let num: u32 = ws[3].parse().unwrap();
    let ksize: u32 = ws[4].parse().unwrap();
    let hf = hf_of(ws[5]);
    let seed: u64 = ws[6].parse().unwrap();
    let track = ws[7] == "1";
    let mins = parse_nats(ws[8]);
    let abunds = parse_nats(ws[9]);
    let mut v = KmerMinHash::new(scaled, ksize, hf.clone(), seed, track, num);
    let mut t = KmerMinHashBTree::new(scaled, ksize, hf, seed, track, num);
    let mut zeros = false;
    for (i, h) in mins.iter().enumerate() {
        let x = if track { abunds[i] } else { 1 };
        if x == 0 {
            zeros = true;
        }
        v.add_hash_with_abundance(*h, x.max(1));
        t.add_hash_with_abundance(*h, x.max(1));
    }
    if zeros {
        // abundance 0 is only reachable by overwriting (vector) and by conversion (tree)
        for (i, h) in mins.iter().enumerate() {
            if abunds[i] == 0 {
                v.set_hash_with_abundance(*h, 0);
            }
        }
        t = v.clone().into();
    }
    Pair { v, t }
}

fn show_sk(mins: Vec<u64>, abunds: Option<Vec<u64>>) -> String {
    format!(
        "{}|{}",
        show_nats(mins),
        match abunds {
            Some(a) => show_nats(a),
            None => "none".into(),
        }
    )
}

fn fbits(x: f64) -> String {
    if x.is_nan() {
        "nan".into()
    } else {
        format!("{:016x}", x.to_bits())
    }
}

fn rf(r: Result<f64, sourmash::Error>) -> String {
    match r {
        Ok(x) => fbits(x),
        Err(e) => format!("err {:?}", e),
    }
}

fn b01(b: bool) -> &'static str {
    if b {
        "1"
    } else {
        "0"
    }
}

fn verdict(v: f64) -> String {
    format!("{} {} {}", b01((0.0..=1.0).contains(&v)), b01(v == 1.0), b01(v == 0.0))
}

fn sig_of(s: Sketch) -> Signature {
    let mut sig = Signature::default();
    sig.push(s);
    sig
}

fn step(st: &mut St, ws: &[&str]) -> String {
    if ws[0] == "case" {
        return "ok".into();
    }
    if ws[0] == "sk" {
        let p = build(ws);
        let r = format!(
            "V:{} T:{}",
            show_sk(p.v.mins(), p.v.abunds()),
            show_sk(p.t.mins(), p.t.abunds())
        );
        if ws[1] == "a" {
            st.a = Some(p)
        } else {
            st.b = Some(p)
        }
        return r;
    }
    let ord_at = match ws[0] {
        "cmp" | "cmpv" => 3,
        "search" => 3,
        _ => 2,
    };
    let (x, y) = match (&st.a, &st.b) {
        (Some(a), Some(b)) => {
            if ws[ord_at] == "ba" {
                (b, a)
            } else {
                (a, b)
            }
        }
        _ => return "no-sketch".into(),
    };
    let tree = ws[1] == "T";
    let flag = |i: usize| ws[i] == "1";
    match ws[0] {
        "isz" => {
            let r = if tree { x.t.intersection_size(&y.t) } else { x.v.intersection_size(&y.v) };
            match r {
                Ok((c, s)) => format!("{} {}", c, s),
                Err(e) => format!("err {:?}", e),
            }
        }
        "isect" => {
            let r = if tree { x.t.intersection(&y.t) } else { x.v.intersection(&y.v) };
            match r {
                Ok((l, s)) => format!("{} {}", show_nats(l), s),
                Err(e) => format!("err {:?}", e),
            }
        }
        "cc" => {
            let (r, n) = if tree {
                (x.t.count_common(&y.t, flag(3)), x.t.size())
            } else {
                (x.v.count_common(&y.v, flag(3)), x.v.size())
            };
            match r {
                Ok(c) => format!("{} {}", c, n),
                Err(e) => format!("err {:?}", e),
            }
        }
        "jac" | "jacx" => rf(if tree { x.t.jaccard(&y.t) } else { x.v.jaccard(&y.v) }),
        "jacv" => match if tree { x.t.jaccard(&y.t) } else { x.v.jaccard(&y.v) } {
            Ok(v) => verdict(v),
            Err(e) => format!("err {:?}", e),
        },
        "ang" => rf(if tree { x.t.angular_similarity(&y.t) } else { x.v.angular_similarity(&y.v) }),
        "angin" | "angone" | "angzero" => {
            match if tree { x.t.angular_similarity(&y.t) } else { x.v.angular_similarity(&y.v) } {
                Ok(v) => b01(match ws[0] {
                    "angin" => (0.0..=1.0).contains(&v),
                    // binary64 gives 0.99999998658… for identical vectors (conditioning of acos at 1)
                    "angone" => (v - 1.0).abs() <= 1e-7,
                    _ => v == 0.0,
                })
                .into(),
                Err(e) => format!("err {:?}", e),
            }
        }
        "sim" => rf(if tree {
            x.t.similarity(&y.t, flag(3), flag(4))
        } else {
            x.v.similarity(&y.v, flag(3), flag(4))
        }),
        "cmp" | "cmpv" | "search" => {
            let kind = ws[1];
            let cont = ws[2] == "cont";
            let (sx, sy) = if kind == "large" {
                (sig_of(Sketch::LargeMinHash(x.t.clone())), sig_of(Sketch::LargeMinHash(y.t.clone())))
            } else {
                (sig_of(Sketch::MinHash(x.v.clone())), sig_of(Sketch::MinHash(y.v.clone())))
            };
            if ws[0] == "search" {
                let thr = f64::from_bits(ws[4].parse::<u64>().unwrap());
                let r = if kind == "store" {
                    let (nx, ny) = (SigStore::from(sx), SigStore::from(sy));
                    if cont {
                        search_minhashes_containment(&nx, &ny, thr)
                    } else {
                        search_minhashes(&nx, &ny, thr)
                    }
                } else if cont {
                    search_minhashes_containment(&sx, &sy, thr)
                } else {
                    search_minhashes(&sx, &sy, thr)
                };
                return r.to_string();
            }
            let v = if kind == "store" {
                let (nx, ny) = (SigStore::from(sx), SigStore::from(sy));
                if cont {
                    nx.containment(&ny)
                } else {
                    Comparable::similarity(&nx, &ny)
                }
            } else if cont {
                sx.containment(&sy)
            } else {
                Comparable::similarity(&sx, &sy)
            };
            if ws[0] == "cmp" {
                fbits(v)
            } else if v.is_nan() {
                "nan".into()
            } else {
                verdict(v)
            }
        }
        _ => "bad-op".into(),
    }
}

fn main() {
    let a = args();
    match a.mode.as_str() {
        "gen" => gen(&a),
        "exec" => exec_loop(St::default, step),
        _ => panic!("mode"),
    }
}
