//! C07: index lookups report exact overlaps (no false negatives or positives).
//!
//! Request lines
//!   case <i> coll <d0>;<d1>;…           d_i = comma separated ascending hashes; the three index types
//!                                       (LinearIndex, mem RevIndex, disk RevIndex) are built over it
//!   cnt lin|mem|disk <query>            counter_for_query -> `id:count,…` ascending in id (`-` = empty)
//!   search lin|mem|disk <query> <t>     LinearIndex::search / mem RevIndex::search / disk
//!                                       matches_from_counter -> `id:count,…` sorted by (count desc, id)
//!                                       + ` ordered|unordered` (was the returned order non-increasing in
//!                                       the count) ; every returned name/location must be dataset id's own
//!   cntq <t> <q1;q2;…> <query>          mem RevIndex built with queries = Some(qs) and threshold t (t == 0:
//!                                       merged query), then counter_for_query of one of the qs (or,
//!                                       for t == 0, any subset of their union) -> counter
//!   capi <query> <num> <k> <cont>       C API revindex_search with threshold num/2^k -> `id:scorebits,…`
//!                                       sorted by (score desc, id) + order token
//!
//! Built with `--no-default-features` (sourmash with its default feature set: no `branchwater`, hence
//! no `sourmash::index::revindex` module at all, and the serial cfg variants of LinearIndex and
//! Collection::from_sigs) only the `lin` operations are answered; `mem`, `disk`, `cntq` and `capi`
//! answer `NA`.
#[cfg(feature = "disk")]
use sourmash::ffi::index::revindex::{revindex_search, SourmashRevIndex};
#[cfg(feature = "disk")]
use sourmash::ffi::index::{searchresult_filename, searchresult_free, searchresult_score, searchresult_signature, SourmashSearchResult};
#[cfg(feature = "disk")]
use sourmash::ffi::signature::SourmashSignature;
#[cfg(feature = "disk")]
use sourmash::ffi::utils::ForeignObject;
use sourmash::index::linear::LinearIndex;
#[cfg(feature = "disk")]
use sourmash::index::revindex::mem_revindex;
#[cfg(feature = "disk")]
use sourmash::index::revindex::{RevIndex, RevIndexOps};
#[cfg(feature = "disk")]
use sourmash::selection::Selection;
use sourmash::signature::Signature;
use verif_harness::index_util::*;
use verif_harness::*;

// ------------------------------------------------------------------------------------ generator

fn show_coll(c: &[Vec<u64>]) -> String {
    c.iter().map(|d| show_nats(d.iter().copied())).collect::<Vec<_>>().join(";")
}

fn subset(r: &mut Rng, u: &[u64], num: u64, den: u64) -> Vec<u64> {
    u.iter().copied().filter(|_| r.chance(num, den)).collect()
}

fn gen(a: &Args) {
    let mut r = Rng::new(a.seed);
    let mut o = Out::new();
    let thorough = a.tier == "thorough";
    let n = if thorough { 4000 } else { 250 };
    for ci in 0..n {
        // a 64-hash universe; a few cases use hashes at the top of the u64 range
        let base: u64 = if ci % 7 == 3 { u64::MAX - 63 } else if ci % 7 == 5 { (1 << 63) - 32 } else { r.below(1000) };
        let usize_ = r.range(4, 64);
        let u: Vec<u64> = (0..usize_).map(|i| base + i).collect();
        let nd = r.range(1, 12) as usize;
        let mut c: Vec<Vec<u64>> = vec![];
        for i in 0..nd {
            if i > 0 && r.chance(1, 5) {
                let j = r.below(i as u64) as usize; // duplicate of a dataset
                c.push(c[j].clone());
                continue;
            }
            let num = r.range(1, 7);
            let mut d = subset(&mut r, &u, num, 8);
            if d.is_empty() {
                d.push(*r.pick(&u));
            }
            c.push(d);
        }
        o.case(&format!("coll {}", show_coll(&c)));
        let nq = if thorough { 6 } else { 4 };
        for qi in 0..nq {
            let q: Vec<u64> = match (qi + ci) % 6 {
                0 => c[r.below(nd as u64) as usize].clone(), // a dataset itself
                1 => {
                    // disjoint from at least one dataset
                    let d = &c[r.below(nd as u64) as usize];
                    u.iter().copied().filter(|h| !d.contains(h) && r.chance(2, 3)).collect()
                }
                2 => u.clone(),
                3 if r.chance(1, 3) => vec![],
                _ => {
                    let num = r.range(1, 7);
                    subset(&mut r, &u, num, 8)
                }
            };
            let qs = show_nats(q.iter().copied());
            let maxov = c.iter().map(|d| d.iter().filter(|h| q.contains(h)).count()).max().unwrap_or(0) as u64;
            for kind in ["lin", "mem", "disk"] {
                o.op(&format!("cnt {} {}", kind, qs));
            }
            for kind in ["lin", "mem", "disk"] {
                let t1 = r.range(0, maxov + 1);
                o.op(&format!("search {} {} {}", kind, qs, t1));
                let t2 = *r.pick(&[0, 1, maxov, maxov + 1]);
                o.op(&format!("search {} {} {}", kind, qs, t2));
            }
            if qi == 1 {
                // index restricted to a set of queries
                let nqs = r.range(1, 3);
                let mut qs: Vec<Vec<u64>> = (0..nqs)
                    .map(|_| {
                        let num = r.range(1, 7);
                        let mut v = subset(&mut r, &u, num, 8);
                        if v.is_empty() {
                            v.push(*r.pick(&u));
                        }
                        v
                    })
                    .collect();
                if !q.is_empty() && r.chance(1, 2) {
                    qs.push(q.clone());
                }
                let t = *r.pick(&[0u64, 0, 1, 3]);
                let probe = if t == 0 && r.chance(1, 2) {
                    let mut all: Vec<u64> = qs.iter().flatten().copied().filter(|_| r.chance(2, 3)).collect();
                    all.sort_unstable();
                    all.dedup();
                    all
                } else {
                    qs[r.below(qs.len() as u64) as usize].clone()
                };
                o.op(&format!("cntq {} {} {}", t, show_coll(&qs), show_nats(probe.iter().copied())));
            }
            if !q.is_empty() {
                let k = r.range(0, 4);
                let num = r.range(0, 1 << k);
                o.op(&format!("capi {} {} {} {}", qs, num, k, r.below(2)));
            }
        }
    }
}

// ------------------------------------------------------------------------------------ exec

#[derive(Default)]
struct St {
    coll: Vec<Vec<u64>>,
    lin: Option<LinearIndex>,
    #[cfg(feature = "disk")]
    mem: Option<mem_revindex::RevIndex>,
    #[cfg(feature = "disk")]
    disk: Option<(RevIndex, tempfile::TempDir)>,
}

fn sigs_of(c: &[Vec<u64>]) -> Vec<Signature> {
    c.iter().enumerate().map(|(i, d)| make_sig(&format!("d{}", i), d, None, 1)).collect()
}

fn show_counter<'a>(c: impl Iterator<Item = (&'a u32, &'a usize)>) -> String {
    let mut v: Vec<(u32, usize)> = c.map(|(k, v)| (*k, *v)).collect();
    v.sort_unstable();
    if v.is_empty() {
        "-".into()
    } else {
        v.iter().map(|(k, n)| format!("{}:{}", k, n)).collect::<Vec<_>>().join(",")
    }
}

/// canonical form of a match list + whether the returned order was non-increasing in the key
fn show_matches(ms: &[(u64, u64)], desc_key: impl Fn(u64) -> f64) -> String {
    let ordered = ms.windows(2).all(|w| desc_key(w[0].1) >= desc_key(w[1].1));
    let mut v = ms.to_vec();
    v.sort_by(|a, b| desc_key(b.1).partial_cmp(&desc_key(a.1)).unwrap().then(a.0.cmp(&b.0)));
    let body = if v.is_empty() {
        "-".to_string()
    } else {
        v.iter().map(|(i, n)| format!("{}:{}", i, n)).collect::<Vec<_>>().join(",")
    };
    format!("{} {}", body, if ordered { "ordered" } else { "unordered" })
}

/// the serial build (sourmash without `branchwater`) has LinearIndex only
#[cfg(not(feature = "disk"))]
fn step(st: &mut St, ws: &[&str]) -> String {
    match ws[0] {
        "case" => {
            st.coll = ws[3].split(';').map(parse_nats).collect();
            st.lin = Some(LinearIndex::from_collection(mem_collection(sigs_of(&st.coll))));
            "ok".into()
        }
        "cnt" | "search" if ws[1] == "lin" => {
            let q = make_mh(&parse_nats(ws[2]), None, 1);
            let counter = st.lin.as_ref().unwrap().counter_for_query(&q);
            if ws[0] == "cnt" {
                return show_counter(counter.iter());
            }
            let t: usize = ws[3].parse().unwrap();
            let count_of = |i: u64| -> u64 { counter.get(&(i as u32)).copied().unwrap_or(0) as u64 };
            // Collection::from_sigs stores dataset i at internal location "i"
            let ms: Vec<(u64, u64)> = st
                .lin
                .as_ref()
                .unwrap()
                .search(counter.clone(), false, t)
                .unwrap()
                .into_iter()
                .map(|l| {
                    let i: u64 = l.parse().unwrap();
                    (i, count_of(i))
                })
                .collect();
            show_matches(&ms, |n| n as f64)
        }
        "cnt" | "search" | "cntq" | "capi" => "NA".into(),
        _ => "bad-op".into(),
    }
}

#[cfg(feature = "disk")]
fn step(st: &mut St, ws: &[&str]) -> String {
    match ws[0] {
        "case" => {
            st.coll = ws[3].split(';').map(parse_nats).collect();
            st.lin = Some(LinearIndex::from_collection(mem_collection(sigs_of(&st.coll))));
            let sel = Selection::builder().ksize(KSIZE).scaled(1).build();
            st.mem = Some(mem_revindex::RevIndex::new_with_sigs(sigs_of(&st.coll), &sel, 0, None).unwrap());
            let tmp = scratch_dir();
            // every other case builds the on-disk index in two increments (create over the first
            // dataset, then update with the whole collection): lookups must not depend on how the
            // index came to be (C09's T-extend says the two builds are indistinguishable)
            let n: u64 = ws[1].parse().unwrap_or(0);
            let idx = if n % 2 == 1 && st.coll.len() >= 3 {
                let first = RevIndex::create(
                    tmp.path().join("idx"),
                    mem_collection(sigs_of(&st.coll[..1].to_vec())),
                    false,
                )
                .unwrap();
                first.update(mem_collection(sigs_of(&st.coll))).unwrap()
            } else {
                RevIndex::create(tmp.path().join("idx"), mem_collection(sigs_of(&st.coll)), false).unwrap()
            };
            st.disk = Some((idx, tmp));
            "ok".into()
        }
        "cnt" | "search" => {
            let q = make_mh(&parse_nats(ws[2]), None, 1);
            let counter = match ws[1] {
                "lin" => st.lin.as_ref().unwrap().counter_for_query(&q),
                "mem" => st.mem.as_ref().unwrap().counter_for_query(&q),
                _ => st.disk.as_ref().unwrap().0.counter_for_query(&q),
            };
            if ws[0] == "cnt" {
                return show_counter(counter.iter());
            }
            let t: usize = ws[3].parse().unwrap();
            let count_of = |i: u64| -> u64 { counter.get(&(i as u32)).copied().unwrap_or(0) as u64 };
            let ms: Vec<(u64, u64)> = match ws[1] {
                "disk" => st
                    .disk
                    .as_ref()
                    .unwrap()
                    .0
                    .matches_from_counter(counter.clone(), t)
                    .into_iter()
                    .map(|(name, size)| {
                        // the record's own name is d<id>
                        let i: u64 = name.strip_prefix('d').unwrap().parse().unwrap();
                        assert_eq!(count_of(i), size as u64);
                        (i, size as u64)
                    })
                    .collect(),
                kind => {
                    let locs = if kind == "lin" {
                        st.lin.as_ref().unwrap().search(counter.clone(), false, t).unwrap()
                    } else {
                        st.mem.as_ref().unwrap().search(counter.clone(), false, t).unwrap()
                    };
                    // Collection::from_sigs stores dataset i at internal location "i"
                    locs.into_iter()
                        .map(|l| {
                            let i: u64 = l.parse().unwrap();
                            (i, count_of(i))
                        })
                        .collect()
                }
            };
            show_matches(&ms, |n| n as f64)
        }
        "cntq" => {
            let t: usize = ws[1].parse().unwrap();
            let qs: Vec<_> = ws[2].split(';').map(|q| make_mh(&parse_nats(q), None, 1)).collect();
            let sel = Selection::builder().ksize(KSIZE).scaled(1).build();
            let idx = mem_revindex::RevIndex::new_with_sigs(sigs_of(&st.coll), &sel, t, Some(&qs)).unwrap();
            show_counter(idx.counter_for_query(&make_mh(&parse_nats(ws[3]), None, 1)).iter())
        }
        "capi" => {
            let qsig = make_sig("query", &parse_nats(ws[1]), None, 1);
            let (num, k): (u64, u32) = (ws[2].parse().unwrap(), ws[3].parse().unwrap());
            let threshold = num as f64 / (1u64 << k) as f64;
            let cont = ws[4] == "1";
            let mut ms: Vec<(u64, u64)> = vec![];
            unsafe {
                let idx_ptr = SourmashRevIndex::from_ref(st.mem.as_ref().unwrap());
                let sig_ptr = SourmashSignature::from_ref(&qsig);
                let mut size: usize = 0;
                let res = revindex_search(idx_ptr, sig_ptr, threshold, cont, true, &mut size);
                if res.is_null() {
                    if size != 0 {
                        return "err".into();
                    }
                } else {
                    let items: Box<[*const SourmashSearchResult]> =
                        Box::from_raw(std::ptr::slice_from_raw_parts_mut(res as *mut *const SourmashSearchResult, size));
                    for p in items.iter() {
                        let score = searchresult_score(*p);
                        let mut f = searchresult_filename(*p);
                        let i: u64 = f.as_str().parse().unwrap();
                        f.free();
                        let sp = searchresult_signature(*p);
                        let name = SourmashSignature::as_rust(sp).name();
                        assert_eq!(name, format!("d{}", i));
                        let mh = SourmashSignature::as_rust(sp).minhash().unwrap().mins();
                        assert_eq!(mh, st.coll[i as usize]);
                        SourmashSignature::drop(sp);
                        ms.push((i, score.to_bits()));
                        searchresult_free(*p as *mut SourmashSearchResult);
                    }
                }
            }
            show_matches(&ms, f64::from_bits)
        }
        _ => "bad-op".into(),
    }
}

fn main() {
    let a = args();
    match a.mode.as_str() {
        "gen" => gen(&a),
        "exec" => exec_loop(St::default, step),
        _ => panic!("mode"),
    }
}
