//! C07: index lookups report exact overlaps (no false negatives or positives).
//!
//! Request lines
//!   case <i> coll <d0>;<d1>;…           d_i = comma separated ascending hashes (k 21, DNA, flat, scaled 1);
//!                                       the three index types (LinearIndex, mem RevIndex, disk RevIndex)
//!                                       are built over it at once
//!   case <i> mix <r0>;<r1>;…            r_i = <k>:<mol>:<abund>:<s|n><v>:<hashes> : one single-sketch
//!                                       signature each (stored k, dna|protein|dayhoff|hp, tracking 0|1,
//!                                       scaled v or num v); nothing is built until `mk` / `mkmem`
//!   cnt lin|mem|disk <query>            counter_for_query -> `id:count,…` ascending in id (`-` = empty);
//!                                       <query> = a hash list (k 21, DNA, flat, scaled 1) or a full <r>
//!   search lin|mem|disk <query> <t>     LinearIndex::search / mem RevIndex::search / disk
//!                                       matches_from_counter -> `id:count,…` sorted by (count desc, id)
//!                                       + ` ordered|unordered` (was the returned order non-increasing in
//!                                       the count); the returned location / name is mapped back to the
//!                                       dataset id through the index's own manifest
//!   cntq <t> <q1;q2;…> <query>          mem RevIndex built with queries = Some(qs) and threshold t (t == 0:
//!                                       merged query), then counter_for_query of one of the qs (or,
//!                                       for t == 0, any subset of their union) -> counter
//!   capi <query> <num> <k> <cont>       C API revindex_search with threshold num/2^k -> `id:scorebits,…`
//!                                       sorted by (score desc, id) + order token
//! Histories on the index objects (<sel> = `-` or `k=..,mol=..,abund=0|1,scaled=..,num=..`):
//!   csel <sel>                          Collection::select, appended to the chain of selections that is
//!                                       applied to the collection of every later mk / upd
//!                                       -> the internal locations that are left
//!   mk lin|disk [n]                     build over chain(collection of the first n signatures);
//!                                       lin: Collection::from_sigs, disk: Collection::from_paths over
//!                                       .sig files + RevIndex::create -> `ok <len>` | `err <Variant>`
//!   mkmem <sel> [n]                     mem RevIndex::new_with_sigs(first n signatures, sel, 0, None)
//!   sel lin <sel>                       LinearIndex::select (ids are renumbered) -> `ok <len>` | `err …`
//!   upd disk <n>                        RevIndexOps::update with chain(first n signatures)
//!   reopen disk                         drop the index, RevIndex::open on its directory
//!   locs lin|mem|disk                   the `d<loc>` names of the index's datasets in id order
//!
//! Built with `--no-default-features` (sourmash with its default feature set: no `branchwater`, hence
//! no `sourmash::index::revindex` module at all, and the serial cfg variants of LinearIndex and
//! Collection::from_sigs) only the `lin` operations (and `csel`) are answered; everything about `mem`
//! and `disk`, `cntq` and `capi` answers `NA`.
use sourmash::collection::{Collection, CollectionSet};
use sourmash::encodings::HashFunctions;
#[cfg(feature = "disk")]
use sourmash::ffi::index::revindex::{revindex_search, SourmashRevIndex};
#[cfg(feature = "disk")]
use sourmash::ffi::index::{searchresult_filename, searchresult_free, searchresult_score, searchresult_signature, SourmashSearchResult};
#[cfg(feature = "disk")]
use sourmash::ffi::signature::SourmashSignature;
#[cfg(feature = "disk")]
use sourmash::ffi::utils::ForeignObject;
use sourmash::index::linear::LinearIndex;
#[cfg(feature = "disk")]
use sourmash::index::revindex::mem_revindex;
#[cfg(feature = "disk")]
use sourmash::index::revindex::{RevIndex, RevIndexOps};
#[cfg(feature = "disk")]
use sourmash::index::Index;
use sourmash::selection::{Select, Selection};
use sourmash::signature::Signature;
use sourmash::sketch::minhash::KmerMinHash;
use sourmash::sketch::Sketch;
use verif_harness::index_util::*;
use verif_harness::*;

// ------------------------------------------------------------------------------------ generator

fn show_coll(c: &[Vec<u64>]) -> String {
    c.iter().map(|d| show_nats(d.iter().copied())).collect::<Vec<_>>().join(";")
}

fn subset(r: &mut Rng, u: &[u64], num: u64, den: u64) -> Vec<u64> {
    u.iter().copied().filter(|_| r.chance(num, den)).collect()
}

fn overlap(a: &[u64], b: &[u64]) -> u64 {
    let s: std::collections::HashSet<u64> = b.iter().copied().collect();
    a.iter().filter(|h| s.contains(h)).count() as u64
}

/// the classic family: one small collection, every query against all three index types
fn gen_small(r: &mut Rng, o: &mut Out, ci: u64, thorough: bool) {
    // a 64-hash universe; a few cases use hashes at the top of the u64 range
    let base: u64 = if ci % 7 == 3 { u64::MAX - 63 } else if ci % 7 == 5 { (1 << 63) - 32 } else { r.below(1000) };
    let usize_ = r.range(4, 64);
    let u: Vec<u64> = (0..usize_).map(|i| base + i).collect();
    let nd = r.range(1, 12) as usize;
    let mut c: Vec<Vec<u64>> = vec![];
    for i in 0..nd {
        if i > 0 && r.chance(1, 5) {
            let j = r.below(i as u64) as usize; // duplicate of a dataset
            c.push(c[j].clone());
            continue;
        }
        let num = r.range(1, 7);
        let mut d = subset(r, &u, num, 8);
        if d.is_empty() {
            d.push(*r.pick(&u));
        }
        c.push(d);
    }
    o.case(&format!("coll {}", show_coll(&c)));
    let nq = if thorough { 6 } else { 4 };
    for qi in 0..nq {
        let q: Vec<u64> = match (qi + ci) % 6 {
            0 => c[r.below(nd as u64) as usize].clone(), // a dataset itself
            1 => {
                // disjoint from at least one dataset
                let d = &c[r.below(nd as u64) as usize];
                u.iter().copied().filter(|h| !d.contains(h) && r.chance(2, 3)).collect()
            }
            2 => u.clone(),
            3 if r.chance(1, 3) => vec![],
            _ => {
                let num = r.range(1, 7);
                subset(r, &u, num, 8)
            }
        };
        let qs = show_nats(q.iter().copied());
        let maxov = c.iter().map(|d| overlap(d, &q)).max().unwrap_or(0);
        for kind in ["lin", "mem", "disk"] {
            o.op(&format!("cnt {} {}", kind, qs));
        }
        for kind in ["lin", "mem", "disk"] {
            let t1 = r.range(0, maxov + 1);
            o.op(&format!("search {} {} {}", kind, qs, t1));
            let t2 = *r.pick(&[0, 1, maxov, maxov + 1]);
            o.op(&format!("search {} {} {}", kind, qs, t2));
        }
        if qi == 1 {
            // index restricted to a set of queries
            let nqs = r.range(1, 3);
            let mut qs: Vec<Vec<u64>> = (0..nqs)
                .map(|_| {
                    let num = r.range(1, 7);
                    let mut v = subset(r, &u, num, 8);
                    if v.is_empty() {
                        v.push(*r.pick(&u));
                    }
                    v
                })
                .collect();
            if !q.is_empty() && r.chance(1, 2) {
                qs.push(q.clone());
            }
            let t = *r.pick(&[0u64, 0, 1, 3]);
            let probe = if t == 0 && r.chance(1, 2) {
                let mut all: Vec<u64> = qs.iter().flatten().copied().filter(|_| r.chance(2, 3)).collect();
                all.sort_unstable();
                all.dedup();
                all
            } else {
                qs[r.below(qs.len() as u64) as usize].clone()
            };
            o.op(&format!("cntq {} {} {}", t, show_coll(&qs), show_nats(probe.iter().copied())));
        }
        if !q.is_empty() {
            let k = r.range(0, 4);
            let num = r.range(0, 1 << k);
            o.op(&format!("capi {} {} {} {}", qs, num, k, r.below(2)));
        }
    }
    // a short history on the same objects: narrowing the LinearIndex (all datasets are flat k-21 DNA
    // scaled-1 sketches: a criterion either keeps all of them or none) and asking again
    if ci % 3 == 0 {
        let q = show_nats(u.iter().copied().filter(|_| r.chance(1, 2)));
        o.op(&format!("sel lin {}", r.pick(&["-", "abund=0", "k=21,mol=dna", "scaled=1", "num=0", "abund=1", "k=31"])));
        o.op("locs lin");
        o.op(&format!("cnt lin {}", q));
        o.op(&format!("search lin {} 1", q));
        o.op(&format!("cnt mem {}", q));
        o.op(&format!("cnt disk {}", q));
    }
}

/// sizes at the boundaries of the batching / container constants a build may use
const BIG: [u64; 12] = [1023, 1024, 1025, 2047, 2048, 2049, 4095, 4096, 4097, 3000, 1500, 5000];

/// `n` ascending hashes starting near `base` with gaps of 1..=gap
fn ladder(r: &mut Rng, base: u64, n: u64, gap: u64) -> Vec<u64> {
    let mut v = Vec::with_capacity(n as usize);
    let mut x = base;
    for _ in 0..n {
        x += r.range(1, gap);
        v.push(x);
    }
    v
}

/// a collection with large datasets: `sizes` hashes drawn from one ladder (so that they overlap), plus a
/// few small datasets that share hashes with them
fn large_coll(r: &mut Rng, sizes: &[u64]) -> Vec<Vec<u64>> {
    let maxn = *sizes.iter().max().unwrap();
    let base = if r.chance(1, 4) { (1u64 << 62) + r.below(1000) } else { r.below(1 << 40) };
    let u = ladder(r, base, maxn + maxn / 8 + 8, 5);
    let mut c: Vec<Vec<u64>> = vec![];
    for &n in sizes {
        // a window of the ladder, or a prefix, or an even spread: exactly n hashes
        let d: Vec<u64> = match r.below(3) {
            0 => u[..n as usize].to_vec(),
            1 => {
                let off = r.below(u.len() as u64 - n + 1) as usize;
                u[off..off + n as usize].to_vec()
            }
            _ => {
                let mut idx: Vec<usize> = (0..u.len()).collect();
                for i in 0..n as usize {
                    let j = i + r.below((u.len() - i) as u64) as usize;
                    idx.swap(i, j);
                }
                let mut d: Vec<u64> = idx[..n as usize].iter().map(|&i| u[i]).collect();
                d.sort_unstable();
                d
            }
        };
        c.push(d);
    }
    let nsmall = r.range(1, 3);
    for _ in 0..nsmall {
        let big = &c[r.below(sizes.len() as u64) as usize];
        let mut d: Vec<u64> = big.iter().copied().filter(|_| r.chance(1, 60)).collect();
        // the hashes at the ends of 1024-chunks of a big dataset are favourites
        for p in [1022usize, 1023, 1024, 2047, 2048, 4095, 4096] {
            if p < big.len() && r.chance(1, 2) {
                d.push(big[p]);
            }
        }
        d.push(*r.pick(&u));
        d.sort_unstable();
        d.dedup();
        c.push(d);
    }
    // the position of the big datasets varies
    if r.chance(1, 2) {
        let k = c.len() - 1;
        c.swap(0, k);
    }
    c
}

fn large_sizes(r: &mut Rng, k: u64) -> Vec<u64> {
    match k % 6 {
        0 => vec![1024, 1023, 1025],
        1 => vec![2049, 2047],
        2 => vec![4097, 1024],
        3 => vec![4095, 2048],
        4 => vec![4096, *r.pick(&BIG[..6])],
        _ => vec![r.range(1000, 5000), *r.pick(&BIG)],
    }
}

/// the large family: datasets of 1000..5000 hashes in all three index types, queries that cover them
fn gen_large(r: &mut Rng, o: &mut Out, k: u64) {
    let sizes = large_sizes(r, k);
    let c = large_coll(r, &sizes);
    o.case(&format!("coll {}", show_coll(&c)));
    let nd = c.len();
    let bigs: Vec<usize> = (0..nd).filter(|&i| c[i].len() >= 1000).collect();
    let mut queries: Vec<Vec<u64>> = vec![];
    // a big dataset itself
    queries.push(c[*r.pick(&bigs)].clone());
    // the hashes around the 1024-chunk ends of every big dataset (a small query)
    let mut ends: Vec<u64> = vec![];
    for &b in &bigs {
        for p in (1023..c[b].len()).step_by(1024) {
            ends.extend_from_slice(&c[b][p - 1..(p + 2).min(c[b].len())]);
        }
        ends.push(*c[b].last().unwrap());
        ends.push(c[b][0]);
    }
    ends.sort_unstable();
    ends.dedup();
    queries.push(ends);
    // half of everything, at most 5000 hashes
    let mut all: Vec<u64> = c.iter().flatten().copied().collect();
    all.sort_unstable();
    all.dedup();
    let mut half: Vec<u64> = all.iter().copied().filter(|_| r.chance(1, 2)).collect();
    half.truncate(5000);
    queries.push(half);
    // a small dataset
    if let Some(s) = (0..nd).find(|&i| c[i].len() < 1000) {
        queries.push(c[s].clone());
    }
    for q in &queries {
        let qs = show_nats(q.iter().copied());
        let ovs: Vec<u64> = c.iter().map(|d| overlap(d, q)).collect();
        let maxov = *ovs.iter().max().unwrap();
        for kind in ["lin", "mem", "disk"] {
            o.op(&format!("cnt {} {}", kind, qs));
            // at the largest overlap: one missing posting drops the dataset
            o.op(&format!("search {} {} {}", kind, qs, maxov));
        }
        o.op(&format!("search disk {} {}", qs, *r.pick(&ovs)));
    }
    let q = &queries[1];
    o.op(&format!("capi {} 1 1 1", show_nats(q.iter().copied())));
    // histories: narrowing the LinearIndex keeps everything (all flat k-21 DNA scaled-1); the disk index
    // is rebuilt over .sig files in increments, asked in between, reopened and asked again
    o.op(&format!("sel lin {}", r.pick(&["-", "scaled=1", "abund=0"])));
    o.op(&format!("cnt lin {}", show_nats(queries[0].iter().copied())));
    let split = r.range(1, nd as u64 - 1);
    o.op(&format!("mk disk {}", split));
    let ends = show_nats(queries[1].iter().copied());
    o.op(&format!("cnt disk {}", ends));
    o.op(&format!("upd disk {}", nd));
    o.op(&format!("cnt disk {}", ends));
    o.op("reopen disk");
    let q0 = show_nats(queries[0].iter().copied());
    o.op(&format!("cnt disk {}", q0));
    o.op(&format!("search disk {} {}", q0, queries[0].len()));
}

const MOLS: [&str; 4] = ["dna", "protein", "dayhoff", "hp"];

#[derive(Clone)]
struct GRec {
    k: u64,
    mol: &'static str,
    abund: u64,
    kind: String,
    hashes: Vec<u64>,
}
impl GRec {
    fn show(&self) -> String {
        format!("{}:{}:{}:{}:{}", self.k, self.mol, self.abund, self.kind, show_nats(self.hashes.iter().copied()))
    }
    /// does the manifest row of this signature pass the selection (the generator's own bookkeeping, to
    /// know which signature becomes dataset 0; not part of any oracle)
    fn passes(&self, sel: &str) -> bool {
        if sel == "-" {
            return true;
        }
        sel.split(',').all(|kv| {
            let (key, v) = kv.split_once('=').unwrap();
            match key {
                "k" => (if self.mol == "dna" { self.k } else { self.k / 3 }).to_string() == v,
                "mol" => self.mol == v,
                "abund" => self.abund.to_string() == v,
                "scaled" => self.kind.starts_with('s') && self.kind[1..].parse::<u64>().unwrap() <= v.parse::<u64>().unwrap(),
                _ => (if self.kind.starts_with('n') { &self.kind[1..] } else { "0" }) == v,
            }
        })
    }
    /// the main stream: k-21 DNA scaled-1 sketches, flat or tracking
    fn main(&self) -> bool {
        self.k == 21 && self.mol == "dna" && self.kind == "s1"
    }
}

const SELS_KEEP_MAIN: [&str; 8] = ["k=21", "mol=dna", "k=21,mol=dna", "scaled=1", "num=0", "k=21,scaled=1", "mol=dna,num=0,scaled=1", "-"];

/// the history family: a collection mixing k, molecule, tracking, scaled and num sketches; selections
/// before and after building; queries before and after narrowing; update / reopen of the disk index
fn gen_hist(r: &mut Rng, o: &mut Out) {
    let base = r.below(500);
    let usz = r.range(6, 40);
    let u: Vec<u64> = (0..usz).map(|i| base + i).collect();
    let nd = r.range(3, 10) as usize;
    // pure: every signature is compatible k-21 DNA scaled-1 (flat or tracking); otherwise others are
    // sprinkled in between
    let pure = r.chance(1, 3);
    let mut recs: Vec<GRec> = vec![];
    for i in 0..nd {
        let num = r.range(1, 7);
        let mut hashes = subset(r, &u, num, 8);
        if hashes.is_empty() {
            hashes.push(*r.pick(&u));
        }
        if i > 0 && r.chance(1, 6) {
            hashes = recs[r.below(i as u64) as usize].hashes.clone();
        }
        let abund = r.below(2);
        let mut g = GRec { k: 21, mol: "dna", abund, kind: "s1".into(), hashes };
        if !pure && r.chance(2, 5) {
            match r.below(6) {
                0 => g.k = 31,
                1 => {
                    g.mol = *r.pick(&MOLS[1..]);
                    g.k = *r.pick(&[21, 30, 63]);
                }
                2 => g.kind = "s2".into(),
                3 => g.kind = format!("n{}", r.pick(&[50u64, 100])),
                4 => g.kind = "n50".into(),
                _ => {
                    g.mol = "protein";
                    g.k = 63; // row ksize 21
                }
            }
        }
        recs.push(g);
    }
    // --- Collection::select before building (decided first: see below)
    let all_main = recs.iter().all(|g| g.main());
    let before = if all_main {
        r.pick(&SELS_KEEP_MAIN).to_string()
    } else {
        // most of the time a selection that leaves compatible scaled sketches
        match r.below(8) {
            0 => "-".to_string(),
            1 => "k=21".to_string(),
            2 => "k=21,mol=dna".to_string(),
            3 => "mol=dna,scaled=1".to_string(),
            _ => "k=21,mol=dna,scaled=1".to_string(),
        }
    };
    let mut csels: Vec<String> = vec![];
    if before != "-" || r.chance(1, 2) {
        csels.push(before.clone());
    }
    if r.chance(1, 4) {
        csels.push(r.pick(&["abund=0", "abund=1", "num=0", "scaled=2", "-"]).to_string());
    }
    // the signature that becomes dataset 0 of the LinearIndex is a scaled-1 sketch when it is k-21 DNA:
    // the template then stays compatible with what later selections leave (a template left behind by
    // select is the recorded finding of corpus/C07/stale-template.ops and is not generated again)
    if let Some(f) = recs.iter_mut().find(|g| csels.iter().all(|s| g.passes(s))) {
        if f.k == 21 && f.mol == "dna" {
            f.kind = "s1".into();
        }
    }
    if !recs.iter().any(|g| g.main()) {
        recs[0] = GRec { k: 21, mol: "dna", abund: 0, kind: "s1".into(), hashes: recs[0].hashes.clone() };
    }
    o.case(&format!("mix {}", recs.iter().map(|g| g.show()).collect::<Vec<_>>().join(";")));
    let query = |r: &mut Rng| -> String {
        let q: Vec<u64> = match r.below(4) {
            0 => recs[r.below(nd as u64) as usize].hashes.clone(),
            1 => u.clone(),
            _ => {
                let num = r.range(2, 7);
                subset(r, &u, num, 8)
            }
        };
        let hs = show_nats(q.iter().copied());
        // sometimes a tracking query (compatible), rarely an incompatible one
        match r.below(12) {
            0 => format!("21:dna:1:s1:{}", hs),
            1 if !q.is_empty() => format!("{}:{}", *r.pick(&["31:dna:0:s1", "21:dna:0:s3", "21:protein:0:s1"]), hs),
            _ => hs,
        }
    };
    let ask = |r: &mut Rng, o: &mut Out, kind: &str| {
        let q = query(r);
        o.op(&format!("cnt {} {}", kind, q));
        o.op(&format!("search {} {} {}", kind, q, r.range(0, 4)));
    };

    for c in &csels {
        o.op(&format!("csel {}", c));
    }

    // --- LinearIndex: query -> select -> query (-> select -> query)
    o.op("mk lin");
    o.op("locs lin");
    if r.chance(5, 6) {
        ask(r, o, "lin");
    }
    let rounds = r.range(1, 3);
    for _ in 0..rounds {
        let sel = match r.below(10) {
            0..=2 => "abund=1",
            3..=4 => "abund=0",
            5 => "scaled=1",
            6 => "num=0,scaled=1",
            7 => "k=21,mol=dna",
            8 => "abund=1,k=21",
            _ => "-",
        };
        o.op(&format!("sel lin {}", sel));
        o.op("locs lin");
        ask(r, o, "lin");
        if r.chance(1, 2) {
            ask(r, o, "lin");
        }
    }

    // --- mem RevIndex: the selection is part of its constructor; repeated look-ups on one object
    let msel = if r.chance(1, 2) { before.clone() } else { r.pick(&["k=21,mol=dna,scaled=1", "k=21,mol=dna,scaled=1,abund=1", "k=21,mol=dna,scaled=1,abund=0", "k=21,scaled=1"]).to_string() };
    if r.chance(1, 3) {
        o.op(&format!("mkmem {} {}", msel, r.range(1, nd as u64)));
    } else {
        o.op(&format!("mkmem {}", msel));
    }
    o.op("locs mem");
    let q = query(r);
    o.op(&format!("cnt mem {}", q));
    o.op(&format!("search mem {} {}", q, r.range(0, 3)));
    o.op(&format!("cnt mem {}", q));
    ask(r, o, "mem");

    // --- disk RevIndex: create over a prefix, ask, update, ask, reopen, ask
    let split = r.range(1, nd as u64);
    o.op(&format!("mk disk {}", split));
    o.op("locs disk");
    ask(r, o, "disk");
    if r.chance(1, 3) {
        o.op("reopen disk");
        ask(r, o, "disk");
    }
    let mid = r.range(split, nd as u64);
    if mid != split && r.chance(1, 2) {
        o.op(&format!("upd disk {}", mid));
        ask(r, o, "disk");
    }
    o.op(&format!("upd disk {}", nd));
    o.op("locs disk");
    ask(r, o, "disk");
    o.op("reopen disk");
    o.op("locs disk");
    ask(r, o, "disk");
    ask(r, o, "disk");
}

fn gen(a: &Args) {
    let mut r = Rng::new(a.seed);
    let mut o = Out::new();
    let thorough = a.tier == "thorough";
    let n: u64 = if thorough { 4000 } else { 250 };
    let nhist: u64 = if thorough { 3000 } else { 200 };
    let nlarge: u64 = if thorough { 24 } else { 6 };
    // the large cases are spread over the stream (./check runs contiguous chunks of cases in parallel)
    let total = n + nhist;
    let every = total / nlarge;
    let (mut ns, mut nh, mut nl) = (0u64, 0u64, 0u64);
    for ci in 0..total {
        if ci % every == every / 2 && nl < nlarge {
            gen_large(&mut r, &mut o, nl);
            nl += 1;
        }
        // the two small families alternate while both last
        if ns < n && (ci % 2 == 0 || nh >= nhist) {
            gen_small(&mut r, &mut o, ns, thorough);
            ns += 1;
        } else {
            gen_hist(&mut r, &mut o);
            nh += 1;
        }
    }
}

// ------------------------------------------------------------------------------------ exec

/// one single-sketch signature of a case
#[derive(Clone)]
struct Rec {
    k: u32,
    mol: HashFunctions,
    abund: bool,
    scaled: u64,
    num: u32,
    hashes: Vec<u64>,
}

fn parse_rec(s: &str) -> Rec {
    let p: Vec<&str> = s.split(':').collect();
    if p.len() == 5 {
        let v: u64 = p[3][1..].parse().unwrap();
        let is_num = p[3].starts_with('n');
        Rec {
            k: p[0].parse().unwrap(),
            mol: match p[1] {
                "protein" => HashFunctions::Murmur64Protein,
                "dayhoff" => HashFunctions::Murmur64Dayhoff,
                "hp" => HashFunctions::Murmur64Hp,
                _ => HashFunctions::Murmur64Dna,
            },
            abund: p[2] == "1",
            scaled: if is_num { 0 } else { v },
            num: if is_num { v as u32 } else { 0 },
            hashes: parse_nats(p[4]),
        }
    } else {
        Rec { k: KSIZE, mol: HashFunctions::Murmur64Dna, abund: false, scaled: 1, num: 0, hashes: parse_nats(s) }
    }
}

fn mh_of(rec: &Rec) -> KmerMinHash {
    let mut mh = KmerMinHash::new(rec.scaled, rec.k, rec.mol.clone(), 42, rec.abund, rec.num);
    for h in &rec.hashes {
        if rec.abund {
            mh.add_hash_with_abundance(*h, h % 3 + 1);
        } else {
            mh.add_hash(*h);
        }
    }
    assert_eq!(mh.mins(), rec.hashes, "the sketch holds exactly the given hashes");
    mh
}

fn sig_of(loc: usize, rec: &Rec) -> Signature {
    let mut sig = Signature::default();
    sig.set_name(&format!("d{}", loc));
    sig.set_filename(&format!("d{}.fa", loc));
    sig.push(Sketch::MinHash(mh_of(rec)));
    sig
}

fn sigs_of(recs: &[Rec]) -> Vec<Signature> {
    recs.iter().enumerate().map(|(i, r)| sig_of(i, r)).collect()
}

fn parse_sel(s: &str) -> Selection {
    let mut sel = Selection::default();
    if s == "-" {
        return sel;
    }
    for kv in s.split(',') {
        let (k, v) = kv.split_once('=').unwrap();
        match k {
            "k" => sel.set_ksize(v.parse().unwrap()),
            "mol" => sel.set_moltype(parse_rec(&format!("21:{}:0:s1:-", v)).mol),
            "abund" => sel.set_abund(v == "1"),
            "scaled" => sel.set_scaled(v.parse().unwrap()),
            "num" => sel.set_num(v.parse().unwrap()),
            _ => panic!("selection key"),
        }
    }
    sel
}

#[derive(Default)]
struct St {
    raw: Vec<Rec>,
    chain: Vec<Selection>,
    lin: Option<LinearIndex>,
    #[cfg(feature = "disk")]
    mem: Option<mem_revindex::RevIndex>,
    /// the index, and whether its collection lives in .sig files (else in a MemStorage)
    #[cfg(feature = "disk")]
    disk: Option<(RevIndex, bool)>,
    #[cfg(feature = "disk")]
    disk_dir: Option<std::path::PathBuf>,
    #[cfg(feature = "disk")]
    paths: Vec<camino::Utf8PathBuf>,
    #[cfg(feature = "disk")]
    ndirs: usize,
    #[cfg(feature = "disk")]
    tmp: Option<tempfile::TempDir>,
}

fn apply_chain(mut c: Collection, chain: &[Selection]) -> Collection {
    for s in chain {
        c = c.select(s).unwrap();
    }
    c
}

/// the `d<loc>` names of a collection's records, in id order
fn locs_of(c: &Collection) -> Vec<u64> {
    c.iter().map(|(_, r)| r.name().strip_prefix('d').unwrap().parse().unwrap()).collect()
}

fn show_counter<'a>(c: impl Iterator<Item = (&'a u32, &'a usize)>) -> String {
    let mut v: Vec<(u32, usize)> = c.map(|(k, v)| (*k, *v)).collect();
    v.sort_unstable();
    if v.is_empty() {
        "-".into()
    } else {
        v.iter().map(|(k, n)| format!("{}:{}", k, n)).collect::<Vec<_>>().join(",")
    }
}

/// canonical form of a match list + whether the returned order was non-increasing in the key
fn show_matches(ms: &[(u64, u64)], desc_key: impl Fn(u64) -> f64) -> String {
    let ordered = ms.windows(2).all(|w| desc_key(w[0].1) >= desc_key(w[1].1));
    let mut v = ms.to_vec();
    v.sort_by(|a, b| desc_key(b.1).partial_cmp(&desc_key(a.1)).unwrap().then(a.0.cmp(&b.0)));
    let body = if v.is_empty() {
        "-".to_string()
    } else {
        v.iter().map(|(i, n)| format!("{}:{}", i, n)).collect::<Vec<_>>().join(",")
    };
    format!("{} {}", body, if ordered { "ordered" } else { "unordered" })
}

fn first_n(st: &St, n: Option<&&str>) -> usize {
    n.map(|n| n.parse().unwrap()).unwrap_or(st.raw.len()).min(st.raw.len())
}

/// the operations on the LinearIndex (answered by both builds of the harness)
fn step_lin(st: &mut St, ws: &[&str]) -> String {
    match ws[0] {
        "csel" => {
            st.chain.push(parse_sel(ws[1]));
            let c = apply_chain(Collection::from_sigs(sigs_of(&st.raw)).unwrap(), &st.chain);
            // Collection::from_sigs stores signature i at internal location "i"
            let locs = locs_of(&c);
            assert!(c.iter().zip(&locs).all(|((_, r), l)| r.internal_location().as_str() == l.to_string()));
            show_nats(locs)
        }
        "mk" => {
            st.lin = None;
            let n = first_n(st, ws.get(2));
            let c = apply_chain(Collection::from_sigs(sigs_of(&st.raw[..n])).unwrap(), &st.chain);
            let cs: Result<CollectionSet, _> = c.try_into();
            match cs {
                Ok(cs) => {
                    let idx = LinearIndex::from_collection(cs);
                    let len = idx.collection().len();
                    st.lin = Some(idx);
                    format!("ok {}", len)
                }
                Err(e) => format!("err {:?}", e),
            }
        }
        "sel" => {
            let idx = st.lin.take().unwrap();
            match idx.select(&parse_sel(ws[2])) {
                Ok(idx) => {
                    let len = idx.collection().len();
                    st.lin = Some(idx);
                    format!("ok {}", len)
                }
                Err(e) => format!("err {:?}", e),
            }
        }
        "locs" => show_nats(locs_of(st.lin.as_ref().unwrap().collection())),
        "cnt" | "search" => {
            let q = mh_of(&parse_rec(ws[2]));
            let idx = st.lin.as_ref().unwrap();
            let counter = idx.counter_for_query(&q);
            if ws[0] == "cnt" {
                return show_counter(counter.iter());
            }
            let t: usize = ws[3].parse().unwrap();
            let count_of = |i: u64| -> u64 { counter.get(&(i as u32)).copied().unwrap_or(0) as u64 };
            // a returned location is mapped back to the id of the dataset that owns it now
            let ms: Vec<(u64, u64)> = idx
                .search(counter.clone(), false, t)
                .unwrap()
                .into_iter()
                .map(|l| {
                    let i = idx.collection().iter().position(|(_, r)| r.internal_location().as_str() == l).unwrap() as u64;
                    (i, count_of(i))
                })
                .collect();
            show_matches(&ms, |n| n as f64)
        }
        _ => "bad-op".into(),
    }
}

/// the serial build (sourmash without `branchwater`) has LinearIndex only
#[cfg(not(feature = "disk"))]
fn step(st: &mut St, ws: &[&str]) -> String {
    match ws[0] {
        "case" => {
            st.raw = ws[3].split(';').map(parse_rec).collect();
            if ws[2] == "coll" {
                st.lin = Some(LinearIndex::from_collection(mem_collection(sigs_of(&st.raw))));
            }
            "ok".into()
        }
        "csel" => step_lin(st, ws),
        "mk" | "sel" | "locs" | "cnt" | "search" if ws[1] == "lin" => step_lin(st, ws),
        "mk" | "mkmem" | "upd" | "reopen" | "locs" | "cnt" | "search" | "cntq" | "capi" => "NA".into(),
        _ => "bad-op".into(),
    }
}

#[cfg(feature = "disk")]
fn mem_locs(idx: &mem_revindex::RevIndex) -> Vec<u64> {
    idx.signatures().iter().map(|s| s.name().strip_prefix('d').unwrap().parse().unwrap()).collect()
}

/// the collection an on-disk build / update sees: chain(first n signatures), stored in files or in memory
#[cfg(feature = "disk")]
fn disk_collection(st: &mut St, n: usize, fs: bool) -> Collection {
    if st.tmp.is_none() {
        st.tmp = Some(scratch_dir());
    }
    let c = if fs {
        if st.paths.is_empty() {
            st.paths = write_sig_files(&st.tmp.as_ref().unwrap().path().join("sigs"), &sigs_of(&st.raw));
        }
        Collection::from_paths(&st.paths[..n]).unwrap()
    } else {
        Collection::from_sigs(sigs_of(&st.raw[..n])).unwrap()
    };
    apply_chain(c, &st.chain)
}

#[cfg(feature = "disk")]
fn step(st: &mut St, ws: &[&str]) -> String {
    match ws[0] {
        "case" => {
            st.raw = ws[3].split(';').map(parse_rec).collect();
            if ws[2] != "coll" {
                return "ok".into();
            }
            let sigs = sigs_of(&st.raw);
            st.lin = Some(LinearIndex::from_collection(mem_collection(sigs.clone())));
            let sel = Selection::builder().ksize(KSIZE).scaled(1).build();
            st.mem = Some(mem_revindex::RevIndex::new_with_sigs(sigs.clone(), &sel, 0, None).unwrap());
            st.tmp = Some(scratch_dir());
            let dir = st.tmp.as_ref().unwrap().path().join("idx");
            // every other case builds the on-disk index in two increments (create over the first
            // dataset, then update with the whole collection): lookups must not depend on how the
            // index came to be (C09's T-extend says the two builds are indistinguishable)
            let n: u64 = ws[1].parse().unwrap_or(0);
            let idx = if n % 2 == 1 && st.raw.len() >= 3 {
                let first = RevIndex::create(&dir, mem_collection(sigs[..1].to_vec()), false).unwrap();
                first.update(mem_collection(sigs)).unwrap()
            } else {
                RevIndex::create(&dir, mem_collection(sigs), false).unwrap()
            };
            st.disk = Some((idx, false));
            st.disk_dir = Some(dir);
            "ok".into()
        }
        "csel" => step_lin(st, ws),
        "mk" | "sel" | "locs" | "cnt" | "search" if ws[1] == "lin" => step_lin(st, ws),
        "mk" => {
            st.disk = None;
            let n = first_n(st, ws.get(2));
            let cs: Result<CollectionSet, _> = disk_collection(st, n, true).try_into();
            match cs {
                Ok(cs) => {
                    st.ndirs += 1;
                    let dir = st.tmp.as_ref().unwrap().path().join(format!("idx{}", st.ndirs));
                    let idx = RevIndex::create(&dir, cs, false).unwrap();
                    let len = idx.collection().len();
                    st.disk = Some((idx, true));
                    st.disk_dir = Some(dir);
                    format!("ok {}", len)
                }
                Err(e) => format!("err {:?}", e),
            }
        }
        "mkmem" => {
            st.mem = None;
            let n = first_n(st, ws.get(2));
            match mem_revindex::RevIndex::new_with_sigs(sigs_of(&st.raw[..n]), &parse_sel(ws[1]), 0, None) {
                Ok(idx) => {
                    let len = idx.len();
                    st.mem = Some(idx);
                    format!("ok {}", len)
                }
                Err(e) => format!("err {:?}", e),
            }
        }
        "upd" => {
            let fs = st.disk.as_ref().unwrap().1;
            let n = first_n(st, ws.get(2));
            let cs: Result<CollectionSet, _> = disk_collection(st, n, fs).try_into();
            match cs {
                Ok(cs) => {
                    let (idx, _) = st.disk.take().unwrap();
                    match idx.update(cs) {
                        Ok(idx) => {
                            let len = idx.collection().len();
                            st.disk = Some((idx, fs));
                            format!("ok {}", len)
                        }
                        Err(e) => format!("err {:?}", e),
                    }
                }
                Err(e) => format!("err {:?}", e),
            }
        }
        "reopen" => {
            let (idx, fs) = st.disk.take().unwrap();
            assert!(fs, "a MemStorage collection cannot be reopened");
            drop(idx);
            let idx = RevIndex::open(st.disk_dir.as_ref().unwrap(), false, None).unwrap();
            let len = idx.collection().len();
            st.disk = Some((idx, fs));
            format!("ok {}", len)
        }
        "locs" => match ws[1] {
            "mem" => show_nats(mem_locs(st.mem.as_ref().unwrap())),
            _ => show_nats(locs_of(st.disk.as_ref().unwrap().0.collection())),
        },
        "cnt" | "search" => {
            let q = mh_of(&parse_rec(ws[2]));
            let counter = match ws[1] {
                "mem" => st.mem.as_ref().unwrap().counter_for_query(&q),
                _ => st.disk.as_ref().unwrap().0.counter_for_query(&q),
            };
            if ws[0] == "cnt" {
                return show_counter(counter.iter());
            }
            let t: usize = ws[3].parse().unwrap();
            let count_of = |i: u64| -> u64 { counter.get(&(i as u32)).copied().unwrap_or(0) as u64 };
            let ms: Vec<(u64, u64)> = match ws[1] {
                "disk" => {
                    let idx = &st.disk.as_ref().unwrap().0;
                    idx.matches_from_counter(counter.clone(), t)
                        .into_iter()
                        .map(|(name, size)| {
                            // the id of the dataset whose record carries the returned name
                            let i = idx.collection().iter().position(|(_, r)| *r.name() == name).unwrap() as u64;
                            assert_eq!(count_of(i), size as u64);
                            (i, size as u64)
                        })
                        .collect()
                }
                _ => {
                    let idx = st.mem.as_ref().unwrap();
                    let locs = mem_locs(idx);
                    // Collection::from_sigs stores signature i at internal location "i"
                    idx.search(counter.clone(), false, t)
                        .unwrap()
                        .into_iter()
                        .map(|l| {
                            let loc: u64 = l.parse().unwrap();
                            let i = locs.iter().position(|x| *x == loc).unwrap() as u64;
                            (i, count_of(i))
                        })
                        .collect()
                }
            };
            show_matches(&ms, |n| n as f64)
        }
        "cntq" => {
            let t: usize = ws[1].parse().unwrap();
            let qs: Vec<_> = ws[2].split(';').map(|q| make_mh(&parse_nats(q), None, 1)).collect();
            let sel = Selection::builder().ksize(KSIZE).scaled(1).build();
            let idx = mem_revindex::RevIndex::new_with_sigs(sigs_of(&st.raw), &sel, t, Some(&qs)).unwrap();
            show_counter(idx.counter_for_query(&make_mh(&parse_nats(ws[3]), None, 1)).iter())
        }
        "capi" => {
            let qsig = make_sig("query", &parse_nats(ws[1]), None, 1);
            let (num, k): (u64, u32) = (ws[2].parse().unwrap(), ws[3].parse().unwrap());
            let threshold = num as f64 / (1u64 << k) as f64;
            let cont = ws[4] == "1";
            let mut ms: Vec<(u64, u64)> = vec![];
            unsafe {
                let idx_ptr = SourmashRevIndex::from_ref(st.mem.as_ref().unwrap());
                let sig_ptr = SourmashSignature::from_ref(&qsig);
                let mut size: usize = 0;
                let res = revindex_search(idx_ptr, sig_ptr, threshold, cont, true, &mut size);
                if res.is_null() {
                    if size != 0 {
                        return "err".into();
                    }
                } else {
                    let items: Box<[*const SourmashSearchResult]> =
                        Box::from_raw(std::ptr::slice_from_raw_parts_mut(res as *mut *const SourmashSearchResult, size));
                    for p in items.iter() {
                        let score = searchresult_score(*p);
                        let mut f = searchresult_filename(*p);
                        let i: u64 = f.as_str().parse().unwrap();
                        f.free();
                        let sp = searchresult_signature(*p);
                        let name = SourmashSignature::as_rust(sp).name();
                        assert_eq!(name, format!("d{}", i));
                        let mh = SourmashSignature::as_rust(sp).minhash().unwrap().mins();
                        assert_eq!(mh, st.raw[i as usize].hashes);
                        SourmashSignature::drop(sp);
                        ms.push((i, score.to_bits()));
                        searchresult_free(*p as *mut SourmashSearchResult);
                    }
                }
            }
            show_matches(&ms, f64::from_bits)
        }
        _ => "bad-op".into(),
    }
}

fn main() {
    let a = args();
    match a.mode.as_str() {
        "gen" => gen(&a),
        "exec" => exec_loop(St::default, step),
        _ => panic!("mode"),
    }
}
