//! C10: an interrupted or reopened on-disk index never returns wrong answers.
//!
//! Request lines (one case = one collection + one index directory):
//!   case <i> coll=<d0>/<d1>/… base=<b> via=create|update threads=<t> how=kill|abort|exit q=<hashes>
//!        d_i = comma separated hashes (`-` = empty dataset); the first <b> datasets are indexed
//!        by a clean build before the build under test starts (via=update: the build under test is
//!        `open` + `update(collection)`, otherwise `create(dir, collection)` on the same directory);
//!        optional fs=shm: scratch directory on tmpfs instead of the system temp dir
//!   crash <n>        run the build in a child process that kills itself at hook point n of that run;
//!                    answer: the durable state left behind (threads=1), or the verdict of the
//!                    marker invariants on it (threads>1, where the interleaving is not determined)
//!   crashw <i> <k> <js> exact|inv
//!                    "kill when", forced order (threads > 1): the child's worker that arrives at point
//!                    k of dataset i (its k-th HASHES write; k = #hashes: its PROCESSED marker) waits
//!                    until the PROCESSED markers of the datasets <js> (`+`-separated) are written,
//!                    then the process is killed: later datasets complete and marked, an earlier one
//!                    partly written — a processed set that is NOT a prefix of the collection.
//!                    `exact` (js = every other dataset still to do): the durable state is determined,
//!                    answer = the durable state (`NA` if the order could not be forced in 3 attempts);
//!                    `inv`: answer = the verdict of the marker invariants
//!   crashn <i> <k> <js>
//!                    the same condition without waiting (order not fixed: dies at the first point >= k
//!                    of dataset i reached after the markers of <js>, dataset i being a slow writer;
//!                    otherwise the run completes);
//!                    answer: the verdict of the marker invariants
//!   inv              the verdict of the marker invariants on the current durable state
//!   crashc <us>      child killed <us> microseconds after compaction started; answer: durable state
//!   resume           re-run the same build in-process to completion; answer: the full observation
//!   resumec          the same in a fresh child process
//!   obs              the full observation
//!   reopen <seq>     seq = comma separated flush|close|openro|openrw|intern|move; answer:
//!                    per-step results, `|`, the full observation
//!
//! EXTENSION histories (case parameter `stages=<n0>:<o0>,<n1>:<o1>,…`): stage j is the collection of the
//! first n_j datasets in which dataset i is stored under the internal location `<o_j + i>` — the locations
//! are RENUMBERED from stage to stage, so that one location names different sketches in different stages
//! (`check_superset` does not look at locations).  `fs`: the blobs are files `<stage dir>/<o_j + i>` behind
//! an `FSStorage` rooted at the stage's own directory; `mem`: `Collection::from_sigs` over o_j leading
//! signatures that the selection drops (another k-mer size) followed by the n_j datasets — blobs named by
//! input position in a memory storage, which cannot be reopened: the step internalizes at once.
//!   mk <j> fs|mem    `RevIndex::create(dir, stage j)` (+ internalize_storage for `mem`), the handle stays
//!                    open (read-write); answer: `ok`, `|`, the full observation
//!   ext <j> fs|mem   `update(stage j)` (+ internalize_storage for `mem`) on the open read-write handle;
//!                    answer: `ok` / `closed` / `err`, `|`, the full observation (a read-only handle: the
//!                    update panics at its first write)
//! These steps are interleaved with `reopen` sequences.
//!
//! MULTI-STAGE crash histories (case parameter `hist=<s0>,<s1>,…`, s_j = `<n_j>[c][f][r]`): before the build
//! under test starts, the directory goes through COMPLETED builds over the first n_0 < n_1 < … datasets, one
//! after the other, each in its own open … drop: stage 0 is `RevIndex::create`, a later stage is
//! `open` + `update` (`c`: `create` on the same directory instead); every one of them ends in its own
//! compaction, so that from the second stage on the HASHES entries of the earlier datasets are stored,
//! fully merged VALUES (not pending merge operands).  `f`: after the stage the index is opened read-write,
//! flushed and dropped; `r`: opened read-only and dropped.  `base` is the last n_j: the build under test
//! (`via=`) extends that index to the whole collection and is killed by `crash <n>` (threads=1: inside a
//! chosen dataset, after some of its HASHES merges and before its PROCESSED marker), re-run by further
//! `crash` / `resume` / `resumec` lines — the re-run merges the killed dataset's hashes a second time
//! (duplicate merge operands on top of the stored values).
//!   settle <seq>     seq = comma separated `flush` (open read-write, flush, drop) | `open` (open read-write,
//!                    drop: write-ahead-log replay) | `openro` (open read-only, drop), applied to the
//!                    directory as the kill left it — so that the operands written before the kill sit in
//!                    a table file of their own, apart from those of the re-run; answer: per-step results
//!                    (`ok` / `err`: the index cannot be opened), `|`, the durable state
//!
//! Full observation = H (scan of the HASHES column family), P (PROCESSED), M (version / manifest
//! rows / storage spec), X (number of keys in STORAGE), C (counter_for_query of q), G (gather of q),
//! S (collection().sig_for_dataset(i) for every i: name, hashes, `md5ok` iff the md5 of the signature
//! handed out equals BOTH the md5 of the manifest record i of the open index and the md5 of dataset i).
use camino::Utf8PathBuf;
use sourmash::index::revindex::verif_hooks as vh;
use sourmash::index::revindex::{RevIndex, RevIndexOps};
use sourmash::signature::Signature;
use sourmash::sketch::Sketch;
use std::collections::BTreeMap;
use std::path::{Path, PathBuf};
use verif_harness::index_util::*;
use verif_harness::*;

#[path = "c10_child.rs"]
mod child;

// ------------------------------------------------------------------------------------ generator

fn show_coll(c: &[Vec<u64>]) -> String {
    c.iter().map(|d| show_nats(d.iter().copied())).collect::<Vec<_>>().join("/")
}

/// number of hook points of a from-scratch build of datasets `from..` (writes + 1 for compaction)
fn points(c: &[Vec<u64>], from: usize) -> usize {
    c[from..].iter().map(|d| d.len() + 1).sum::<usize>() + 3 + 1
}

fn rand_coll(r: &mut Rng, nd: usize, maxh: usize, universe: u64) -> Vec<Vec<u64>> {
    (0..nd)
        .map(|_| {
            let k = if r.chance(1, 8) { 0 } else { r.range(1, maxh as u64) as usize };
            let mut v: Vec<u64> = (0..k)
                .map(|_| {
                    if r.chance(1, 10) {
                        // large hashes: exercises the little-endian key order
                        u64::MAX - r.below(4)
                    } else if r.chance(1, 10) {
                        (1u64 << 32) + r.below(4)
                    } else {
                        1 + r.below(universe)
                    }
                })
                .collect();
            v.sort_unstable();
            v.dedup();
            v
        })
        .collect()
}

/// datasets that share most of their hashes: a core of 5-14 hashes (small ones, a few of the large
/// kinds), every dataset keeps each core hash with probability 3/4 and adds up to two of its own
fn shared_coll(r: &mut Rng, nd: usize) -> Vec<Vec<u64>> {
    let ncore = r.range(5, 14) as usize;
    let mut core: Vec<u64> = (0..ncore)
        .map(|_| {
            if r.chance(1, 12) {
                u64::MAX - r.below(3)
            } else if r.chance(1, 12) {
                (1u64 << 32) + r.below(3)
            } else {
                1 + r.below(30)
            }
        })
        .collect();
    core.sort_unstable();
    core.dedup();
    (0..nd)
        .map(|_| {
            let mut v: Vec<u64> = core.iter().copied().filter(|_| r.chance(3, 4)).collect();
            for _ in 0..r.below(3) {
                v.push(31 + r.below(20));
            }
            if r.chance(1, 12) {
                v.clear();
            }
            v.sort_unstable();
            v.dedup();
            v
        })
        .collect()
}

fn rand_query(r: &mut Rng, c: &[Vec<u64>]) -> Vec<u64> {
    let mut q: Vec<u64> = c.iter().flatten().copied().filter(|_| r.chance(2, 3)).collect();
    for _ in 0..3 {
        q.push(1000 + r.below(50));
    }
    q.sort_unstable();
    q.dedup();
    q
}

/// `disk`: scratch directory on the real filesystem (system temp dir); otherwise on tmpfs
/// (/dev/shm, where fsync costs nothing — the runs kill the process, not the kernel, so what survives
/// is the page cache either way; the quick tier keeps a share of its cases on the real filesystem)
fn header(o: &mut Out, c: &[Vec<u64>], base: usize, via: &str, threads: usize, how: &str, q: &[u64], disk: bool) {
    o.case(&format!(
        "coll={} base={} via={} threads={} how={} q={} fs={}",
        show_coll(c),
        base,
        via,
        threads,
        how,
        show_nats(q.iter().copied()),
        if disk { "disk" } else { "shm" }
    ));
}

const REOPEN_TOKENS: [&str; 6] = ["flush", "close", "openro", "openrw", "intern", "move"];

fn rand_seq(r: &mut Rng, len: usize) -> String {
    (0..len).map(|_| *r.pick(&REOPEN_TOKENS)).collect::<Vec<_>>().join(",")
}

fn gen(a: &Args) {
    let mut r = Rng::new(a.seed);
    let mut o = Out::new();
    let thorough = a.tier == "thorough";
    let hows = ["kill", "abort", "exit"];

    // stream 1: EVERY kill point of small collections, one thread (deterministic numbering),
    // each followed by the re-run and the full observation
    let ncoll = if thorough { 20 } else { 3 };
    for ci in 0..ncoll {
        let nd = r.range(3, 5) as usize;
        let maxh = if thorough { 12 } else { 5 };
        let c = rand_coll(&mut r, nd, maxh, 12);
        let q = rand_query(&mut r, &c);
        // (base, via): from scratch / resume of an extension through create / through open+update
        let (base, via) = match ci % 3 {
            0 => (0, "create"),
            1 => (r.range(1, nd as u64 - 1) as usize, "update"),
            _ => (r.range(1, nd as u64 - 1) as usize, "create"),
        };
        let total = points(&c, base);
        for n in 0..=total {
            header(&mut o, &c, base, via, 1, hows[(n + ci) % 3], &q, if thorough { ci % 2 == 0 } else { ci == 0 });
            o.op(&format!("crash {}", n));
            o.op(if n % 4 == 3 { "resumec" } else { "resume" });
        }
        // kills while compaction is running
        for d in [0u64, 200, 2000] {
            header(&mut o, &c, base, via, 1, "kill", &q, ci % 2 == 0);
            o.op(&format!("crashc {}", d));
            o.op("resume");
        }
    }

    // stream 2: repeated kills (the second, third … kill happens during the resume)
    let nrep = if thorough { 400 } else { 14 };
    for i in 0..nrep {
        let nd = r.range(3, 5) as usize;
        let c = rand_coll(&mut r, nd, if thorough { 12 } else { 6 }, 12);
        let q = rand_query(&mut r, &c);
        let (base, via) = match i % 3 {
            0 => (0, "create"),
            1 => (r.range(0, nd as u64 - 1) as usize, "update"),
            _ => (r.range(0, nd as u64 - 1) as usize, "create"),
        };
        let total = points(&c, base) as u64;
        header(&mut o, &c, base, via, 1, hows[i % 3], &q, i % 4 == 0);
        let rounds = r.range(2, 4);
        for _ in 0..rounds {
            // later runs have fewer points: bias towards small numbers, sometimes beyond the end
            let n = if r.chance(1, 6) { total + 1 } else { r.below(total) / r.range(1, 3) };
            o.op(&format!("crash {}", n));
        }
        o.op(if i % 2 == 0 { "resume" } else { "resumec" });
        if i % 3 == 0 {
            o.op(&format!("reopen {}", rand_seq(&mut r, 3)));
        }
    }

    // stream 3: four threads — the interleaving is not determined, so the crash state is judged by
    // the marker invariants and the final state must still be the clean build
    let nmt = if thorough { 300 } else { 12 };
    for i in 0..nmt {
        let nd = r.range(3, 6) as usize;
        let c = rand_coll(&mut r, nd, 10, 14);
        let q = rand_query(&mut r, &c);
        let (base, via) = if i % 2 == 0 { (0, "create") } else { (r.range(1, nd as u64 - 1) as usize, "update") };
        let total = points(&c, base) as u64;
        header(&mut o, &c, base, via, 4, hows[i % 3], &q, i % 4 == 0);
        o.op(&format!("crash {}", r.below(total)));
        if r.chance(1, 2) {
            o.op(&format!("crash {}", r.below(total) / 2));
        }
        o.op("resume");
    }

    // stream 4: flush / close / open(ro|rw) / internalize / move sequences on a completed index
    let nre = if thorough { 600 } else { 40 };
    for i in 0..nre {
        let nd = r.range(1, 5) as usize;
        let c = rand_coll(&mut r, nd, 8, 12);
        let q = rand_query(&mut r, &c);
        let (base, via) = if i % 4 == 3 { (r.range(1, nd as u64) as usize - 1, "update") } else { (0, "create") };
        header(&mut o, &c, base, via, 1, "kill", &q, i % 4 == 0);
        o.op("resume");
        let k = r.range(1, 3);
        for _ in 0..k {
            let len = r.range(1, 6) as usize;
            o.op(&format!("reopen {}", rand_seq(&mut r, len)));
        }
        if r.chance(1, 3) {
            // extend / re-run after the reopen sequence: a completed index is a fixed point
            o.op("resume");
        }
    }

    // stream 5 (generated last: streams 1-4 are the same requests as before it existed): processed sets
    // that are NOT a prefix of the collection.  Several worker threads; an
    // early new dataset (often LARGE, 400-800 hashes) is held at one of its points until the later new
    // ones (tiny) are complete and marked, then the process dies; the re-run must index the held one.
    // (threads, max datasets): rayon hands every dataset to its own job up to 2 x threads datasets
    let nnp = if thorough { 400 } else { 36 };
    for i in 0..nnp {
        let (threads, maxn) = *r.pick(&[(4usize, 8usize), (4, 8), (8, 12), (2, 4)]);
        let nd = r.range(3, maxn as u64) as usize;
        // at least two new datasets
        let base = r.range(if i % 2 == 0 { 1 } else { 0 }, nd as u64 - 2) as usize;
        let via = if i % 2 == 0 { "update" } else { "create" };
        let mut c = rand_coll(&mut r, nd, 6, 14);
        // the held dataset: a new one that is not the last (mostly the first new one)
        let held = if r.chance(2, 3) { base } else { r.range(base as u64, nd as u64 - 2) as usize };
        let big = i % 3 != 2;
        if big {
            let k = r.range(400, 800);
            let mut v: Vec<u64> = (0..k).map(|_| 1 + r.below(3000)).collect();
            v.extend(c[held].iter().copied());
            v.sort_unstable();
            v.dedup();
            c[held] = v;
        }
        let nh = c[held].len() as u64;
        // point of the held dataset: first / second write, somewhere inside, last write, its marker
        let k = match r.below(6) {
            0 => 0,
            1 => 1.min(nh),
            2 => nh.saturating_sub(1),
            3 => nh,
            _ => r.below(nh + 1),
        };
        let q = rand_query(&mut r, &c);
        let others: Vec<u64> = (base..nd).filter(|d| *d != held).map(|d| d as u64).collect();
        let plus = |v: &[u64]| -> String {
            if v.is_empty() {
                "-".into()
            } else {
                v.iter().map(|x| x.to_string()).collect::<Vec<_>>().join("+")
            }
        };
        header(&mut o, &c, base, via, threads, hows[i % 3], &q, i % 4 == 0);
        match i % 6 {
            5 => {
                // natural timing, no waiting
                let later: Vec<u64> = others.iter().copied().filter(|d| *d > held as u64).collect();
                o.op(&format!("crashn {} {} {}", held, k.min(nh / 2), plus(&later)));
            }
            4 => {
                // only some of the later ones are waited for: the rest is wherever it got to
                let later: Vec<u64> = others.iter().copied().filter(|d| *d > held as u64 && r.chance(2, 3)).collect();
                o.op(&format!("crashw {} {} {} inv", held, k, plus(&later)));
            }
            _ => {
                o.op(&format!("crashw {} {} {} exact", held, k, plus(&others)));
                o.op("inv");
            }
        }
        if r.chance(1, 4) {
            // a second kill during the re-run (only the held dataset is left to do)
            o.op(&format!("crash {}", r.below(nh + 5)));
        }
        o.op(if i % 2 == 0 { "resume" } else { "resumec" });
        if i % 5 == 0 {
            o.op(&format!("reopen {}", rand_seq(&mut r, 3)));
        } else if i % 5 == 1 {
            // internalize, then look at the internalized index through a read-only / a second handle
            let tail = rand_seq(&mut r, 2);
            o.op(&format!("reopen openrw,intern,close,{},intern,{}", if i % 2 == 0 { "openro" } else { "openrw" }, tail));
        }
    }

    // stream 6 (generated last): EXTENSION histories.  create(stage 0), then one or two update(stage j)
    // steps, with flush / close / open / internalize / move sequences in between; the internal locations
    // are renumbered from stage to stage (a location names different sketches in different stages)
    let nex = if thorough { 1500 } else { 70 };
    for i in 0..nex {
        let nd = r.range(3, 7) as usize;
        let mut c = rand_coll(&mut r, nd, 8, 14);
        if i % 3 == 0 {
            // duplicates: a stale blob can only be told by its name
            let (a, b) = (r.below(nd as u64) as usize, r.below(nd as u64) as usize);
            c[a] = c[b].clone();
        }
        let q = rand_query(&mut r, &c);
        let nst = if nd >= 4 && r.chance(1, 2) { 3 } else { 2 };
        // stage sizes: increasing, the first one >= 2 mostly (a collision needs two overlapping ranges)
        let mut sizes: Vec<usize> = vec![];
        let lo0 = if r.chance(1, 6) { 1 } else { 2 };
        let n0 = r.range(lo0, (nd - nst + 1) as u64) as usize;
        sizes.push(n0);
        for k in 1..nst {
            let lo = sizes[k - 1] + 1;
            let hi = nd - (nst - 1 - k);
            sizes.push(if k + 1 == nst { nd } else { r.range(lo as u64, hi as u64) as usize });
        }
        let mut offs: Vec<usize> = vec![];
        for k in 0..nst {
            let o = if k == 0 {
                *r.pick(&[0usize, 0, 0, 1, 2])
            } else if r.chance(1, 5) {
                offs[k - 1]
            } else {
                // different from the previous stage's, small: the ranges overlap
                let mut o = r.below(3) as usize;
                if o == offs[k - 1] {
                    o = (o + 1) % 3;
                }
                o
            };
            offs.push(o);
        }
        let stages: Vec<String> = sizes.iter().zip(&offs).map(|(n, o)| format!("{}:{}", n, o)).collect();
        o.case(&format!(
            "coll={} base=0 via=create threads=1 how=kill q={} fs={} stages={}",
            show_coll(&c),
            show_nats(q.iter().copied()),
            if i % 5 == 0 { "disk" } else { "shm" },
            stages.join(",")
        ));
        let kind = |r: &mut Rng| if r.chance(1, 2) { "fs" } else { "mem" };
        o.op(&format!("mk 0 {}", kind(&mut r)));
        // handle state after `mk`: open read-write
        let mut state = 2; // 0 closed, 1 read-only, 2 read-write
        for k in 1..nst {
            let mut toks: Vec<&str> = vec![];
            let len = r.range(0, 4);
            for _ in 0..len {
                let t = *r.pick(&["flush", "close", "openro", "openrw", "intern", "intern", "move"]);
                match t {
                    "close" => state = 0,
                    "openro" if state == 0 => state = 1,
                    "openrw" if state == 0 => state = 2,
                    _ => {}
                }
                toks.push(t);
            }
            // an update needs a read-write handle (now and then it does not get one)
            if !r.chance(1, 10) {
                if state == 1 {
                    toks.push("close");
                    state = 0;
                }
                if state == 0 {
                    toks.push("openrw");
                    state = 2;
                }
            }
            if !toks.is_empty() {
                o.op(&format!("reopen {}", toks.join(",")));
            }
            o.op(&format!("ext {} {}", k, kind(&mut r)));
            if state != 2 {
                // the update did not happen (no handle / a read-only one, lost in the panic): once more
                o.op("reopen openrw");
                state = 2;
                o.op(&format!("ext {} {}", k, kind(&mut r)));
            }
        }
        // what a later process sees: internalize (mostly), close, move, open
        let tail = match r.below(6) {
            0 => "close,openro".to_string(),
            1 => "intern,close,move,openro".to_string(),
            2 => format!("intern,{},close,openrw", rand_seq(&mut r, 2)),
            3 => format!("{},intern,close,openro", rand_seq(&mut r, 2)),
            _ => "intern,close,openro".to_string(),
        };
        o.op(&format!("reopen {}", tail));
    }

    // stream 7 (generated last): MULTI-STAGE crash histories.  Two or three COMPLETED builds (create, then
    // open+update or create again, each with its own compaction; now and then a flush / a read-only open
    // after a stage) over growing prefixes of a collection whose datasets share MOST of their hashes, then
    // the build under test (one thread) killed INSIDE a new dataset: after some of its HASHES merges — on
    // hashes that hold stored values of the earlier stages — and before its PROCESSED marker; then
    // (optionally) a flush / open of the directory as the kill left it, (optionally) a second and third
    // kill during the re-run, the re-run (in-process / fresh process, once or twice), a reopen sequence.
    let nms = if thorough { 1600 } else { 90 };
    for i in 0..nms {
        let nd = r.range(3, 6) as usize;
        let c = shared_coll(&mut r, nd);
        let q = rand_query(&mut r, &c);
        // completed stages: mostly two or three (one: the earlier entries are still merge operands)
        let nst = match r.below(8) {
            0 => 1,
            1..=4 => 2,
            _ => 3,
        }
        .min(nd - 1);
        // increasing prefix sizes n_0 < … < n_{nst-1} < nd
        let mut sizes: Vec<usize> = vec![];
        let mut lo = 1usize;
        for k in 0..nst {
            let hi = nd - 1 - (nst - 1 - k);
            let n = if r.chance(2, 3) { lo } else { r.range(lo as u64, hi as u64) as usize };
            sizes.push(n);
            lo = n + 1;
        }
        let base = *sizes.last().unwrap();
        let hist: Vec<String> = sizes
            .iter()
            .enumerate()
            .map(|(k, n)| {
                let mut t = n.to_string();
                if k > 0 && r.chance(1, 5) {
                    t.push('c');
                }
                if r.chance(1, 5) {
                    t.push('f');
                }
                if r.chance(1, 6) {
                    t.push('r');
                }
                t
            })
            .collect();
        let via = if r.chance(3, 4) { "update" } else { "create" };
        o.case(&format!(
            "coll={} base={} via={} threads=1 how={} q={} fs={} hist={}",
            show_coll(&c),
            base,
            via,
            hows[i % 3],
            show_nats(q.iter().copied()),
            if i % 6 == 0 { "disk" } else { "shm" },
            hist.join(",")
        ));
        // the dataset the kill lands in: mostly the first new one
        let t = if r.chance(3, 4) { base } else { r.range(base as u64, nd as u64 - 1) as usize };
        let before: usize = c[base..t].iter().map(|d| d.len() + 1).sum();
        let nh = c[t].len() as u64;
        // k of its hash writes issued (k = nh: all of them, the marker not); an empty dataset: at its marker
        let k = if nh == 0 {
            0
        } else {
            match r.below(5) {
                0 => 1,
                1 => nh,
                2 => nh - 1,
                _ => r.range(1, nh),
            }
            .max(1)
        };
        o.op(&format!("crash {}", before as u64 + k));
        let settle = |r: &mut Rng, o: &mut Out| {
            match r.below(6) {
                0 => o.op("settle flush"),
                1 => o.op("settle open"),
                2 => o.op("settle openro,flush"),
                3 => o.op("settle flush,open"),
                _ => {}
            };
        };
        settle(&mut r, &mut o);
        // further kills during the re-run (which starts again at dataset t)
        let again = match r.below(6) {
            0 | 1 => 1,
            2 => 2,
            _ => 0,
        };
        for _ in 0..again {
            let n = match r.below(4) {
                // inside dataset t again
                0 | 1 => r.range(1, nh.max(1)),
                // anywhere in the rest of the run, metadata writes and compaction included
                2 => r.below(points(&c, t) as u64),
                _ => nh,
            };
            o.op(&format!("crash {}", n));
            settle(&mut r, &mut o);
        }
        o.op(if i % 3 == 1 { "resumec" } else { "resume" });
        match r.below(6) {
            0 => o.op("resume"),
            1 => o.op(&format!("reopen {}", rand_seq(&mut r, 3))),
            2 => {
                o.op("reopen openrw,flush,close,openro");
                o.op("resumec")
            }
            _ => {}
        }
    }
}

// ------------------------------------------------------------------------------------ exec

struct St {
    // declared first: the open index is dropped before its directory is removed
    handle: Option<(RevIndex, bool)>,
    tmp: Option<tempfile::TempDir>,
    coll: Vec<Vec<u64>>,
    sigs: Vec<Signature>,
    paths: Vec<Utf8PathBuf>,
    base: usize,
    via: String,
    threads: usize,
    how: String,
    q: Vec<u64>,
    idx: PathBuf,
    sig_dir: PathBuf,
    moves: u32,
    /// `stages=` of the case line: (number of datasets, location offset)
    stages: Vec<(usize, usize)>,
    /// a fresh directory per stage collection that is built
    nstage_dirs: u32,
    /// `hist=` of the case line: (number of datasets, via create, then flush, then read-only open)
    hist: Vec<(usize, bool, bool, bool)>,
}

fn new_state() -> St {
    St {
        tmp: None,
        coll: vec![],
        sigs: vec![],
        paths: vec![],
        base: 0,
        via: "create".into(),
        threads: 1,
        how: "kill".into(),
        q: vec![],
        idx: PathBuf::new(),
        sig_dir: PathBuf::new(),
        handle: None,
        moves: 0,
        stages: vec![],
        nstage_dirs: 0,
        hist: vec![],
    }
}

fn copy_dir(from: &Path, to: &Path) {
    std::fs::create_dir_all(to).unwrap();
    for e in std::fs::read_dir(from).unwrap() {
        let e = e.unwrap();
        let p = e.path();
        if p.is_dir() {
            copy_dir(&p, &to.join(e.file_name()));
        } else if e.file_name() != "LOCK" {
            std::fs::copy(&p, to.join(e.file_name())).unwrap();
        }
    }
}

/// the durable state, read through a scratch open (the crate's own column families and merge
/// operator) of a COPY of the directory, so that the directory itself is next opened by the code
/// under test
struct Scan {
    h: BTreeMap<u64, Vec<u32>>,
    p: Option<Vec<u32>>,
    version: Option<u8>,
    manifest_rows: Option<usize>,
    spec: Option<String>,
    nstorage: usize,
}

fn scan(st: &St) -> Scan {
    let copy = st.tmp.as_ref().unwrap().path().join("obs-copy");
    let _ = std::fs::remove_dir_all(&copy);
    if !st.idx.exists() {
        return Scan { h: BTreeMap::new(), p: None, version: None, manifest_rows: None, spec: None, nstorage: 0 };
    }
    copy_dir(&st.idx, &copy);
    let out = {
        let db = vh::open_scratch_db(&copy);
        let cf = db.cf_handle(vh::HASHES_CF).unwrap();
        let mut h = BTreeMap::new();
        for item in db.iterator_cf(&cf, rocksdb::IteratorMode::Start) {
            let (k, v) = item.unwrap();
            let key = u64::from_le_bytes(k[..8].try_into().unwrap());
            let mut ids: Vec<u32> = vh::datasets_from_slice(&v).unwrap().into_iter().collect();
            ids.sort_unstable();
            h.insert(key, ids);
        }
        let cfm = db.cf_handle(vh::METADATA_CF).unwrap();
        let p = db.get_cf(&cfm, vh::PROCESSED_KEY).unwrap().map(|v| {
            let mut ids: Vec<u32> = vh::datasets_from_slice(&v).unwrap().into_iter().collect();
            ids.sort_unstable();
            ids
        });
        let version = db.get_cf(&cfm, vh::VERSION_KEY).unwrap().map(|v| v[0]);
        let manifest_rows = db.get_cf(&cfm, vh::MANIFEST_KEY).unwrap().map(|v| {
            let text = String::from_utf8_lossy(&v).to_string();
            text.lines().filter(|l| !l.starts_with('#') && !l.trim().is_empty()).count().saturating_sub(1)
        });
        let spec = db
            .get_cf(&cfm, vh::STORAGE_SPEC_KEY)
            .unwrap()
            .map(|v| String::from_utf8_lossy(&v).to_string());
        let cfs = db.cf_handle(vh::STORAGE_CF).unwrap();
        let nstorage = db.iterator_cf(&cfs, rocksdb::IteratorMode::Start).count();
        Scan { h, p, version, manifest_rows, spec, nstorage }
    };
    std::fs::remove_dir_all(&copy).unwrap();
    out
}

fn show_scan(s: &Scan) -> String {
    let h = if s.h.is_empty() {
        "-".to_string()
    } else {
        s.h.iter()
            .map(|(k, ids)| format!("{}:{}", k, show_nats(ids.iter().map(|x| *x as u64))))
            .collect::<Vec<_>>()
            .join(";")
    };
    let p = match &s.p {
        None => "none".to_string(),
        Some(ids) => show_nats(ids.iter().map(|x| *x as u64)),
    };
    format!(
        "H={} P={} M={}/{}/{} X={}",
        h,
        p,
        s.version.map(|v| v.to_string()).unwrap_or("-".into()),
        s.manifest_rows.map(|v| v.to_string()).unwrap_or("-".into()),
        // an `fs://<directory>` spec is printed without the (scratch) directory
        s.spec.as_ref().map(|x| if x.starts_with("fs://") { "fs://".to_string() } else { x.clone() }).unwrap_or("-".into()),
        s.nstorage
    )
}

/// T-marker on a crash state whose interleaving is not known
fn invariants(st: &St, s: &Scan) -> String {
    let n = st.coll.len();
    if let Some(p) = &s.p {
        if p.is_empty() {
            return "inv-bad processed-empty".into();
        }
        for &d in p {
            if d as usize >= n {
                return format!("inv-bad processed-unknown {}", d);
            }
            for h in &st.coll[d as usize] {
                if !s.h.get(h).map(|ids| ids.contains(&d)).unwrap_or(false) {
                    return format!("inv-bad marker-without-hash {} {}", d, h);
                }
            }
        }
    }
    for (h, ids) in &s.h {
        if ids.is_empty() {
            return format!("inv-bad empty-entry {}", h);
        }
        for &d in ids {
            if d as usize >= n || !st.coll[d as usize].contains(h) {
                return format!("inv-bad spurious {} {}", h, d);
            }
        }
    }
    if let Some(rows) = s.manifest_rows {
        let have = s.p.clone().unwrap_or_default();
        for d in 0..rows {
            if !have.contains(&(d as u32)) {
                return format!("inv-bad manifest-row-unprocessed {}", d);
            }
        }
    }
    "inv-ok".into()
}

fn answers(st: &St, idx: &RevIndex) -> String {
    let query = make_mh(&st.q, None, 1);
    let counter = idx.counter_for_query(&query);
    let mut c: Vec<(u32, usize)> = counter.iter().map(|(k, v)| (*k, *v)).collect();
    c.sort_unstable();
    let cs = if c.is_empty() {
        "-".to_string()
    } else {
        c.iter().map(|(k, v)| format!("{}:{}", k, v)).collect::<Vec<_>>().join(",")
    };
    let (counter, qc, h2c) = idx.prepare_gather_counters(&query);
    let gs = match idx.gather(counter, qc, h2c, 0, &query, Some(sourmash::selection::Selection::default())) {
        Ok(rs) => {
            if rs.is_empty() {
                "-".to_string()
            } else {
                rs.iter()
                    .map(|g| format!("{}:{}:{}", g.name(), g.intersect_bp(), g.unique_intersect_bp()))
                    .collect::<Vec<_>>()
                    .join(",")
            }
        }
        Err(e) => format!("err:{:?}", e).replace(' ', "_"),
    };
    let n = idx.collection().len();
    let mut ss = vec![];
    for i in 0..n {
        match idx.collection().sig_for_dataset(i as u32) {
            Ok(sig) => {
                let sig: Signature = sig.into();
                let mins: Vec<u64> = match &sig.sketches()[0] {
                    Sketch::MinHash(mh) => mh.mins(),
                    _ => vec![],
                };
                let rec_md5 = idx.collection().record_for_dataset(i as u32).map(|r| r.md5().clone()).unwrap_or_default();
                let md5ok = i < st.sigs.len() && sig.md5sum() == st.sigs[i].md5sum() && sig.md5sum() == rec_md5;
                ss.push(format!("{}:{}:{}", sig.name(), show_nats(mins), if md5ok { "md5ok" } else { "md5BAD" }));
            }
            Err(_) => ss.push("err".into()),
        }
    }
    let ss = if ss.is_empty() { "-".to_string() } else { ss.join(";") };
    format!("C={} G={} S={}", cs, gs, ss)
}

fn observe(st: &mut St) -> String {
    let sc = show_scan(&scan(st));
    let ans = match &st.handle {
        Some((idx, _)) => answers(st, idx),
        None => match RevIndex::open(&st.idx, true, None) {
            Ok(idx) => answers(st, &idx),
            Err(_) => "open-err".into(),
        },
    };
    format!("{} {}", sc, ans)
}

fn spawn_child(st: &St, kill_at: &str, delay: Option<u64>) -> String {
    let exe = std::env::current_exe().unwrap();
    let mut cmd = std::process::Command::new(exe);
    cmd.arg("child")
        .arg(&st.idx)
        .arg(&st.sig_dir)
        .arg(st.coll.len().to_string())
        .arg(&st.via)
        .arg(kill_at)
        .arg(st.threads.to_string())
        .arg(&st.how);
    if let Some(d) = delay {
        cmd.arg(d.to_string());
    }
    let out = cmd.output().unwrap();
    use std::os::unix::process::ExitStatusExt;
    let status = out.status;
    if status.success() {
        "done".into()
    } else if status.signal() == Some(libc::SIGKILL) || status.signal() == Some(libc::SIGABRT) || status.code() == Some(137) {
        "killed".into()
    } else {
        format!("child-failed:{:?}", status.code())
    }
}

fn remove_index(st: &St) {
    if st.idx.exists() {
        std::fs::remove_dir_all(&st.idx).unwrap();
    }
}

/// `crashw` / `crashn`: kill decided by what has been written (see c10_child.rs, `when:`)
fn crash_when(st: &St, i: usize, k: u64, js: &str, block: bool, exact: bool) -> String {
    let want: Vec<u32> = js.split('+').filter(|x| *x != "-" && !x.is_empty()).map(|x| x.parse().unwrap()).collect();
    // the order is forced by waiting; a retry (from the state before the crash) with a longer settle
    // time covers a marker write that had not returned when the process died
    let snapshot = st.tmp.as_ref().unwrap().path().join("pre-crash");
    let _ = std::fs::remove_dir_all(&snapshot);
    let had_index = st.idx.exists();
    if exact && had_index {
        copy_dir(&st.idx, &snapshot);
    }
    let mut out = "NA".to_string();
    for settle in [30u64, 300, 2000] {
        let spec = format!("when:{}:{}:{}:{}:{}", i, k, js, block as u8, if block { settle } else { 200 });
        let r = spawn_child(st, &spec, None);
        if r.starts_with("child-failed") {
            return r;
        }
        let s = scan(st);
        let inv = invariants(st, &s);
        if inv != "inv-ok" || !exact {
            out = inv;
            break;
        }
        let p = s.p.clone().unwrap_or_default();
        if r == "killed" && want.iter().all(|j| p.contains(j)) && !p.contains(&(i as u32)) {
            out = show_scan(&s);
            break;
        }
        // not the state asked for: start again from the state before the crash
        remove_index(st);
        if had_index {
            copy_dir(&snapshot, &st.idx);
        }
    }
    let _ = std::fs::remove_dir_all(&snapshot);
    out
}

/// the build under test, in this process (no hook callback, the process-wide rayon pool)
fn build_in_process(st: &St) -> Result<(), String> {
    let coll = fs_collection(&st.paths);
    if st.via == "update" {
        let idx = RevIndex::open(&st.idx, false, None).map_err(|e| format!("err-open:{:?}", e))?;
        let idx = idx.update(coll).map_err(|e| format!("err-update:{:?}", e))?;
        drop(idx);
    } else {
        let idx = RevIndex::create(&st.idx, coll, false).map_err(|e| format!("err-create:{:?}", e))?;
        drop(idx);
    }
    Ok(())
}

fn setup(st: &mut St, ws: &[&str]) {
    for w in &ws[2..] {
        let (k, v) = w.split_once('=').unwrap();
        match k {
            "coll" => st.coll = v.split('/').map(parse_nats).collect(),
            "base" => st.base = v.parse().unwrap(),
            "via" => st.via = v.into(),
            "threads" => st.threads = v.parse().unwrap(),
            "how" => st.how = v.into(),
            "q" => st.q = parse_nats(v),
            "stages" => {
                st.stages = v
                    .split(',')
                    .map(|x| {
                        let (n, o) = x.split_once(':').unwrap();
                        (n.parse().unwrap(), o.parse().unwrap())
                    })
                    .collect()
            }
            "hist" => {
                st.hist = v
                    .split(',')
                    .map(|x| {
                        let n: String = x.chars().take_while(|c| c.is_ascii_digit()).collect();
                        (n.parse().unwrap(), x.contains('c'), x.contains('f'), x.contains('r'))
                    })
                    .collect()
            }
            _ => {}
        }
    }
    if let Some(last) = st.hist.last() {
        st.base = last.0;
    }
    let shm = std::path::Path::new("/dev/shm");
    let tmp = if ws.iter().any(|w| *w == "fs=shm") && shm.is_dir() {
        tempfile::Builder::new().prefix("verif-idx-").tempdir_in(shm).unwrap()
    } else {
        scratch_dir()
    };
    st.sig_dir = tmp.path().join("sigs");
    st.idx = tmp.path().join("index");
    st.sigs = st
        .coll
        .iter()
        .enumerate()
        .map(|(i, d)| make_sig(&format!("d{}", i), d, None, 1))
        .collect();
    st.paths = write_sig_files(&st.sig_dir, &st.sigs);
    st.tmp = Some(tmp);
    if !st.hist.is_empty() {
        // completed builds, one after the other, each in its own open … drop
        for (j, &(n, create, fl, ro)) in st.hist.iter().enumerate() {
            let coll = fs_collection(&st.paths[..n.min(st.paths.len())]);
            let idx = if j == 0 || create {
                RevIndex::create(&st.idx, coll, false).unwrap()
            } else {
                RevIndex::open(&st.idx, false, None).unwrap().update(coll).unwrap()
            };
            drop(idx);
            if fl {
                let idx = RevIndex::open(&st.idx, false, None).unwrap();
                idx.flush().unwrap();
                drop(idx);
            }
            if ro {
                drop(RevIndex::open(&st.idx, true, None).unwrap());
            }
        }
    } else if st.base > 0 || st.via == "update" {
        let idx = RevIndex::create(&st.idx, fs_collection(&st.paths[..st.base]), false).unwrap();
        drop(idx);
    }
}

/// the collection of stage `j` (see the module comment)
fn stage_collection(st: &mut St, j: usize, mem: bool) -> sourmash::collection::CollectionSet {
    use sourmash::collection::Collection;
    use sourmash::manifest::{Manifest, Record};
    use sourmash::prelude::*;
    use sourmash::storage::{FSStorage, InnerStorage};
    let (n, off) = st.stages[j];
    let n = n.min(st.sigs.len());
    if mem {
        // `off` leading signatures of another k-mer size: they take the input positions 0..off and are
        // dropped by the selection
        let mut sigs: Vec<Signature> = vec![];
        for k in 0..off {
            let mut mh = sourmash::sketch::minhash::KmerMinHash::new(1, 31, sourmash::encodings::HashFunctions::Murmur64Dna, 42, false, 0);
            mh.add_hash(7 + k as u64);
            let mut sig = Signature::default();
            sig.set_name(&format!("junk{}", k));
            sig.push(Sketch::MinHash(mh));
            sigs.push(sig);
        }
        sigs.extend(st.sigs[..n].iter().cloned());
        let sel = sourmash::selection::Selection::builder().ksize(KSIZE).build();
        Collection::from_sigs(sigs).unwrap().select(&sel).unwrap().try_into().unwrap()
    } else {
        st.nstage_dirs += 1;
        let dir = st.tmp.as_ref().unwrap().path().join(format!("stage{}-{}", j, st.nstage_dirs));
        std::fs::create_dir_all(&dir).unwrap();
        let storage = FSStorage::new("", dir.to_str().unwrap());
        let mut records: Vec<Record> = vec![];
        for (i, sig) in st.sigs[..n].iter().enumerate() {
            let loc = format!("{}", off + i);
            storage.save_sig(&loc, sig.clone()).unwrap();
            records.extend(Record::from_sig(sig, &loc));
        }
        Collection::new(Manifest::from(records), InnerStorage::new(storage)).try_into().unwrap()
    }
}

/// `mk` / `ext`
fn stage_step(st: &mut St, ext: bool, j: usize, mem: bool) -> String {
    if j >= st.stages.len() {
        return "no-stage".into();
    }
    let res: &str = if ext {
        match st.handle.take() {
            None => "closed",
            // a read-only handle: `update` panics at its first write (the handle is gone)
            Some((idx, _)) => {
                let coll = stage_collection(st, j, mem);
                match idx.update(coll) {
                    Ok(mut idx) => {
                        let r = if mem && idx.internalize_storage().is_err() { "err-intern" } else { "ok" };
                        st.handle = Some((idx, false));
                        r
                    }
                    Err(_) => "err",
                }
            }
        }
    } else {
        st.handle = None;
        let coll = stage_collection(st, j, mem);
        match RevIndex::create(&st.idx, coll, false) {
            Ok(mut idx) => {
                let r = if mem && idx.internalize_storage().is_err() { "err-intern" } else { "ok" };
                st.handle = Some((idx, false));
                r
            }
            Err(_) => "err",
        }
    };
    format!("{}|{}", res, observe(st))
}

fn reopen(st: &mut St, seq: &str) -> String {
    let mut res = vec![];
    for tok in seq.split(',') {
        let r: String = match tok {
            "flush" => match &st.handle {
                Some((idx, _)) => match idx.flush() {
                    Ok(()) => "ok".into(),
                    Err(_) => "err".into(),
                },
                None => "closed".into(),
            },
            "close" => {
                if st.handle.take().is_some() {
                    "ok".into()
                } else {
                    "closed".into()
                }
            }
            "openro" | "openrw" => {
                if st.handle.is_some() {
                    "already".into()
                } else {
                    let ro = tok == "openro";
                    match RevIndex::open(&st.idx, ro, None) {
                        Ok(idx) => {
                            st.handle = Some((idx, ro));
                            "ok".into()
                        }
                        Err(_) => "err".into(),
                    }
                }
            }
            "intern" => match &mut st.handle {
                Some((idx, _)) => match idx.internalize_storage() {
                    Ok(()) => "ok".into(),
                    Err(_) => "err".into(),
                },
                None => "closed".into(),
            },
            "move" => {
                if st.handle.is_some() {
                    "open".into()
                } else {
                    st.moves += 1;
                    let to = st.tmp.as_ref().unwrap().path().join(format!("moved-{}", st.moves)).join("index");
                    std::fs::create_dir_all(to.parent().unwrap()).unwrap();
                    std::fs::rename(&st.idx, &to).unwrap();
                    st.idx = to;
                    "ok".into()
                }
            }
            _ => "bad-token".into(),
        };
        res.push(r);
    }
    format!("{}|{}", res.join(","), observe(st))
}

/// `settle`: open / flush / drop on the directory as it is
fn settle(st: &mut St, seq: &str) -> String {
    st.handle = None;
    let mut res = vec![];
    for tok in seq.split(',') {
        // a directory without version / manifest / storage spec: `open` errs or panics
        let idx = std::panic::catch_unwind(std::panic::AssertUnwindSafe(|| RevIndex::open(&st.idx, tok == "openro", None)));
        let r = match idx {
            Ok(Ok(idx)) => {
                let r = if tok == "flush" && idx.flush().is_err() { "err-flush" } else { "ok" };
                drop(idx);
                r
            }
            _ => "err",
        };
        res.push(r);
    }
    format!("{}|{}", res.join(","), show_scan(&scan(st)))
}

fn step(st: &mut St, ws: &[&str]) -> String {
    match ws[0] {
        "case" => {
            setup(st, ws);
            "ok".into()
        }
        "crash" | "crashc" => {
            st.handle = None;
            let r = if ws[0] == "crash" {
                spawn_child(st, ws[1], None)
            } else {
                spawn_child(st, "inf", Some(ws[1].parse().unwrap()))
            };
            if r.starts_with("child-failed") {
                return r;
            }
            let s = scan(st);
            if st.threads == 1 || ws[0] == "crashc" {
                show_scan(&s)
            } else {
                invariants(st, &s)
            }
        }
        "crashw" | "crashn" => {
            st.handle = None;
            let block = ws[0] == "crashw";
            let exact = block && ws.get(4) == Some(&"exact");
            crash_when(st, ws[1].parse().unwrap(), ws[2].parse().unwrap(), ws[3], block, exact)
        }
        "inv" => {
            let s = scan(st);
            invariants(st, &s)
        }
        "resume" => {
            st.handle = None;
            match build_in_process(st) {
                Ok(()) => observe(st),
                Err(e) => e.replace(' ', "_"),
            }
        }
        "resumec" => {
            st.handle = None;
            let r = spawn_child(st, "inf", None);
            if r != "done" {
                return format!("resume-{}", r);
            }
            observe(st)
        }
        "obs" => observe(st),
        "reopen" => reopen(st, ws[1]),
        "settle" => settle(st, ws[1]),
        "mk" | "ext" => stage_step(st, ws[0] == "ext", ws[1].parse().unwrap(), ws.get(2) == Some(&"mem")),
        _ => "bad-op".into(),
    }
}

fn main() {
    let a = args();
    match a.mode.as_str() {
        "gen" => gen(&a),
        "exec" => exec_loop(new_state, step),
        "child" => child::child_main(&a.rest),
        // like exec, without the panic capture (diagnosis)
        "dbg" => {
            let mut st = new_state();
            for line in std::io::stdin().lines() {
                let line = line.unwrap();
                let ws: Vec<&str> = line.split_whitespace().collect();
                if ws.first() == Some(&"case") {
                    st = new_state();
                }
                println!("{}", step(&mut st, &ws));
            }
        }
        _ => panic!("mode"),
    }
}
