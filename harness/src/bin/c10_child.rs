//! C10 crash child: builds (or extends) an on-disk index with the REAL `RevIndex::create` /
//! `RevIndex::open(..).update(..)` and kills itself at the n-th hook point
//! (`sourmash::index::revindex::verif_hooks::set_point_callback`).
//!
//! usage: c10_child <index_dir> <sig_dir> <n_datasets> <create|update> <kill_at|inf|when:…> <threads>
//!                  <kill|abort|exit> [<compaction_delay_us>]
//!
//! * the collection is the filesystem-backed one over `<sig_dir>/d0.sig … d{n-1}.sig`
//!   (written by the parent with `index_util::write_sig_files`);
//! * a hook point is reached *before* every write, so `kill_at = n` leaves exactly the first `n`
//!   writes of this run issued (with one rayon thread the numbering is deterministic);
//! * `kill_at = inf` runs to completion and prints `total <number of points>`;
//! * `when:<i>:<k>:<j1+j2+…|->:<block 0|1>:<settle_ms>` ("kill when"): the kill is decided by WHAT has
//!   been written, not by a count.  The thread that arrives at the k-th point (0-based) of dataset i
//!   (its k-th HASHES write, or its PROCESSED marker when k = number of hashes) kills the process once
//!   the PROCESSED marker point of every dataset j in the list has been seen:
//!   block = 1: it WAITS there (up to 5 s) until those markers have been reached, gives the marker
//!   writes `settle_ms` to return, and dies — with more than one worker thread this forces the
//!   order "later datasets complete and marked, an earlier one only partly written", i.e. a
//!   processed set that is not a prefix of the collection;
//!   block = 0: no waiting — it dies at the first point of dataset i at or after the k-th at which
//!   the markers have been seen (the order is not fixed; every point of dataset i only sleeps
//!   `settle` MICROseconds, a slow writer; the run completes if the condition never holds);
//! * with `<compaction_delay_us>` the process is not killed *at* the compaction point but that many
//!   microseconds after it, from a second thread, i.e. while `compact_range_cf` is running.
//!
//! This file is also included as a module by `c10.rs` (`c10 child …` re-executes itself), because
//! `./check` builds only the property's main harness binary.
#![allow(dead_code)]
use camino::Utf8PathBuf;
use sourmash::index::revindex::verif_hooks;
use sourmash::index::revindex::{RevIndex, RevIndexOps};
use std::sync::atomic::{AtomicU64, Ordering};
use verif_harness::index_util::fs_collection;

static COUNT: AtomicU64 = AtomicU64::new(0);
static KILL_AT: AtomicU64 = AtomicU64::new(u64::MAX);
/// 0 = SIGKILL to self, 1 = abort(), 2 = _exit(137)
static KILL_HOW: AtomicU64 = AtomicU64::new(0);
/// u64::MAX = kill at the point; otherwise delay (µs) after the compaction point
static COMPACT_DELAY: AtomicU64 = AtomicU64::new(u64::MAX);

fn die() -> ! {
    unsafe {
        match KILL_HOW.load(Ordering::SeqCst) {
            0 => {
                libc::kill(libc::getpid(), libc::SIGKILL);
                // SIGKILL is delivered before kill() returns to user code; never reached
                loop {
                    libc::pause();
                }
            }
            1 => std::process::abort(),
            _ => libc::_exit(137),
        }
    }
}

/// "kill when" mode: dataset i (u64::MAX = mode off), point number k of that dataset, bit mask of the
/// datasets whose PROCESSED marker point must have been seen, block / settle
static WHEN_IN: AtomicU64 = AtomicU64::new(u64::MAX);
static WHEN_K: AtomicU64 = AtomicU64::new(0);
static WHEN_MARKED: AtomicU64 = AtomicU64::new(0);
static WHEN_BLOCK: AtomicU64 = AtomicU64::new(0);
static WHEN_SETTLE_MS: AtomicU64 = AtomicU64::new(0);
/// bit j set: the PROCESSED marker point of dataset j has been reached (its write follows at once)
static MARK_SEEN: AtomicU64 = AtomicU64::new(0);
/// number of points of dataset WHEN_IN seen so far
static IN_POINTS: AtomicU64 = AtomicU64::new(0);

fn marks_seen() -> bool {
    let want = WHEN_MARKED.load(Ordering::SeqCst);
    MARK_SEEN.load(Ordering::SeqCst) & want == want
}

fn point_when(kind: u8, dataset: u32) {
    if kind == 1 && dataset < 64 {
        MARK_SEEN.fetch_or(1u64 << dataset, Ordering::SeqCst);
    }
    if (kind == 0 || kind == 1) && dataset as u64 == WHEN_IN.load(Ordering::SeqCst) {
        let c = IN_POINTS.fetch_add(1, Ordering::SeqCst);
        let k = WHEN_K.load(Ordering::SeqCst);
        if WHEN_BLOCK.load(Ordering::SeqCst) == 1 {
            if c == k {
                let t0 = std::time::Instant::now();
                while !marks_seen() && t0.elapsed() < std::time::Duration::from_secs(5) {
                    std::thread::sleep(std::time::Duration::from_millis(1));
                }
                std::thread::sleep(std::time::Duration::from_millis(WHEN_SETTLE_MS.load(Ordering::SeqCst)));
                die()
            }
        } else {
            if c >= k && marks_seen() {
                die()
            }
            // slow writer: gives the other workers time without fixing the order
            std::thread::sleep(std::time::Duration::from_micros(WHEN_SETTLE_MS.load(Ordering::SeqCst)));
        }
    }
}

fn point(kind: u8, dataset: u32, _n: u64) {
    let c = COUNT.fetch_add(1, Ordering::SeqCst);
    if WHEN_IN.load(Ordering::SeqCst) != u64::MAX {
        return point_when(kind, dataset);
    }
    let delay = COMPACT_DELAY.load(Ordering::SeqCst);
    if kind == 3 && delay != u64::MAX {
        std::thread::spawn(move || {
            std::thread::sleep(std::time::Duration::from_micros(delay));
            die()
        });
        return;
    }
    if c == KILL_AT.load(Ordering::SeqCst) {
        die()
    }
}

pub fn child_main(a: &[String]) {
    if a.len() < 7 {
        eprintln!("usage: c10_child <index_dir> <sig_dir> <n> <create|update> <kill_at|inf> <threads> <kill|abort|exit> [delay_us]");
        std::process::exit(2);
    }
    let index_dir = &a[0];
    let sig_dir = &a[1];
    let n: usize = a[2].parse().unwrap();
    let mode = a[3].as_str();
    let kill_at: u64 = if a[4] == "inf" {
        u64::MAX
    } else if let Some(w) = a[4].strip_prefix("when:") {
        let f: Vec<&str> = w.split(':').collect();
        WHEN_K.store(f[1].parse().unwrap(), Ordering::SeqCst);
        let mut mask = 0u64;
        for j in f[2].split('+').filter(|x| *x != "-" && !x.is_empty()) {
            mask |= 1u64 << j.parse::<u32>().unwrap();
        }
        WHEN_MARKED.store(mask, Ordering::SeqCst);
        WHEN_BLOCK.store(f[3].parse().unwrap(), Ordering::SeqCst);
        WHEN_SETTLE_MS.store(f[4].parse().unwrap(), Ordering::SeqCst);
        WHEN_IN.store(f[0].parse().unwrap(), Ordering::SeqCst);
        u64::MAX
    } else {
        a[4].parse().unwrap()
    };
    let threads: usize = a[5].parse().unwrap();
    let how = match a[6].as_str() {
        "kill" => 0,
        "abort" => 1,
        _ => 2,
    };
    if let Some(d) = a.get(7) {
        COMPACT_DELAY.store(d.parse().unwrap(), Ordering::SeqCst);
    }
    // no core files from abort()
    unsafe {
        let lim = libc::rlimit { rlim_cur: 0, rlim_max: 0 };
        libc::setrlimit(libc::RLIMIT_CORE, &lim);
    }
    KILL_AT.store(kill_at, Ordering::SeqCst);
    KILL_HOW.store(how, Ordering::SeqCst);
    rayon::ThreadPoolBuilder::new()
        .num_threads(threads)
        .build_global()
        .unwrap();
    let paths: Vec<Utf8PathBuf> = (0..n)
        .map(|i| Utf8PathBuf::from(format!("{}/d{}.sig", sig_dir, i)))
        .collect();
    let coll = fs_collection(&paths);
    match mode {
        "create" => {
            verif_hooks::set_point_callback(Some(point));
            let idx = RevIndex::create(index_dir.as_str(), coll, false).unwrap();
            verif_hooks::set_point_callback(None);
            drop(idx);
        }
        "update" => {
            // `open` issues no writes; the points are those of `update`
            let idx = RevIndex::open(index_dir.as_str(), false, None).unwrap();
            verif_hooks::set_point_callback(Some(point));
            let idx = idx.update(coll).unwrap();
            verif_hooks::set_point_callback(None);
            drop(idx);
        }
        _ => panic!("mode"),
    }
    println!("total {}", COUNT.load(Ordering::SeqCst));
}

fn main() {
    let a: Vec<String> = std::env::args().skip(1).collect();
    child_main(&a);
}
