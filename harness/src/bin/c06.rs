//! C06: signatures survive save/load unchanged and stay format-compatible.
//!
//! Request lines (all stateless; a `case` line only groups them):
//!   save <siglist> <hexjson>   the JSON text the real writers produce for <siglist> must be <hexjson>
//!                              (gen ran the real code; exec re-runs it) -> `same` | `differs <hex>`
//!   roundtrip <siglist>        observation of from_reader(save(siglist)), container letter hidden
//!   rtypes <siglist>           container letters after the round trip
//!   gz <level> <siglist>       signatures_save_buffer(level) -> gunzip with the system gzip, compare to
//!                              the plain bytes, load the compressed bytes back
//!   load <hexjson>             Signature::from_reader on arbitrary text (Lean-written, legacy, malformed)
//!   legacy <hexjson>           the same load, reduced to ksize/mins/abundances per sketch
//!   file <relpath> <hexjson>   Signature::from_path on a bundled tests/test-data file (hexjson = its
//!                              decompressed content, checked) -> as `load`
//!   filefmt <relpath> <hexjson> as `legacy`
//!   filter <k> <mol> <siglist> Signature::load_signatures / signatures_load_buffer on save(siglist)
//!   loadvec|loadtree <hexjson> serde_json::from_slice::<KmerMinHash | KmerMinHashBTree>
//!   big <ffi|writer> <level> <desc>   LARGE signatures (6000-40000 hashes per sketch, > 128 KiB of JSON),
//!                              described by a generator (`desc`, see `big_sigs`) instead of listed: saved by
//!                              signatures_save_buffer(level) (`ffi`) or Signature::to_writer / serde_json::
//!                              to_writer into niffler's gzip writer at that level (`writer`), gunzipped by the
//!                              system gzip and compared with the plain text, read by a generic JSON reader
//!                              (serde_json::Value), loaded back through Signature::from_reader AND
//!                              signatures_load_buffer; the answer is `gz|plain eq|ne <digest>` with one digest
//!                              entry per (signature, sketch) when all three readings agree
//! plus the non-protocol mode `dump` used by translator/c06.py.
//!
//! sigspec grammar (no whitespace):
//!   siglist := '-' | sig ('+' sig)*
//!   sig     := class ';' email ';' hash_function ';' filename ';' name ';' license ';' version ';' sketches
//!              strings are hex(UTF-8) ('-' = empty), Option::None is '~', version = 16 hex digits (f64 bits)
//!   sketches:= '-' | sketch ('|' sketch)*
//!   sketch  := ('v'|'t'|'m') ':' num ':' ksize ':' seed ':' max_hash ':' mol ':' mins ':' abunds ':' md5
//!            | 'h' ':' p ':' q ':' ksize ':' registers(hex)
//!              mol = dna|protein|dayhoff|hp|x<hex> ; abunds = '~' | list ; md5 = ('c'|'n') hex(string)
//!              (c = cached in the Mutex, n = cache empty and md5sum() reports this value)
//!            | ('v'|'t') ':' …the same nine fields… ':' life
//!              a LIVED sketch: it is not assembled from the fields but produced by running `life` on the real
//!              API; the nine fields are the observation of the result (container, accessors, md5sum()) that
//!              `gen` made and that `exec` re-makes and compares (`bad-state` when it differs).  ksize, seed
//!              and mol of the fields are the creation parameters.
//!   life    := start ('.' op)*
//!   start   := ('V'|'T') ('0'|'1') 's' scaled 'n' num      KmerMinHash / KmerMinHashBTree ::new(scaled, ksize, hf, seed, track, num)
//!   op      := 'a' list            add_many                 | 'w' h 'x' a (',' h 'x' a)*   add_many_with_abund
//!            | 'e' h 'x' a         set_hash_with_abundance (vector only)
//!            | 'r' list            remove_many              | 'c'  clear
//!            | 'm'                 md5sum()                 | 'k'  replace by its clone()
//!            | 'g' '(' life ')'    merge(other)             | 'f' '(' life ')'  add_from(other)
//!            | 'R' '(' life ')'    remove_from(other)       | 'i' '(' life ')'  inflate(other) (vector only)
//!            | 'u'                 disable_abundance()      | 't'  enable_abundance()
//!            | 'l'                 saved inside a Signature (to_writer) and loaded back (from_reader)
//!            | 'j'                 serde_json::to_vec / from_slice of the sketch type itself (container kept)
//!            | 'x'                 From<KmerMinHashBTree> for KmerMinHash / From<KmerMinHash> for KmerMinHashBTree
//!            | 'd' scaled          downsample_scaled
//!              (`other` is brought to the container type of the receiver with the From impls; errors of
//!              merge / inflate / enable_abundance / downsample_scaled leave the sketch as it is)
use sourmash::encodings::HashFunctions;
use sourmash::ffi::signature::{signatures_load_buffer, signatures_save_buffer, SourmashSignature};
use sourmash::ffi::utils::ForeignObject;
use sourmash::prelude::*;
use sourmash::signature::{Signature, SigsTrait};
use sourmash::sketch::hyperloglog::HyperLogLog;
use sourmash::sketch::minhash::{KmerMinHash, KmerMinHashBTree};
use sourmash::sketch::Sketch;
use std::collections::{BTreeMap, BTreeSet};
use std::io::Write;
use std::sync::Mutex;
use verif_harness::*;

const DATA: &str = "/repo/tests/test-data";

// ------------------------------------------------------------------------------------------ spec types

#[derive(Clone, Debug, PartialEq)]
enum Mol {
    Dna,
    Protein,
    Dayhoff,
    Hp,
    Custom(String),
}

#[derive(Clone, Debug)]
struct Mh {
    kind: char, // 'v' vector, 't' tree, 'm' hidden
    num: u32,
    ksize: u32,
    seed: u64,
    max_hash: u64,
    mol: Mol,
    mins: Vec<u64>,
    abunds: Option<Vec<u64>>,
    md5: String,
    cached: bool,
    life: Option<String>,
}

#[derive(Clone, Debug)]
enum Sk {
    Mh(Mh),
    Hll { p: u64, q: u64, ksize: u64, regs: Vec<u8> },
}

#[derive(Clone, Debug)]
struct Sg {
    class: String,
    email: String,
    hash_function: String,
    filename: Option<String>,
    name: Option<String>,
    license: String,
    version: u64,
    sketches: Vec<Sk>,
}

fn hs(s: &str) -> String {
    hex(s.as_bytes())
}
fn uhs(s: &str) -> String {
    String::from_utf8(unhex(s)).unwrap()
}
fn hopt(s: &Option<String>) -> String {
    match s {
        None => "~".into(),
        Some(x) => hs(x),
    }
}
fn uhopt(s: &str) -> Option<String> {
    if s == "~" {
        None
    } else {
        Some(uhs(s))
    }
}

fn fmt_mol(m: &Mol) -> String {
    match m {
        Mol::Dna => "dna".into(),
        Mol::Protein => "protein".into(),
        Mol::Dayhoff => "dayhoff".into(),
        Mol::Hp => "hp".into(),
        Mol::Custom(s) => format!("x{}", hs(s)),
    }
}
fn parse_mol(s: &str) -> Mol {
    match s {
        "dna" => Mol::Dna,
        "protein" => Mol::Protein,
        "dayhoff" => Mol::Dayhoff,
        "hp" => Mol::Hp,
        _ => Mol::Custom(uhs(&s[1..])),
    }
}
fn mol_hf(m: &Mol) -> HashFunctions {
    match m {
        Mol::Dna => HashFunctions::Murmur64Dna,
        Mol::Protein => HashFunctions::Murmur64Protein,
        Mol::Dayhoff => HashFunctions::Murmur64Dayhoff,
        Mol::Hp => HashFunctions::Murmur64Hp,
        Mol::Custom(s) => HashFunctions::Custom(s.clone()),
    }
}
fn hf_mol(h: &HashFunctions) -> Mol {
    match h {
        HashFunctions::Murmur64Dna => Mol::Dna,
        HashFunctions::Murmur64Protein => Mol::Protein,
        HashFunctions::Murmur64Dayhoff => Mol::Dayhoff,
        HashFunctions::Murmur64Hp => Mol::Hp,
        HashFunctions::Custom(s) => Mol::Custom(s.clone()),
        _ => Mol::Custom("?".into()),
    }
}

fn fmt_sk(s: &Sk) -> String {
    match s {
        Sk::Mh(m) => format!(
            "{}:{}:{}:{}:{}:{}:{}:{}:{}{}{}",
            m.kind,
            m.num,
            m.ksize,
            m.seed,
            m.max_hash,
            fmt_mol(&m.mol),
            show_nats(m.mins.iter().copied()),
            match &m.abunds {
                None => "~".to_string(),
                Some(a) => show_nats(a.iter().copied()),
            },
            if m.cached { 'c' } else { 'n' },
            hs(&m.md5),
            match &m.life {
                None => String::new(),
                Some(l) => format!(":{}", l),
            }
        ),
        Sk::Hll { p, q, ksize, regs } => format!("h:{}:{}:{}:{}", p, q, ksize, hex(regs)),
    }
}
fn parse_sk(s: &str) -> Sk {
    let f: Vec<&str> = s.split(':').collect();
    if f[0] == "h" {
        return Sk::Hll {
            p: f[1].parse().unwrap(),
            q: f[2].parse().unwrap(),
            ksize: f[3].parse().unwrap(),
            regs: unhex(f[4]),
        };
    }
    Sk::Mh(Mh {
        kind: f[0].chars().next().unwrap(),
        num: f[1].parse().unwrap(),
        ksize: f[2].parse().unwrap(),
        seed: f[3].parse().unwrap(),
        max_hash: f[4].parse().unwrap(),
        mol: parse_mol(f[5]),
        mins: parse_nats(f[6]),
        abunds: if f[7] == "~" { None } else { Some(parse_nats(f[7])) },
        cached: f[8].starts_with('c'),
        md5: uhs(&f[8][1..]),
        life: f.get(9).map(|x| x.to_string()),
    })
}
fn fmt_sig(s: &Sg) -> String {
    let sk: Vec<String> = s.sketches.iter().map(fmt_sk).collect();
    format!(
        "{};{};{};{};{};{};{:016x};{}",
        hs(&s.class),
        hs(&s.email),
        hs(&s.hash_function),
        hopt(&s.filename),
        hopt(&s.name),
        hs(&s.license),
        s.version,
        if sk.is_empty() { "-".to_string() } else { sk.join("|") }
    )
}
fn parse_sig(s: &str) -> Sg {
    let f: Vec<&str> = s.split(';').collect();
    Sg {
        class: uhs(f[0]),
        email: uhs(f[1]),
        hash_function: uhs(f[2]),
        filename: uhopt(f[3]),
        name: uhopt(f[4]),
        license: uhs(f[5]),
        version: u64::from_str_radix(f[6], 16).unwrap(),
        sketches: if f[7] == "-" { vec![] } else { f[7].split('|').map(parse_sk).collect() },
    }
}
fn fmt_list(l: &[Sg]) -> String {
    if l.is_empty() {
        "-".into()
    } else {
        l.iter().map(fmt_sig).collect::<Vec<_>>().join("+")
    }
}
fn parse_list(s: &str) -> Vec<Sg> {
    if s == "-" {
        vec![]
    } else {
        s.split('+').map(parse_sig).collect()
    }
}
fn hide(mut l: Vec<Sg>) -> Vec<Sg> {
    for s in l.iter_mut() {
        for k in s.sketches.iter_mut() {
            if let Sk::Mh(m) = k {
                m.kind = 'm';
                m.cached = true;
                m.life = None;
            }
        }
    }
    l
}

// ------------------------------------------------------------------------------------------ build / observe

fn build_sk(s: &Sk) -> Sketch {
    match s {
        Sk::Mh(Mh { life: Some(l), ksize, seed, mol, .. }) => run_life(l, *ksize, *seed, mol).into_sketch(),
        Sk::Mh(m) if m.kind != 't' => Sketch::MinHash(
            KmerMinHash::builder()
                .num(m.num)
                .ksize(m.ksize)
                .hash_function(mol_hf(&m.mol))
                .seed(m.seed)
                .max_hash(m.max_hash)
                .mins(m.mins.clone())
                .abunds(m.abunds.clone())
                .md5sum(Mutex::new(if m.cached { Some(m.md5.clone()) } else { None }))
                .build(),
        ),
        Sk::Mh(m) => {
            let mins: BTreeSet<u64> = m.mins.iter().copied().collect();
            let abunds: Option<BTreeMap<u64, u64>> =
                m.abunds.as_ref().map(|a| m.mins.iter().copied().zip(a.iter().copied()).collect());
            Sketch::LargeMinHash(
                KmerMinHashBTree::builder()
                    .num(m.num)
                    .ksize(m.ksize)
                    .hash_function(mol_hf(&m.mol))
                    .seed(m.seed)
                    .max_hash(m.max_hash)
                    .current_max(mins.iter().next_back().copied().unwrap_or(0))
                    .mins(mins)
                    .abunds(abunds)
                    .md5sum(Mutex::new(if m.cached { Some(m.md5.clone()) } else { None }))
                    .build(),
            )
        }
        Sk::Hll { p, q, ksize, regs } => {
            // through the binary codec (independent of serde): "HLL" 1 p q ksize registers
            let mut b = vec![b'H', b'L', b'L', 1, *p as u8, *q as u8, *ksize as u8];
            b.extend_from_slice(regs);
            Sketch::HyperLogLog(HyperLogLog::from_reader(&b[..]).unwrap())
        }
    }
}


// ------------------------------------------------------------------------------------------ lived sketches

enum Live {
    V(KmerMinHash),
    T(KmerMinHashBTree),
}

impl Live {
    fn into_sketch(self) -> Sketch {
        match self {
            Live::V(m) => Sketch::MinHash(m),
            Live::T(m) => Sketch::LargeMinHash(m),
        }
    }
    fn is_vec(&self) -> bool {
        matches!(self, Live::V(_))
    }
    /// the other container type, through the crate's own `From` impls
    fn convert(self) -> Live {
        match self {
            Live::V(m) => Live::T(KmerMinHashBTree::from(m)),
            Live::T(m) => Live::V(KmerMinHash::from(m)),
        }
    }
}

struct LifeParser<'a> {
    s: &'a [u8],
    i: usize,
}
impl<'a> LifeParser<'a> {
    fn peek(&self) -> Option<u8> {
        self.s.get(self.i).copied()
    }
    fn ch(&mut self) -> u8 {
        let c = self.s[self.i];
        self.i += 1;
        c
    }
    fn expect(&mut self, c: u8) {
        assert_eq!(self.ch(), c, "life syntax at byte {}", self.i - 1);
    }
    fn num(&mut self) -> u64 {
        let st = self.i;
        while matches!(self.peek(), Some(b'0'..=b'9')) {
            self.i += 1;
        }
        std::str::from_utf8(&self.s[st..self.i]).unwrap().parse().unwrap()
    }
    fn list(&mut self) -> Vec<u64> {
        let mut v = vec![];
        if self.peek() == Some(b'-') {
            self.i += 1;
            return v;
        }
        loop {
            v.push(self.num());
            if self.peek() == Some(b',') {
                self.i += 1;
            } else {
                return v;
            }
        }
    }
    fn pairs(&mut self) -> Vec<(u64, u64)> {
        let mut v = vec![];
        loop {
            let h = self.num();
            self.expect(b'x');
            let a = self.num();
            v.push((h, a));
            if self.peek() == Some(b',') {
                self.i += 1;
            } else {
                return v;
            }
        }
    }
}

/// save inside a signature with the real writer, load with the real reader
fn via_signature(sk: Sketch) -> Live {
    let sig = Signature::builder()
        .hash_function("0.murmur64")
        .filename(Some("life.fa".into()))
        .name(None)
        .signatures(vec![sk])
        .build();
    let mut b = vec![];
    sig.to_writer(&mut b).unwrap();
    let mut l = Signature::from_reader(&b[..]).unwrap();
    match l.swap_remove(0).sketches().swap_remove(0) {
        Sketch::MinHash(m) => Live::V(m),
        Sketch::LargeMinHash(m) => Live::T(m),
        _ => panic!("sketch came back as HyperLogLog"),
    }
}

fn life_steps(p: &mut LifeParser, ksize: u32, seed: u64, mol: &Mol) -> Live {
    let kind = p.ch();
    let track = p.ch() == b'1';
    p.expect(b's');
    let scaled = p.num();
    p.expect(b'n');
    let num = p.num() as u32;
    let mut cur = match kind {
        b'V' => Live::V(KmerMinHash::new(scaled, ksize, mol_hf(mol), seed, track, num)),
        b'T' => Live::T(KmerMinHashBTree::new(scaled, ksize, mol_hf(mol), seed, track, num)),
        _ => panic!("life syntax: container"),
    };
    while p.peek() == Some(b'.') {
        p.i += 1;
        let op = p.ch();
        // the operand sketch of a binary op, in the receiver's container type
        let operand = |p: &mut LifeParser, vec: bool| -> Live {
            p.expect(b'(');
            let o = life_steps(p, ksize, seed, mol);
            p.expect(b')');
            if o.is_vec() == vec { o } else { o.convert() }
        };
        match op {
            b'a' => {
                let l = p.list();
                match &mut cur {
                    Live::V(m) => m.add_many(&l).unwrap(),
                    Live::T(m) => m.add_many(&l).unwrap(),
                }
            }
            b'w' => {
                let l = p.pairs();
                match &mut cur {
                    Live::V(m) => m.add_many_with_abund(&l).unwrap(),
                    Live::T(m) => m.add_many_with_abund(&l).unwrap(),
                }
            }
            b'e' => {
                let l = p.pairs();
                if let Live::V(m) = &mut cur {
                    for (h, a) in l {
                        m.set_hash_with_abundance(h, a);
                    }
                }
            }
            b'r' => {
                let l = p.list();
                match &mut cur {
                    Live::V(m) => m.remove_many(l).unwrap(),
                    Live::T(m) => m.remove_many(l).unwrap(),
                }
            }
            b'c' => match &mut cur {
                Live::V(m) => m.clear(),
                Live::T(m) => m.clear(),
            },
            b'm' => {
                match &cur {
                    Live::V(m) => m.md5sum(),
                    Live::T(m) => m.md5sum(),
                };
            }
            b'k' => {
                cur = match &cur {
                    Live::V(m) => Live::V(m.clone()),
                    Live::T(m) => Live::T(m.clone()),
                }
            }
            b'g' | b'f' | b'R' | b'i' => {
                let o = operand(p, cur.is_vec());
                match (&mut cur, &o) {
                    (Live::V(m), Live::V(o)) => match op {
                        b'g' => {
                            let _ = m.merge(o);
                        }
                        b'f' => m.add_from(o).unwrap(),
                        b'R' => m.remove_from(o).unwrap(),
                        _ => {
                            let _ = m.inflate(o);
                        }
                    },
                    (Live::T(m), Live::T(o)) => match op {
                        b'g' => {
                            let _ = m.merge(o);
                        }
                        b'f' => m.add_from(o).unwrap(),
                        b'R' => m.remove_many(o.mins()).unwrap(),
                        _ => {}
                    },
                    _ => unreachable!(),
                }
            }
            b'u' => match &mut cur {
                Live::V(m) => m.disable_abundance(),
                Live::T(m) => m.disable_abundance(),
            },
            b't' => {
                let _ = match &mut cur {
                    Live::V(m) => m.enable_abundance(),
                    Live::T(m) => m.enable_abundance(),
                };
            }
            b'l' => cur = via_signature(cur.into_sketch()),
            b'j' => {
                cur = match &cur {
                    Live::V(m) => Live::V(serde_json::from_slice(&serde_json::to_vec(m).unwrap()).unwrap()),
                    Live::T(m) => Live::T(serde_json::from_slice(&serde_json::to_vec(m).unwrap()).unwrap()),
                }
            }
            b'x' => cur = cur.convert(),
            b'd' => {
                let sc = p.num();
                cur = match cur {
                    Live::V(m) => {
                        let keep = m.clone();
                        Live::V(m.downsample_scaled(sc).unwrap_or(keep))
                    }
                    Live::T(m) => {
                        let keep = m.clone();
                        Live::T(m.downsample_scaled(sc).unwrap_or(keep))
                    }
                }
            }
            _ => panic!("life syntax: op {}", op as char),
        }
    }
    cur
}

fn run_life(life: &str, ksize: u32, seed: u64, mol: &Mol) -> Live {
    let mut p = LifeParser { s: life.as_bytes(), i: 0 };
    let l = life_steps(&mut p, ksize, seed, mol);
    assert_eq!(p.i, p.s.len(), "life syntax: trailing text");
    l
}

/// a lived sketch must be, after the real save, exactly what the request line says it is
fn same_obs(spec: &Mh, real: &Sketch) -> bool {
    match observe_sk(real) {
        Sk::Mh(o) => {
            o.kind == spec.kind
                && o.num == spec.num
                && o.ksize == spec.ksize
                && o.seed == spec.seed
                && o.max_hash == spec.max_hash
                && o.mol == spec.mol
                && o.mins == spec.mins
                && o.abunds == spec.abunds
                && o.md5 == spec.md5
        }
        _ => false,
    }
}

fn build(s: &Sg) -> Signature {
    Signature::builder()
        .class(s.class.clone())
        .email(s.email.clone())
        .hash_function(s.hash_function.clone())
        .filename(s.filename.clone())
        .name(s.name.clone())
        .license(s.license.clone())
        .signatures(s.sketches.iter().map(build_sk).collect())
        .version(f64::from_bits(s.version))
        .build()
}

/// one Rust-`Debug` string literal starting at `s[0] == '"'`: (unescaped, rest after the closing quote)
fn debug_str(s: &str) -> (String, &str) {
    let mut out = String::new();
    let mut it = s.char_indices();
    assert_eq!(it.next().map(|x| x.1), Some('"'));
    while let Some((i, c)) = it.next() {
        match c {
            '"' => return (out, &s[i + 1..]),
            '\\' => {
                let (_, e) = it.next().unwrap();
                match e {
                    'n' => out.push('\n'),
                    'r' => out.push('\r'),
                    't' => out.push('\t'),
                    '0' => out.push('\0'),
                    'u' => {
                        let mut v = 0u32;
                        it.next(); // {
                        for (_, h) in it.by_ref() {
                            if h == '}' {
                                break;
                            }
                            v = v * 16 + h.to_digit(16).unwrap();
                        }
                        out.push(char::from_u32(v).unwrap());
                    }
                    x => out.push(x),
                }
            }
            x => out.push(x),
        }
    }
    panic!("unterminated debug string")
}
fn debug_opt(s: &str) -> (Option<String>, &str) {
    if let Some(r) = s.strip_prefix("None") {
        (None, r)
    } else {
        let r = s.strip_prefix("Some(").unwrap();
        let (v, r) = debug_str(r);
        (Some(v), r.strip_prefix(')').unwrap())
    }
}

fn observe_sk(s: &Sketch) -> Sk {
    match s {
        Sketch::MinHash(m) => Sk::Mh(Mh {
            kind: 'v',
            num: m.num(),
            ksize: m.ksize() as u32,
            seed: m.seed(),
            max_hash: m.max_hash(),
            mol: hf_mol(&m.hash_function()),
            mins: m.mins(),
            abunds: m.abunds(),
            md5: m.md5sum(),
            cached: true,
            life: None,
        }),
        Sketch::LargeMinHash(m) => Sk::Mh(Mh {
            kind: 't',
            num: m.num(),
            ksize: m.ksize() as u32,
            seed: m.seed(),
            max_hash: m.max_hash(),
            mol: hf_mol(&m.hash_function()),
            mins: m.mins(),
            abunds: m.abunds(),
            md5: m.md5sum(),
            cached: true,
            life: None,
        }),
        Sketch::HyperLogLog(h) => {
            let mut b = vec![];
            h.save_to_writer(&mut b).unwrap();
            Sk::Hll { p: b[4] as u64, q: b[5] as u64, ksize: b[6] as u64, regs: b[7..].to_vec() }
        }
    }
}

/// API-level observation: accessors, `Debug` (no serde involved) for the two `Option`s and the version
fn observe(sig: &Signature) -> Sg {
    let d = format!("{:?}", sig);
    let r = d.strip_prefix("Signature { class: ").unwrap();
    let (class, r) = debug_str(r);
    let (email, r) = debug_str(r.strip_prefix(", email: ").unwrap());
    let (hfn, r) = debug_str(r.strip_prefix(", hash_function: ").unwrap());
    let (filename, r) = debug_opt(r.strip_prefix(", filename: ").unwrap());
    let (name, r) = debug_opt(r.strip_prefix(", name: ").unwrap());
    let (license, _) = debug_str(r.strip_prefix(", license: ").unwrap());
    let vpos = d.rfind(", version: ").unwrap();
    let version: f64 = d[vpos + 11..].strip_suffix(" }").unwrap().parse().unwrap();
    // cross-check against the accessors
    assert_eq!(class, sig.class());
    assert_eq!(email, sig.email());
    assert_eq!(hfn, sig.hash_function());
    assert_eq!(license, sig.license());
    assert_eq!(filename.clone().unwrap_or_default(), sig.filename());
    if let Some(n) = &name {
        assert_eq!(*n, sig.name());
    } else {
        let mut probe = sig.clone();
        probe.set_filename("\u{1}probe");
        assert_eq!(probe.name(), "\u{1}probe");
    }
    Sg {
        class,
        email,
        hash_function: hfn,
        filename,
        name,
        license,
        version: version.to_bits(),
        sketches: sig.iter().map(observe_sk).collect(),
    }
}
fn observe_all(l: &[Signature]) -> Vec<Sg> {
    l.iter().map(observe).collect()
}

/// what the sketches of the built signatures really look like (reported next to `bad-state`)
fn actual_state(sigs: &[Signature]) -> String {
    let v: Vec<String> = sigs
        .iter()
        .map(|g| {
            let k: Vec<String> = g.iter().map(|k| fmt_sk(&observe_sk(k))).collect();
            if k.is_empty() { "-".to_string() } else { k.join("|") }
        })
        .collect();
    if v.is_empty() { "-".into() } else { v.join("+") }
}

/// after an op: every `n` (uncached) sketch must report exactly the md5 the request line says, every lived
/// sketch must show exactly the observation the request line says
fn state_ok(specs: &[Sg], sigs: &[Signature]) -> bool {
    for (s, g) in specs.iter().zip(sigs) {
        for (k, r) in s.sketches.iter().zip(g.iter()) {
            if let Sk::Mh(m) = k {
                if m.life.is_some() {
                    if !same_obs(m, r) {
                        return false;
                    }
                    continue;
                }
                let got = match r {
                    Sketch::MinHash(x) => x.md5sum(),
                    Sketch::LargeMinHash(x) => x.md5sum(),
                    _ => return false,
                };
                if got != m.md5 {
                    return false;
                }
            }
        }
    }
    true
}

// ------------------------------------------------------------------------------------------ real writers / readers

fn err_name(e: &sourmash::Error) -> String {
    let d = format!("{:?}", e);
    let n: String = d.chars().take_while(|c| c.is_alphanumeric()).collect();
    format!("err {}", n)
}

/// `signatures_save_buffer` (the exported function itself)
fn ffi_save(sigs: &[Signature], level: u8) -> Option<Vec<u8>> {
    unsafe {
        let ptrs: Vec<*const SourmashSignature> = sigs.iter().map(|s| SourmashSignature::from_ref(s)).collect();
        let mut n: usize = 0;
        let p = signatures_save_buffer(ptrs.as_ptr(), ptrs.len(), level, &mut n);
        if p.is_null() {
            return None;
        }
        let b: Box<[u8]> = Box::from_raw(std::slice::from_raw_parts_mut(p as *mut u8, n));
        Some(b.into_vec())
    }
}

/// `signatures_load_buffer` (the exported function itself)
fn ffi_load(buf: &[u8], k: usize, mol: Option<&str>) -> Option<Vec<Signature>> {
    unsafe {
        let c = mol.map(|m| std::ffi::CString::new(m).unwrap());
        let mut n: usize = 0;
        let p = signatures_load_buffer(
            buf.as_ptr() as *const std::os::raw::c_char,
            buf.len(),
            false,
            k,
            c.as_ref().map(|x| x.as_ptr()).unwrap_or(std::ptr::null()),
            &mut n,
        );
        if p.is_null() {
            return None;
        }
        let b: Box<[*mut SourmashSignature]> = Box::from_raw(std::slice::from_raw_parts_mut(p, n));
        Some(b.iter().map(|x| *SourmashSignature::into_rust(*x)).collect())
    }
}

/// the plain JSON text of a list: `Signature::to_writer` for one signature (and it must agree with the
/// exported list writer), the exported list writer otherwise
fn save_plain(sigs: &[Signature]) -> Result<Vec<u8>, String> {
    let viaffi = ffi_save(sigs, 0).ok_or("ffi-save-failed")?;
    if sigs.len() == 1 {
        let mut b = vec![];
        sigs[0].to_writer(&mut b).map_err(|e| err_name(&e))?;
        if b != viaffi {
            return Err("writers-disagree".into());
        }
    }
    Ok(viaffi)
}

fn gunzip(b: &[u8]) -> Option<Vec<u8>> {
    use std::process::{Command, Stdio};
    let mut ch = Command::new("gzip")
        .arg("-dc")
        .stdin(Stdio::piped())
        .stdout(Stdio::piped())
        .stderr(Stdio::null())
        .spawn()
        .ok()?;
    let mut si = ch.stdin.take()?;
    let data = b.to_vec();
    let t = std::thread::spawn(move || {
        let _ = si.write_all(&data);
    });
    let out = ch.wait_with_output().ok()?;
    let _ = t.join();
    if out.status.success() {
        Some(out.stdout)
    } else {
        None
    }
}

fn show_load(r: Result<Vec<Signature>, sourmash::Error>) -> String {
    match r {
        Ok(l) => fmt_list(&observe_all(&l)),
        Err(e) => err_name(&e),
    }
}

/// per signature `k:mins:abunds` of every sketch
fn show_fmt(r: Result<Vec<Signature>, sourmash::Error>) -> String {
    match r {
        Ok(l) => {
            let v: Vec<String> = observe_all(&l)
                .iter()
                .map(|s| {
                    let k: Vec<String> = s
                        .sketches
                        .iter()
                        .map(|k| match k {
                            Sk::Mh(m) => format!(
                                "{}:{}:{}",
                                m.ksize,
                                show_nats(m.mins.iter().copied()),
                                match &m.abunds {
                                    None => "~".into(),
                                    Some(a) => show_nats(a.iter().copied()),
                                }
                            ),
                            Sk::Hll { .. } => "h".into(),
                        })
                        .collect();
                    if k.is_empty() { "-".to_string() } else { k.join("|") }
                })
                .collect();
            if v.is_empty() { "-".into() } else { v.join("+") }
        }
        Err(e) => err_name(&e),
    }
}

fn read_data(rel: &str) -> (Vec<u8>, Vec<u8>) {
    let raw = std::fs::read(format!("{}/{}", DATA, rel)).unwrap();
    let plain = if raw.starts_with(&[0x1f, 0x8b]) { gunzip(&raw).unwrap() } else { raw.clone() };
    (raw, plain)
}

// ------------------------------------------------------------------------------------------ big signatures

fn lcg_next(x: u64) -> u64 {
    x.wrapping_mul(6364136223846793005).wrapping_add(1442695040888963407)
}

/// `desc := sig ('+' sig)*`, `sig := hex(name) ';' sketch ('|' sketch)*`,
/// `sketch := ('v'|'t') ':' n ':' track ':' seed ':' scaled ':' ksize`: `new(scaled, ksize, dna, 42, track, 0)`
/// fed (in ascending order, one add_many / add_many_with_abund call) the `n` values of the LCG started at
/// `seed`, abundance `1 + h % 3`
fn big_sigs(desc: &str) -> Vec<Signature> {
    desc.split('+')
        .map(|g| {
            let (name, sks) = g.split_once(';').unwrap();
            let sketches: Vec<Sketch> = sks
                .split('|')
                .map(|d| {
                    let f: Vec<&str> = d.split(':').collect();
                    let p = |i: usize| -> u64 { f[i].parse().unwrap() };
                    let (n, track, seed, scaled, ksize) = (p(1), f[2] == "1", p(3), p(4), p(5) as u32);
                    let mut x = seed;
                    let mut hs: Vec<u64> = (0..n)
                        .map(|_| {
                            x = lcg_next(x);
                            x
                        })
                        .collect();
                    hs.sort_unstable();
                    if f[0] == "t" {
                        let mut m = KmerMinHashBTree::new(scaled, ksize, HashFunctions::Murmur64Dna, 42, track, 0);
                        if track {
                            m.add_many_with_abund(&hs.iter().map(|h| (*h, 1 + h % 3)).collect::<Vec<_>>()).unwrap();
                        } else {
                            m.add_many(&hs).unwrap();
                        }
                        Sketch::LargeMinHash(m)
                    } else {
                        let mut m = KmerMinHash::new(scaled, ksize, HashFunctions::Murmur64Dna, 42, track, 0);
                        if track {
                            m.add_many_with_abund(&hs.iter().map(|h| (*h, 1 + h % 3)).collect::<Vec<_>>()).unwrap();
                        } else {
                            m.add_many(&hs).unwrap();
                        }
                        Sketch::MinHash(m)
                    }
                })
                .collect();
            let mut g = default_sig(vec![]);
            g.name = Some(uhs(name));
            let mut sig = build(&g);
            for k in sketches {
                sig.push(k);
            }
            sig
        })
        .collect()
}

fn digest_fields(name: &Option<String>, ksize: u64, num: u64, mh: u64, mins: &[u64], abunds: Option<&[u64]>, md5: &str) -> String {
    let x = mins.iter().fold(0u64, |x, h| x ^ h);
    let ab = match abunds {
        None => "s=~,m=~".to_string(),
        Some(a) => {
            let s: u128 = a.iter().map(|v| *v as u128).sum();
            let m = mins.iter().zip(a.iter()).fold(0u64, |x, (h, a)| x ^ h.wrapping_mul(a.wrapping_mul(2).wrapping_add(1)));
            format!("s={},m={}", s, m)
        }
    };
    format!("{}/k={},num={},mh={},n={},x={},{},md5={}", hopt(name), ksize, num, mh, mins.len(), x, ab, md5)
}

/// one entry per (signature, sketch), read through the accessors of the loaded sketches
fn digest_sigs(l: &[Signature]) -> String {
    let mut v = vec![];
    for g in l {
        for k in g.sketches() {
            v.push(match &k {
                Sketch::MinHash(m) => digest_fields(&Some(g.name()), m.ksize() as u64, m.num() as u64, m.max_hash(), &m.mins(), m.abunds().as_deref(), &m.md5sum()),
                Sketch::LargeMinHash(m) => digest_fields(&Some(g.name()), m.ksize() as u64, m.num() as u64, m.max_hash(), &m.mins(), m.abunds().as_deref(), &m.md5sum()),
                _ => format!("{}/h", hopt(&Some(g.name()))),
            });
        }
    }
    if v.is_empty() { "-".into() } else { v.join("|") }
}

/// the same digest taken from the written TEXT by a generic JSON reader (serde_json::Value): the keys the
/// format publishes, nothing of the crate's Deserialize impls
fn digest_doc(text: &[u8]) -> String {
    let v: serde_json::Value = match serde_json::from_slice(text) {
        Ok(v) => v,
        Err(_) => return "unparsable".into(),
    };
    let mut out = vec![];
    let nums = |j: &serde_json::Value| -> Option<Vec<u64>> { j.as_array()?.iter().map(|x| x.as_u64()).collect() };
    for g in v.as_array().map(|a| a.as_slice()).unwrap_or(&[]) {
        let name = g.get("name").and_then(|n| n.as_str()).map(|s| s.to_string());
        for k in g.get("signatures").and_then(|a| a.as_array()).map(|a| a.as_slice()).unwrap_or(&[]) {
            let u = |key: &str| k.get(key).and_then(|x| x.as_u64());
            let (Some(ksize), Some(num), Some(mh), Some(mins)) = (u("ksize"), u("num"), u("max_hash"), k.get("mins").and_then(nums)) else {
                out.push("bad-sketch".to_string());
                continue;
            };
            let ab = k.get("abundances").and_then(nums);
            let md5 = k.get("md5sum").and_then(|x| x.as_str()).unwrap_or("?");
            out.push(digest_fields(&name, ksize, num, mh, &mins, ab.as_deref(), md5));
        }
    }
    if out.is_empty() { "-".into() } else { out.join("|") }
}

fn niffler_level(level: u8) -> niffler::compression::Level {
    use niffler::compression::Level::*;
    match level {
        1 => One,
        2 => Two,
        3 => Three,
        4 => Four,
        5 => Five,
        6 => Six,
        7 => Seven,
        8 => Eight,
        _ => Nine,
    }
}

fn big_step(route: &str, level: u8, desc: &str) -> String {
    let sigs = big_sigs(desc);
    let plain = match save_plain(&sigs) {
        Ok(b) => b,
        Err(e) => return e,
    };
    let z: Vec<u8> = match route {
        "ffi" => match ffi_save(&sigs, level) {
            Some(z) => z,
            None => return "ffi-save-failed".into(),
        },
        "writer" => {
            let mut buf = vec![];
            {
                let mut w = match niffler::get_writer(Box::new(&mut buf), niffler::compression::Format::Gzip, niffler_level(level)) {
                    Ok(w) => w,
                    Err(_) => return "err NifflerError".into(),
                };
                let r = if sigs.len() == 1 {
                    sigs[0].to_writer(&mut w).map_err(|e| err_name(&e))
                } else {
                    serde_json::to_writer(&mut w, &sigs).map_err(|_| "err SerdeError".to_string())
                };
                if let Err(e) = r {
                    return e;
                }
            }
            buf
        }
        _ => return "bad-op".into(),
    };
    let isgz = z.starts_with(&[0x1f, 0x8b]);
    let un = if isgz { gunzip(&z) } else { Some(z.clone()) };
    let eq = un.as_deref() == Some(&plain[..]);
    let doc = match &un {
        Some(t) => digest_doc(t),
        None => "gunzip-failed".into(),
    };
    let rdr = match Signature::from_reader(&z[..]) {
        Ok(l) => digest_sigs(&l),
        Err(e) => err_name(&e),
    };
    let ffi = match ffi_load(&z, 0, None) {
        Some(l) => digest_sigs(&l),
        None => "ffi-load-failed".into(),
    };
    let head = format!("{} {}", if isgz { "gz" } else { "plain" }, if eq { "eq" } else { "ne" });
    if doc == rdr && rdr == ffi {
        format!("{} {}", head, rdr)
    } else {
        let cut = |s: &str| -> String { s.chars().take(300).collect() };
        format!("{} readings-differ len={} doc={} rdr={} ffi={}", head, un.map(|u| u.len()).unwrap_or(0), cut(&doc), cut(&rdr), cut(&ffi))
    }
}

fn step(_: &mut (), ws: &[&str]) -> String {
    match ws[0] {
        "case" => "ok".into(),
        "save" => {
            let specs = parse_list(ws[1]);
            let sigs: Vec<Signature> = specs.iter().map(build).collect();
            match save_plain(&sigs) {
                Ok(b) => {
                    if !state_ok(&specs, &sigs) {
                        format!("bad-state {}", actual_state(&sigs))
                    } else if hex(&b) == ws[2] {
                        "same".into()
                    } else {
                        format!("differs {}", hex(&b))
                    }
                }
                Err(e) => e,
            }
        }
        "roundtrip" | "rtypes" => {
            let specs = parse_list(ws[1]);
            let sigs: Vec<Signature> = specs.iter().map(build).collect();
            let b = match save_plain(&sigs) {
                Ok(b) => b,
                Err(e) => return e,
            };
            if !state_ok(&specs, &sigs) {
                return format!("bad-state {}", actual_state(&sigs));
            }
            match Signature::from_reader(&b[..]) {
                Ok(l) => {
                    let o = observe_all(&l);
                    if ws[0] == "rtypes" {
                        let t: String = o
                            .iter()
                            .map(|s| {
                                s.sketches
                                    .iter()
                                    .map(|k| match k {
                                        Sk::Mh(m) => m.kind,
                                        _ => 'h',
                                    })
                                    .collect::<String>()
                            })
                            .map(|x| if x.is_empty() { "-".to_string() } else { x })
                            .collect::<Vec<_>>()
                            .join("+");
                        if t.is_empty() { "-".into() } else { t }
                    } else {
                        fmt_list(&hide(o))
                    }
                }
                Err(e) => err_name(&e),
            }
        }
        "gz" => {
            let level: u8 = ws[1].parse().unwrap();
            let specs = parse_list(ws[2]);
            let sigs: Vec<Signature> = specs.iter().map(build).collect();
            let plain = match save_plain(&sigs) {
                Ok(b) => b,
                Err(e) => return e,
            };
            let z = match ffi_save(&sigs, level) {
                Some(z) => z,
                None => return "ffi-save-failed".into(),
            };
            let isgz = z.starts_with(&[0x1f, 0x8b]);
            let un = if isgz { gunzip(&z) } else { Some(z.clone()) };
            let eq = un.as_deref() == Some(&plain[..]);
            let back = match Signature::from_reader(&z[..]) {
                Ok(l) => fmt_list(&hide(observe_all(&l))),
                Err(e) => err_name(&e),
            };
            format!("{} {} {}", if isgz { "gz" } else { "plain" }, if eq { "eq" } else { "ne" }, back)
        }
        "big" => big_step(ws[1], ws[2].parse().unwrap(), ws[3]),
        "load" => show_load(Signature::from_reader(&unhex(ws[1])[..])),
        "legacy" => show_fmt(Signature::from_reader(&unhex(ws[1])[..])),
        "file" | "filefmt" => {
            let (_, plain) = read_data(ws[1]);
            if hex(&plain) != ws[2] {
                return "file-changed".into();
            }
            let r = Signature::from_path(format!("{}/{}", DATA, ws[1]));
            if ws[0] == "file" { show_load(r) } else { show_fmt(r) }
        }
        "filter" => {
            let k: usize = ws[1].parse().unwrap();
            let mol = if ws[2] == "any" { None } else { Some(ws[2]) };
            let specs = parse_list(ws[3]);
            let sigs: Vec<Signature> = specs.iter().map(build).collect();
            let b = match save_plain(&sigs) {
                Ok(b) => b,
                Err(e) => return e,
            };
            let hf = mol.map(|m| HashFunctions::try_from(m).unwrap());
            let r = Signature::load_signatures(&b[..], if k == 0 { None } else { Some(k) }, hf, None);
            let direct = match r {
                Ok(l) => fmt_list(&hide(observe_all(&l))),
                Err(e) => return err_name(&e),
            };
            let via = match ffi_load(&b, k, mol) {
                Some(l) => fmt_list(&hide(observe_all(&l))),
                None => "ffi-load-failed".into(),
            };
            if via == direct { direct } else { format!("ffi-differs {} {}", direct, via) }
        }
        "loadvec" => match serde_json::from_slice::<KmerMinHash>(&unhex(ws[1])) {
            Ok(m) => fmt_sk(&observe_sk(&Sketch::MinHash(m))),
            Err(_) => "err SerdeError".into(),
        },
        "loadtree" => match serde_json::from_slice::<KmerMinHashBTree>(&unhex(ws[1])) {
            Ok(m) => fmt_sk(&observe_sk(&Sketch::LargeMinHash(m))),
            Err(_) => "err SerdeError".into(),
        },
        _ => "bad-op".into(),
    }
}

// ------------------------------------------------------------------------------------------ generators

const STRS: &[&str] = &[
    "",
    "a",
    "genome-s10.fa.gz",
    "NC_009665.1 Shewanella baltica OS185, complete genome",
    "with \"double\" and 'single' quotes",
    "back\\slash \\n not a newline",
    "line1\nline2\r\n\ttabbed",
    "ctrl \u{1}\u{8}\u{c}\u{1f}\u{7f} chars",
    "caf\u{e9} na\u{ef}ve \u{fc}ber",
    "\u{4e2d}\u{6587}\u{540d}\u{79f0}",
    "emoji \u{1f9ec}\u{1f600} astral \u{10ffff}",
    "sep \u{2028}\u{2029} bom \u{feff} edge \u{d7ff}\u{e000}\u{ffff}",
    "rtl \u{5d0}\u{5d1} combining e\u{301}\u{308}",
    "{\"json\":[1,2,{\"x\":null}]}",
    "/",
    "</script>",
    "~",
    "-",
    ";|+:,",
];

fn rstr(r: &mut Rng) -> String {
    match r.below(8) {
        0..=4 => r.pick(STRS).to_string(),
        5 => {
            // random scalar values (NUL-free), any plane
            let n = r.range(1, 12);
            (0..n)
                .map(|_| loop {
                    let b = r.range(1, 21) as u32;
                    let v = (r.next() as u32) & ((1u32 << b) - 1);
                    if v == 0 {
                        continue;
                    }
                    if let Some(c) = char::from_u32(v) {
                        break c;
                    }
                })
                .collect()
        }
        6 => format!("{}{}", r.pick(STRS), r.pick(STRS)),
        _ => {
            let n = r.range(1, 40);
            (0..n).map(|_| (r.range(0x20, 0x7e) as u8) as char).collect()
        }
    }
}

fn rhash(r: &mut Rng, ceil: u64) -> u64 {
    let v = match r.below(10) {
        0 => u64::MAX,
        1 => 0,
        2 => (1u64 << r.range(0, 63)).wrapping_sub(r.below(2)),
        3 => u64::MAX - r.below(3),
        4 => (1u64 << 53) + r.below(3),
        _ => r.bits(64),
    };
    if ceil != 0 && r.chance(7, 8) { v % ceil.max(1) } else { v }
}

const VERSIONS: &[f64] = &[0.4, 0.4, 0.4, 0.4, 0.5, 1.0, 2.0, 0.25, 0.1, 1.5, 3.25, 100.0, 0.001];

fn real_md5(m: &Mh) -> String {
    let mut x = m.clone();
    x.cached = false;
    match build_sk(&Sk::Mh(x)) {
        Sketch::MinHash(s) => s.md5sum(),
        Sketch::LargeMinHash(s) => s.md5sum(),
        _ => unreachable!(),
    }
}

fn rmh(r: &mut Rng, kind: char) -> Mh {
    let ksize = match r.below(8) {
        0 => *r.pick(&[0u32, 1, 2, u32::MAX, u32::MAX - 1, 1 << 31]),
        1 => r.bits(32) as u32,
        _ => *r.pick(&[21u32, 31, 51, 7, 10, 30, 57, 63]),
    };
    let seed = match r.below(6) {
        0 => *r.pick(&[0u64, 1, u64::MAX, 1 << 63]),
        1 => r.bits(64),
        _ => 42,
    };
    // a sketch is a num sketch or a scaled sketch (or the never-filled 0/0)
    let (num, max_hash) = match r.below(10) {
        0 => (0u32, 0u64),
        1..=4 => (*r.pick(&[1u32, 5, 500, 1000, u32::MAX, 1 << 31]), 0u64),
        5 => (0, u64::MAX),
        6 => (0, r.bits(64).max(1)),
        _ => (0, u64::MAX / *r.pick(&[1000u64, 10000, 100, 1, 2, 3, 93])),
    };
    let n = match r.below(6) {
        0 => 0,
        1 => 1,
        5 => r.range(20, 60),
        _ => r.range(2, 12),
    };
    let mut set = BTreeSet::new();
    for _ in 0..n {
        set.insert(rhash(r, max_hash));
    }
    let mins: Vec<u64> = set.into_iter().collect();
    let abunds = if r.chance(1, 2) {
        Some(
            mins.iter()
                .map(|_| match r.below(6) {
                    0 => u64::MAX,
                    1 => 1,
                    2 => r.bits(64).max(1),
                    _ => r.range(1, 300),
                })
                .collect(),
        )
    } else {
        None
    };
    let mol = r.pick(&[Mol::Dna, Mol::Dna, Mol::Protein, Mol::Dayhoff, Mol::Hp]).clone();
    let mut m = Mh { kind, num, ksize, seed, max_hash, mol, mins, abunds, md5: String::new(), cached: false, life: None };
    match r.below(10) {
        0 => {
            // whatever a loaded file carried: stored as given
            m.cached = true;
            m.md5 = if r.chance(1, 2) { rstr(r) } else { format!("{:032x}", r.next() as u128 * r.next() as u128) };
        }
        1..=4 => {
            m.md5 = real_md5(&m);
            m.cached = true;
        }
        _ => m.md5 = real_md5(&m),
    }
    m
}


// ---- lived sketches: histories over a small universe of hashes so that collisions, truncation by `num`
// ---- and the `max_hash` cut happen all the time

struct LifeCtx {
    scaled: u64,
    num: u32,
    univ: Vec<u64>,
}

fn life_hashes(r: &mut Rng, c: &LifeCtx, lo: u64, hi: u64) -> Vec<u64> {
    let n = r.range(lo, hi);
    (0..n).map(|_| *r.pick(&c.univ)).collect()
}
fn life_abund(r: &mut Rng) -> u64 {
    match r.below(12) {
        0 => 0,
        1 => (1u64 << 56) + r.below(3),
        2 => 1,
        _ => r.range(1, 9),
    }
}
fn life_start(r: &mut Rng, c: &LifeCtx, kind: char, track: bool, top: bool) -> String {
    // operands mostly agree with the receiver; now and then another num (merge accepts it), another
    // scaled (merge refuses it), the other abundance mode or the other container
    let kind = if !top && r.chance(1, 8) { if kind == 'V' { 'T' } else { 'V' } } else { kind };
    let track = if !top && r.chance(1, 6) { !track } else { track };
    let scaled = if !top && r.chance(1, 20) { *r.pick(&[0u64, 1, 2, 1000]) } else { c.scaled };
    let num = if !top && c.num != 0 && r.chance(1, 5) { r.range(1, 8) as u32 } else { c.num };
    format!("{}{}s{}n{}", kind, if track { 1 } else { 0 }, scaled, num)
}
fn life_ops(r: &mut Rng, c: &LifeCtx, kind: char, track: bool, depth: u32, top: bool) -> String {
    let mut h = life_start(r, c, kind, track, top);
    let nops = if top { r.range(2, 9) } else { r.range(1, 4) };
    for i in 0..nops {
        h.push('.');
        // the first step fills the sketch most of the time
        let pickop = if i == 0 && r.chance(3, 4) { r.below(2) * 30 } else { r.below(100) };
        match pickop {
            0..=24 => {
                let l = life_hashes(r, c, 1, 6);
                h.push_str(&format!("a{}", show_nats(l)));
            }
            25..=39 => {
                let l = life_hashes(r, c, 1, 5);
                let ps: Vec<String> = l.iter().map(|x| format!("{}x{}", x, life_abund(r))).collect();
                h.push_str(&format!("w{}", ps.join(",")));
            }
            40..=41 => {
                let x = *r.pick(&c.univ);
                h.push_str(&format!("e{}x{}", x, life_abund(r)));
            }
            42..=49 => {
                let l = life_hashes(r, c, 1, 4);
                h.push_str(&format!("r{}", show_nats(l)));
            }
            50..=51 => h.push('c'),
            52..=61 => h.push('m'),
            62..=67 => h.push('k'),
            68..=81 if depth > 0 => {
                let o = life_ops(r, c, kind, track, depth - 1, false);
                h.push_str(&format!("g({})", o));
            }
            82..=84 if depth > 0 => {
                let o = life_ops(r, c, kind, track, depth - 1, false);
                h.push_str(&format!("{}({})", r.pick(&["f", "R", "i"]), o));
            }
            85..=90 => h.push('l'),
            91..=93 => h.push('j'),
            94..=95 => h.push('x'),
            96 => h.push('u'),
            97 => h.push('t'),
            98 if c.scaled != 0 => h.push_str(&format!("d{}", c.scaled * r.range(1, 3))),
            _ => h.push('m'),
        }
    }
    h
}

/// a sketch with a life: the fields are what the real code shows after running the history
fn rlife(r: &mut Rng) -> (Mh, bool) {
    let ksize = *r.pick(&[21u32, 31, 51, 21, 31, 7, 1, 4294967295]);
    let seed = if r.chance(4, 5) { 42 } else { *r.pick(&[0u64, 1, u64::MAX]) };
    let mol = r.pick(&[Mol::Dna, Mol::Dna, Mol::Protein, Mol::Dayhoff, Mol::Hp]).clone();
    // num sketches (small, so that they fill up), scaled sketches, and the never-filled 0/0
    let (num, scaled) = match r.below(20) {
        0 => (0u32, 0u64),
        1..=11 => (r.range(1, 6) as u32, 0),
        12 => (*r.pick(&[500u32, u32::MAX]), 0),
        13 | 14 => (0, 1),
        15 | 16 => (0, 2),
        17 => (0, 3),
        _ => (0, 1000),
    };
    let mut univ: Vec<u64> = (0..r.range(4, 12)).map(|_| r.range(0, 40)).collect();
    univ.extend_from_slice(&[1u64 << 63, (1u64 << 63) + 1, u64::MAX, u64::MAX / 1000, u64::MAX / 1000 + 2, (1 << 53) + 1][..r.below(7) as usize]);
    let c = LifeCtx { scaled, num, univ };
    let kind = if r.chance(1, 2) { 'V' } else { 'T' };
    let track = r.chance(1, 2);
    let life = life_ops(r, &c, kind, track, 2, true);
    lived(&life, ksize, seed, &mol)
}

fn default_sig(sketches: Vec<Sk>) -> Sg {
    Sg {
        class: "sourmash_signature".into(),
        email: "".into(),
        hash_function: "0.murmur64".into(),
        filename: None,
        name: None,
        license: "CC0".into(),
        version: 0.4f64.to_bits(),
        sketches,
    }
}

/// the fields of a lived sketch, from the real code; `false` when the real code panicked on the way
fn lived(life: &str, ksize: u32, seed: u64, mol: &Mol) -> (Mh, bool) {
    let (l2, m2) = (life.to_string(), mol.clone());
    match std::panic::catch_unwind(move || observe_sk(&run_life(&l2, ksize, seed, &m2).into_sketch())) {
        Ok(Sk::Mh(mut m)) => {
            m.life = Some(life.to_string());
            (m, true)
        }
        _ => (
            Mh { kind: 'v', num: 0, ksize, seed, max_hash: 0, mol: mol.clone(), mins: vec![], abunds: None, md5: String::new(), cached: true, life: Some(life.to_string()) },
            false,
        ),
    }
}

/// `save` (when the real writer gets through) and `roundtrip` request lines for one signature
fn emit_life_ops(o: &mut Out, g: Sg, gz: Option<u64>) {
    let l = vec![g];
    let s = fmt_list(&l);
    let l2 = l.clone();
    if let Ok(j) = std::panic::catch_unwind(move || real_json(&l2)) {
        o.op(&format!("save {} {}", s, hex(&j)));
    }
    o.op(&format!("roundtrip {}", s));
    if let Some(level) = gz {
        o.op(&format!("gz {} {}", level, s));
    }
}

/// short lives, enumerated: fill a sketch (to `num`, or across `max_hash`), put an md5 into its cache in one of
/// the ways that happens (md5sum(), clone(), having been loaded), change its content, save
fn directed_lives() -> Vec<String> {
    let mut v = vec![];
    for c in ["V", "T"] {
        for t in [0, 1] {
            let fill = |n: usize| -> String {
                let hs = [10u64, 20, 30];
                if t == 1 {
                    format!(".w{}", hs[..n].iter().enumerate().map(|(i, h)| format!("{}x{}", h, i + 1)).collect::<Vec<_>>().join(","))
                } else {
                    format!(".a{}", show_nats(hs[..n].iter().copied()))
                }
            };
            for cache in ["", ".m", ".k", ".l", ".j"] {
                for n in 1..=3usize {
                    let st = format!("{}{}s0n{}", c, t, n);
                    let small = if t == 1 { ".w1x5,2x7,10x4" } else { ".a1,2" };
                    for change in [
                        format!(".g({}{})", st, small),
                        format!(".g({}.a10)", st),
                        format!(".g({}{}s0n{}{})", c, 1 - t, n, if t == 0 { ".w1x5,2x7,10x4" } else { ".a1,2" }),
                        format!(".f({}{})", st, small),
                        ".a5".to_string(),
                        ".w5x3,10x2".to_string(),
                        ".r10".to_string(),
                        ".c.a7".to_string(),
                    ] {
                        v.push(format!("{}{}{}{}", st, fill(n), cache, change));
                    }
                }
                // scaled = 2: max_hash = 2^63
                let st = format!("{}{}s2n0", c, t);
                for change in [format!(".g({}.a3,9223372036854775808,18446744073709551615)", st), ".a3,9223372036854775809".to_string(), ".r10.d4".to_string()] {
                    v.push(format!("{}{}{}{}", st, fill(2), cache, change));
                }
            }
        }
    }
    v
}

fn rhll(r: &mut Rng) -> Sk {
    let p = r.range(4, 6);
    let regs: Vec<u8> = (0..(1u64 << p)).map(|_| if r.chance(1, 3) { r.range(0, 64 - p + 1) as u8 } else { 0 }).collect();
    // q and ksize are bytes in the binary codec used to build the state; serde carries usize
    Sk::Hll { p, q: if r.chance(3, 4) { 64 - p } else { r.range(0, 255) }, ksize: *r.pick(&[21u64, 31, 0, 255, 7]), regs }
}

fn rsig(r: &mut Rng, hll: bool) -> Sg {
    let nsk = match r.below(8) {
        0 => 0,
        1..=4 => 1,
        _ => r.range(2, 5),
    };
    let sketches = (0..nsk)
        .map(|_| {
            if hll && r.chance(1, 8) {
                rhll(r)
            } else if r.chance(1, 5) {
                match rlife(r) {
                    (m, true) => Sk::Mh(m),
                    _ => Sk::Mh(rmh(r, 'v')),
                }
            } else {
                let kind = if r.chance(1, 2) { 'v' } else { 't' };
                Sk::Mh(rmh(r, kind))
            }
        })
        .collect();
    let dflt = |r: &mut Rng, d: &str| if r.chance(4, 5) { d.to_string() } else { rstr(r) };
    Sg {
        class: dflt(r, "sourmash_signature"),
        email: dflt(r, ""),
        hash_function: dflt(r, "0.murmur64"),
        filename: if r.chance(1, 2) { Some(rstr(r)) } else { None },
        name: if r.chance(1, 2) { Some(rstr(r)) } else { None },
        license: dflt(r, "CC0"),
        version: r.pick(VERSIONS).to_bits(),
        sketches,
    }
}

fn real_json(l: &[Sg]) -> Vec<u8> {
    let sigs: Vec<Signature> = l.iter().map(build).collect();
    save_plain(&sigs).unwrap()
}

// ---- a small JSON writer with controllable layout for the `load`/`legacy` streams

#[derive(Clone)]
enum J {
    Null,
    Raw(String), // number or any literal text
    Str(String),
    Arr(Vec<J>),
    Obj(Vec<(String, J)>),
}

fn jstr(r: &mut Rng, s: &str, fancy: bool) -> String {
    let mut o = String::from("\"");
    for c in s.chars() {
        let esc = fancy && r.chance(1, 6);
        match c {
            '"' => o.push_str("\\\""),
            '\\' => o.push_str("\\\\"),
            '\n' => o.push_str("\\n"),
            '\r' => o.push_str("\\r"),
            '\t' => o.push_str("\\t"),
            '/' if esc => o.push_str("\\/"),
            c if (c as u32) < 0x20 => o.push_str(&format!("\\u{:04x}", c as u32)),
            c if esc => {
                let mut b = [0u16; 2];
                for u in c.encode_utf16(&mut b) {
                    o.push_str(&format!("\\u{:04X}", u));
                }
            }
            c => o.push(c),
        }
    }
    o.push('"');
    o
}
fn jws(r: &mut Rng, fancy: bool) -> &'static str {
    if fancy { *r.pick(&["", "", " ", "\n  ", "\t", "\r\n"]) } else { "" }
}
fn jprint(r: &mut Rng, j: &J, fancy: bool, o: &mut String) {
    match j {
        J::Null => o.push_str("null"),
        J::Raw(s) => o.push_str(s),
        J::Str(s) => o.push_str(&jstr(r, s, fancy)),
        J::Arr(v) => {
            o.push('[');
            for (i, x) in v.iter().enumerate() {
                if i > 0 {
                    o.push(',');
                }
                o.push_str(jws(r, fancy));
                jprint(r, x, fancy, o);
            }
            o.push_str(jws(r, fancy));
            o.push(']');
        }
        J::Obj(v) => {
            o.push('{');
            for (i, (k, x)) in v.iter().enumerate() {
                if i > 0 {
                    o.push(',');
                }
                o.push_str(jws(r, fancy));
                o.push_str(&jstr(r, k, false));
                o.push_str(jws(r, fancy));
                o.push(':');
                o.push_str(jws(r, fancy));
                jprint(r, x, fancy, o);
            }
            o.push_str(jws(r, fancy));
            o.push('}');
        }
    }
}
fn nums(v: &[u64]) -> J {
    J::Arr(v.iter().map(|x| J::Raw(x.to_string())).collect())
}
fn shuffle<T>(r: &mut Rng, v: &mut [T]) {
    for i in (1..v.len()).rev() {
        let j = r.below(i as u64 + 1) as usize;
        v.swap(i, j);
    }
}

/// a sketch object as an earlier release (or another tool) could have written it
fn legacy_sketch(r: &mut Rng, bad: bool) -> J {
    let m = rmh(r, 'v');
    let mut pairs: Vec<(u64, u64)> =
        m.mins.iter().copied().zip(m.abunds.clone().unwrap_or_else(|| vec![0; m.mins.len()])).collect();
    if r.chance(3, 4) {
        shuffle(r, &mut pairs);
    }
    let mol = match &m.mol {
        Mol::Dna => *r.pick(&["DNA", "dna", "Dna", "dNA"]),
        Mol::Protein => *r.pick(&["protein", "PROTEIN", "Protein"]),
        Mol::Dayhoff => *r.pick(&["dayhoff", "DAYHOFF", "Dayhoff"]),
        Mol::Hp => *r.pick(&["hp", "HP", "Hp", "hP"]),
        _ => "dna",
    };
    let mut f: Vec<(String, J)> = vec![
        ("num".into(), J::Raw(if m.max_hash != 0 && r.chance(1, 2) { r.range(0, 2000).to_string() } else { m.num.to_string() })),
        ("ksize".into(), J::Raw(m.ksize.to_string())),
        ("seed".into(), J::Raw(m.seed.to_string())),
        ("max_hash".into(), J::Raw(m.max_hash.to_string())),
        ("mins".into(), nums(&pairs.iter().map(|p| p.0).collect::<Vec<_>>())),
        ("md5sum".into(), J::Str(m.md5.clone())),
        ("molecule".into(), J::Str(mol.into())),
    ];
    if m.abunds.is_some() {
        f.push(("abundances".into(), nums(&pairs.iter().map(|p| p.1).collect::<Vec<_>>())));
    } else if r.chance(1, 4) {
        f.push(("abundances".into(), J::Null));
    }
    if r.chance(1, 3) {
        f.push(("type".into(), J::Str("mrnaseq".into())));
    }
    if r.chance(1, 6) {
        f.push(("cardinality".into(), J::Obj(vec![("x".into(), J::Arr(vec![J::Null, J::Raw("true".into()), J::Raw("1.5".into())]))])));
    }
    if bad {
        let i = r.below(f.len() as u64) as usize;
        match r.below(12) {
            0 => {
                f.remove(i);
            }
            1 => f[0].1 = J::Raw("4294967296".into()),
            2 => f[1].1 = J::Raw("-1".into()),
            3 => f[2].1 = J::Raw("18446744073709551616".into()),
            4 => f[3].1 = J::Raw("1.5".into()),
            5 => f[4].1 = J::Arr(vec![J::Raw("1".into()), J::Str("2".into())]),
            6 => f[5].1 = J::Raw("7".into()),
            7 => f[6].1 = J::Str(r.pick(&["rna", "", "DN A", "dna ", "\u{212a}", "prot"]).to_string()),
            8 => f[6].1 = J::Null,
            9 => f[4].1 = J::Arr(vec![J::Raw("18446744073709551616".into())]),
            10 => {
                // misaligned abundances: the loader zips
                let k = r.below(4);
                f.push(("abundances".into(), nums(&(0..k).map(|x| x + 1).collect::<Vec<_>>())));
                f.retain({
                    let mut seen = false;
                    move |x| {
                        if x.0 == "abundances" {
                            if seen {
                                return true;
                            }
                            seen = true;
                            return false;
                        }
                        true
                    }
                });
                if !f.iter().any(|x| x.0 == "abundances") {
                    f.push(("abundances".into(), nums(&[5])));
                }
            }
            _ => {
                // duplicate hashes
                if let J::Arr(v) = &mut f[4].1 {
                    if let Some(x) = v.first().cloned() {
                        v.push(x);
                    }
                }
                if let Some(p) = f.iter().position(|x| x.0 == "abundances") {
                    if let J::Arr(v) = &mut f[p].1 {
                        v.push(J::Raw("77".into()));
                    }
                }
            }
        }
    }
    if r.chance(2, 3) {
        shuffle(r, &mut f);
    }
    J::Obj(f)
}

fn legacy_doc(r: &mut Rng, bad: bool) -> String {
    let nsig = if r.chance(1, 10) { 0 } else { r.range(1, 3) };
    let mut sigs = vec![];
    let badsig = if bad { r.below(nsig.max(1)) } else { u64::MAX };
    for si in 0..nsig {
        let nsk = r.range(0, 4);
        let badsk = if si == badsig && r.chance(2, 3) { r.below(nsk.max(1)) } else { u64::MAX };
        let mut sk: Vec<J> = (0..nsk).map(|i| legacy_sketch(r, i == badsk)).collect();
        if r.chance(1, 8) {
            if let Sk::Hll { p, q, ksize, regs } = rhll(r) {
                sk.push(J::Obj(vec![
                    ("registers".into(), nums(&regs.iter().map(|x| *x as u64).collect::<Vec<_>>())),
                    ("p".into(), J::Raw(p.to_string())),
                    ("q".into(), J::Raw(q.to_string())),
                    ("ksize".into(), J::Raw(ksize.to_string())),
                ]));
            }
        }
        let mut f: Vec<(String, J)> = vec![("hash_function".into(), J::Str("0.murmur64".into())), ("signatures".into(), J::Arr(sk))];
        if r.chance(2, 3) {
            f.push(("class".into(), J::Str("sourmash_signature".into())));
        }
        if r.chance(1, 2) {
            f.push(("email".into(), J::Str(rstr(r))));
        }
        if r.chance(2, 3) {
            f.push(("filename".into(), if r.chance(1, 3) { J::Null } else { J::Str(rstr(r)) }));
        }
        if r.chance(2, 3) {
            f.push(("name".into(), if r.chance(1, 5) { J::Null } else { J::Str(rstr(r)) }));
        }
        if r.chance(2, 3) {
            f.push(("license".into(), J::Str("CC0".into())));
        }
        if r.chance(2, 3) {
            f.push(("version".into(), J::Raw(r.pick(&["0.4", "0.4", "0.3", "1", "2", "0.25", "4e-1", "40E-2", "1e2"]).to_string())));
        }
        if r.chance(1, 4) {
            f.push(("type".into(), J::Str("mrnaseq".into())));
        }
        if si == badsig && badsk == u64::MAX {
            match r.below(8) {
                0 => f.retain(|x| x.0 != "hash_function"),
                1 => f.retain(|x| x.0 != "signatures"),
                2 => f[0].1 = J::Null,
                3 => f[1].1 = J::Obj(vec![]),
                4 => f.push(("email".into(), J::Null)),
                5 => f.push(("version".into(), J::Str("0.4".into()))),
                6 => {
                    if let J::Arr(v) = &mut f[1].1 {
                        v.push(J::Obj(vec![("ksize".into(), J::Raw("21".into()))]));
                    }
                }
                _ => f.push(("license".into(), J::Raw("4".into()))),
            }
            // the pushes above may have produced a duplicate key: keep the last (Lean.Json would) — the
            // duplicate-field error of serde is not reachable through a text the model side can parse
            let mut seen = BTreeSet::new();
            let mut g = vec![];
            for x in f.into_iter().rev() {
                if seen.insert(x.0.clone()) {
                    g.push(x);
                }
            }
            g.reverse();
            f = g;
        }
        if r.chance(2, 3) {
            shuffle(r, &mut f);
        }
        sigs.push(J::Obj(f));
    }
    let top = if bad && r.chance(1, 10) { sigs.into_iter().next().unwrap_or(J::Null) } else { J::Arr(sigs) };
    let mut o = String::new();
    let fancy = r.chance(1, 2);
    jprint(r, &top, fancy, &mut o);
    if fancy {
        o.push('\n');
    }
    o
}

fn data_files() -> Vec<(u64, String)> {
    fn walk(dir: &std::path::Path, out: &mut Vec<(u64, String)>) {
        let mut es: Vec<_> = std::fs::read_dir(dir).unwrap().map(|e| e.unwrap().path()).collect();
        es.sort();
        for p in es {
            if p.is_dir() {
                walk(&p, out);
            } else {
                let n = p.to_string_lossy().to_string();
                if n.ends_with(".sig") || n.ends_with(".sig.gz") {
                    let rel = n[DATA.len() + 1..].to_string();
                    if !rel.contains(char::is_whitespace) {
                        out.push((std::fs::metadata(&p).unwrap().len(), rel));
                    }
                }
            }
        }
    }
    let mut v = vec![];
    walk(std::path::Path::new(DATA), &mut v);
    v.sort();
    v
}

fn gen(a: &Args) {
    let mut r = Rng::new(a.seed);
    let mut o = Out::new();
    let thorough = a.tier == "thorough";
    let mult = if thorough { 12 } else { 1 };

    // stream 0: short enumerated lives (the same under every seed), default signature around them
    for (i, life) in directed_lives().iter().enumerate() {
        o.case("life-directed");
        let (m, _) = lived(life, 21, 42, &Mol::Dna);
        emit_life_ops(&mut o, default_sig(vec![Sk::Mh(m)]), if i % 16 == 0 { Some((i as u64 / 16) % 10) } else { None });
    }
    // stream 1: save / roundtrip / gz of one signature (0-5 sketches, both containers, HLL)
    for i in 0..900 * mult {
        o.case("one");
        let l = vec![rsig(&mut r, true)];
        let s = fmt_list(&l);
        o.op(&format!("save {} {}", s, hex(&real_json(&l))));
        o.op(&format!("roundtrip {}", s));
        o.op(&format!("rtypes {}", s));
        if i % 3 == 0 {
            o.op(&format!("gz {} {}", r.range(0, 9), s));
        }
    }
    // stream 2: lists of signatures through the exported list writer, every level
    for i in 0..120 * mult {
        o.case("list");
        let n = if i % 20 == 0 { 0 } else { r.range(1, 4) };
        let l: Vec<Sg> = (0..n).map(|_| rsig(&mut r, true)).collect();
        let s = fmt_list(&l);
        o.op(&format!("save {} {}", s, hex(&real_json(&l))));
        o.op(&format!("roundtrip {}", s));
        let all = i % 12 == 0;
        for level in 0..10u64 {
            if all || r.chance(1, 5) {
                o.op(&format!("gz {} {}", level, s));
            }
        }
    }
    // stream 3: filters
    for _ in 0..500 * mult {
        o.case("filter");
        let n = r.range(1, 3);
        // HyperLogLog sketches make load_signatures panic (unimplemented!()): a few, model column only
        let with_hll = r.chance(1, 25);
        let mut l: Vec<Sg> = (0..n).map(|_| rsig(&mut r, with_hll)).collect();
        // few distinct ksizes so that filters hit
        let ks = [21u32, 31, 51];
        for s in l.iter_mut() {
            for k in s.sketches.iter_mut() {
                if let Sk::Mh(m) = k {
                    if m.life.is_none() && r.chance(5, 6) {
                        m.ksize = *r.pick(&ks);
                        if !m.cached || r.chance(1, 2) {
                            m.md5 = real_md5(m);
                        }
                    }
                }
            }
        }
        let s = fmt_list(&l);
        let present: Vec<(u64, Mol)> = l
            .iter()
            .flat_map(|s| s.sketches.iter())
            .filter_map(|k| if let Sk::Mh(m) = k { Some((m.ksize as u64, m.mol.clone())) } else { None })
            .collect();
        for _ in 0..3 {
            let hit = if present.is_empty() { None } else { Some(r.pick(&present).clone()) };
            let k = match (&hit, r.below(8)) {
                (_, 0) | (_, 1) => 0,
                (Some(h), 2..=6) => h.0,
                _ => *r.pick(&[21u64, 31, 51, 22, 7]),
            };
            let m = match (&hit, r.below(8)) {
                (_, 0) | (_, 1) => "any",
                (Some(h), 2..=5) => match h.1 {
                    Mol::Dna => *r.pick(&["dna", "DNA"]),
                    Mol::Protein => *r.pick(&["protein", "Protein"]),
                    Mol::Dayhoff => "dayhoff",
                    _ => "hp",
                },
                _ => *r.pick(&["dna", "DNA", "protein", "dayhoff", "hp", "Protein"]),
            };
            o.op(&format!("filter {} {} {}", k, m, s));
        }
    }
    // stream 4: legacy / foreign / malformed texts
    for i in 0..700 * mult {
        o.case("text");
        let bad = i % 3 == 2;
        let t = legacy_doc(&mut r, bad);
        o.op(&format!("load {}", hex(t.as_bytes())));
        o.op(&format!("legacy {}", hex(t.as_bytes())));
    }
    for _ in 0..200 * mult {
        o.case("sketchtext");
        let mut t = String::new();
        let bad = r.chance(1, 4);
        let j = legacy_sketch(&mut r, bad);
        jprint(&mut r, &j, false, &mut t);
        o.op(&format!("loadvec {}", hex(t.as_bytes())));
        o.op(&format!("loadtree {}", hex(t.as_bytes())));
    }
    // stream 6: sketches with a life (built by add / remove / clear / merge / md5sum / clone / reload …),
    // saved, looked at by the independent reader, loaded back
    for i in 0..1500 * mult {
        o.case("life");
        let nsk = if r.chance(3, 4) { 1 } else { 2 };
        let mut g = rsig(&mut r, false);
        g.sketches = (0..nsk).map(|_| Sk::Mh(rlife(&mut r).0)).collect();
        let gz = if i % 5 == 0 { Some(r.range(0, 9)) } else { None };
        emit_life_ops(&mut o, g, gz);
    }
    // stream 7: LARGE signatures (6000-40000 hashes per sketch: 130 KiB - 1.3 MiB of JSON), with and without
    // abundances, both containers, several sketches / signatures, through signatures_save_buffer at levels
    // 0, 1, 5, 9 and through to_writer + niffler's gzip writer; digest answers
    for round in 0..(if thorough { 10 } else { 1 }) {
        let mut sd = |r: &mut Rng| r.range(1, 1 << 40);
        let n = |r: &mut Rng, lo: u64, hi: u64| if round == 0 { lo } else { r.range(lo, hi) };
        let descs: Vec<(String, Vec<(&str, u64)>)> = vec![
            (format!("6269673a;v:{}:0:{}:1:31", n(&mut r, 7000, 9000), sd(&mut r)), vec![("ffi", 0), ("ffi", 1), ("ffi", 5), ("ffi", 9), ("writer", 6)]),
            (format!("6269673b;t:{}:1:{}:1:21", n(&mut r, 6000, 8000), sd(&mut r)), vec![("ffi", 0), ("ffi", 1), ("ffi", 5), ("ffi", 9), ("writer", 1)]),
            (
                format!(
                    "61;v:{}:1:{}:1:21|t:{}:0:{}:1:31+62;v:{}:0:{}:1:21",
                    n(&mut r, 12000, 20000), sd(&mut r), n(&mut r, 9000, 12000), sd(&mut r), n(&mut r, 40000, 40000), sd(&mut r)
                ),
                vec![("ffi", 1), ("ffi", 9), ("writer", 9)],
            ),
            (
                format!(
                    "63;v:{}:0:{}:2:21|t:{}:1:{}:2:21|v:{}:1:{}:1000:51",
                    n(&mut r, 13000, 20000), sd(&mut r), n(&mut r, 13000, 20000), sd(&mut r), n(&mut r, 30000, 40000), sd(&mut r)
                ),
                vec![("ffi", 0), ("ffi", 5), ("writer", 5)],
            ),
            (format!("64;v:{}:1:{}:1:21", n(&mut r, 40000, 40000), sd(&mut r)), vec![("ffi", 9), ("ffi", 1), ("writer", 1)]),
        ];
        for (d, routes) in descs {
            o.case("big");
            for (route, level) in routes {
                let level = if round == 0 || route == "ffi" && level == 0 { level } else { r.range(1, 9) };
                o.op(&format!("big {} {} {}", route, level, d));
            }
        }
    }
    // stream 5: the bundled signature files
    let files = data_files();
    let limit = if thorough { u64::MAX } else { 30_000 };
    let mut n = 0;
    for (sz, rel) in files.iter() {
        if *sz > limit || (!thorough && n >= 44) {
            continue;
        }
        let (_, plain) = read_data(rel);
        if plain.len() as u64 > 8 * limit.min(1 << 40) {
            continue;
        }
        n += 1;
        o.case("file");
        o.op(&format!("file {} {}", rel, hex(&plain)));
        o.op(&format!("filefmt {} {}", rel, hex(&plain)));
    }
}

// ------------------------------------------------------------------------------------------ dump
//
// `dump`: the serde layout of the signature format as the BUILT crate behaves — consumed by translator/c06.py,
// which builds lean/Sourmash/Generated/C06.lean from it.  Every line is an observation of the real code
// (serde_json through the crate's public types), none is read off the source text:
//   <sample> <keys…>                    keys serde_json emits for a sample value, in textual order
//                                       (kmh/btree × abundances Some / Some(empty) / None, hll, signature with
//                                       every Option set / name None / filename None / every string empty)
//   top_is_array <bool>
//   probe <type> <key> <label> ok|err|panic     the sample object with the value of <key> replaced (labels: PROBES)
//   absent <type> <key> ok|err|panic <readback>  … with <key> removed; readback = hex(JSON the re-serialised
//                                       loaded value carries under <key>) or `~` when it has no such key
//   positional <type> <key…> | -        the array (positional) form: which key each position feeds
//   molload <type> <hex(word)> ok <Variant> | err | panic       `molecule` = word
//   written_molecule <type> <Variant> <hex(word)>               what is written for each HashFunctions variant
//   molecule <Variant> <word>           Display of the variant
//   numzero <type> <a> <b> <c>          num() after loading num = 5 with max_hash = 0 / 1 / u64::MAX
//   sketch_variant <Variant> <payload type>     in the order the harness lists them (declaration order)
//   sketch_untagged <Variant> <bool>    Sketch::V(x) is written exactly as x is
//   sketch_load mh|mh_noabund|hll|all <Variant>|err|panic       which variant an object loads as (`all` carries
//                                       the keys of a MinHash object and of a HyperLogLog object)
//   default <key> <value>               a signature object holding only the required keys, observed through
//                                       the accessors / Debug: hex string, 16-hex-digit f64 bits, `~` = None
//   required <key> <bool>

type Obj = Vec<(String, String)>; // key -> JSON text of its value

enum Loaded {
    Ok(Obj),
    Err,
    Panic,
}
impl Loaded {
    fn word(&self) -> &'static str {
        match self {
            Loaded::Ok(_) => "ok",
            Loaded::Err => "err",
            Loaded::Panic => "panic",
        }
    }
}

fn value_obj(v: serde_json::Value) -> Obj {
    match v {
        serde_json::Value::Object(m) => m.into_iter().map(|(k, v)| (k, v.to_string())).collect(),
        _ => vec![],
    }
}
fn obj_text(o: &Obj) -> String {
    let f: Vec<String> = o.iter().map(|(k, v)| format!("{}:{}", serde_json::to_string(k).unwrap(), v)).collect();
    format!("{{{}}}", f.join(","))
}
/// `o` with the value of `k` replaced (`Some`) or the key removed (`None`)
fn obj_with(o: &Obj, k: &str, v: Option<&str>) -> Obj {
    o.iter().filter(|(x, _)| x != k || v.is_some()).map(|(x, y)| (x.clone(), if x == k { v.unwrap().to_string() } else { y.clone() })).collect()
}
fn obj_get<'a>(o: &'a Obj, k: &str) -> Option<&'a str> {
    o.iter().find(|(x, _)| x == k).map(|(_, v)| v.as_str())
}

macro_rules! loader {
    ($name:ident, $t:ty) => {
        fn $name(t: &str) -> Loaded {
            let t = t.to_string();
            match std::panic::catch_unwind(move || serde_json::from_str::<$t>(&t).map(|x| value_obj(serde_json::to_value(&x).unwrap()))) {
                Err(_) => Loaded::Panic,
                Ok(Err(_)) => Loaded::Err,
                Ok(Ok(o)) => Loaded::Ok(o),
            }
        }
    };
}
loader!(load_kmh, KmerMinHash);
loader!(load_btree, KmerMinHashBTree);
loader!(load_hll, HyperLogLog);
/// one signature object, through the public reader (which wants the enclosing array)
fn load_sig(t: &str) -> Loaded {
    let t = format!("[{}]", t);
    match std::panic::catch_unwind(move || Signature::from_reader(t.as_bytes()).map(|v| (v.len(), value_obj(serde_json::to_value(&v[0]).unwrap())))) {
        Err(_) => Loaded::Panic,
        Ok(Err(_)) => Loaded::Err,
        Ok(Ok((1, o))) => Loaded::Ok(o),
        Ok(Ok(_)) => Loaded::Err,
    }
}

/// top-level keys of one JSON object text, in textual order (serde_json::Value is built without
/// `preserve_order`, so the order is read off the text)
fn text_keys(t: &str) -> String {
    let b: Vec<char> = t.chars().collect();
    let (mut depth, mut i, mut out, mut expect_key) = (0i32, 0usize, vec![], false);
    while i < b.len() {
        match b[i] {
            '{' | '[' => {
                depth += 1;
                expect_key = b[i] == '{' && depth == 1;
            }
            '}' | ']' => depth -= 1,
            ',' if depth == 1 => expect_key = true,
            '"' => {
                let mut j = i + 1;
                let mut s = String::new();
                while b[j] != '"' {
                    if b[j] == '\\' {
                        j += 1;
                    }
                    s.push(b[j]);
                    j += 1;
                }
                if depth == 1 && expect_key {
                    out.push(s);
                    expect_key = false;
                }
                i = j;
            }
            _ => {}
        }
        i += 1;
    }
    out.join(" ")
}

/// the boundary values every loadable key is probed with (label, JSON text); `arr_mh` / `arr_hll` are filled in
const PROBES: &[(&str, &str)] = &[
    ("0", "0"),
    ("255", "255"),
    ("256", "256"),
    ("65535", "65535"),
    ("65536", "65536"),
    ("u32max", "4294967295"),
    ("2p32", "4294967296"),
    ("2p53", "9007199254740992"),
    ("u64max", "18446744073709551615"),
    ("2p64", "18446744073709551616"),
    ("neg", "-1"),
    ("frac", "1.5"),
    ("str", "\"1\""),
    ("word", "\"DNA\""),
    ("null", "null"),
    ("true", "true"),
    ("obj", "{}"),
    ("arr", "[]"),
    ("arr_0", "[0]"),
    ("arr_255", "[255]"),
    ("arr_256", "[256]"),
    ("arr_u64max", "[18446744073709551615]"),
    ("arr_2p64", "[18446744073709551616]"),
    ("arr_neg", "[-1]"),
    ("arr_frac", "[1.5]"),
    ("arr_str", "[\"1\"]"),
    ("arr_null", "[null]"),
    ("arr_obj", "[{}]"),
    ("arr_mh", ""),
    ("arr_hll", ""),
];

fn distinct_perms(kinds: &mut Vec<(char, usize)>, cur: &mut Vec<char>, n: usize, out: &mut Vec<Vec<char>>) {
    if cur.len() == n {
        out.push(cur.clone());
        return;
    }
    for i in 0..kinds.len() {
        if kinds[i].1 > 0 {
            kinds[i].1 -= 1;
            cur.push(kinds[i].0);
            distinct_perms(kinds, cur, n, out);
            cur.pop();
            kinds[i].1 += 1;
        }
    }
}

/// the positional (JSON array) form of a struct: which key does each position feed?  Found by trying every
/// arrangement of the value kinds of `base` and then changing one position at a time.
fn positional(base: &Obj, load: fn(&str) -> Loaded) -> Option<Vec<String>> {
    let kind = |v: &str| match v.chars().next() {
        Some('"') => 'S',
        Some('[') => 'L',
        Some(c) if c.is_ascii_digit() => 'N',
        _ => 'O',
    };
    let val = |k: char, varied: bool| match (k, varied) {
        ('S', false) => "\"dna\"",
        ('S', true) => "\"hp\"",
        ('L', false) => "[7]",
        ('L', true) => "[8]",
        ('N', false) => "0",
        ('N', true) => "1",
        (_, false) => "null",
        (_, true) => "true",
    };
    let mut kinds: Vec<(char, usize)> = vec![];
    for (_, v) in base {
        let k = kind(v);
        match kinds.iter_mut().find(|x| x.0 == k) {
            Some(x) => x.1 += 1,
            None => kinds.push((k, 1)),
        }
    }
    let mut perms = vec![];
    distinct_perms(&mut kinds, &mut vec![], base.len(), &mut perms);
    let arr = |p: &[char], varied: Option<usize>| {
        let f: Vec<&str> = p.iter().enumerate().map(|(i, k)| val(*k, varied == Some(i))).collect();
        format!("[{}]", f.join(","))
    };
    for p in perms {
        if let Loaded::Ok(rb0) = load(&arr(&p, None)) {
            let mut names = vec![];
            for i in 0..p.len() {
                let rb = match load(&arr(&p, Some(i))) {
                    Loaded::Ok(o) => o,
                    _ => return None,
                };
                let mut keys: Vec<&String> = rb.iter().map(|x| &x.0).chain(rb0.iter().map(|x| &x.0)).collect();
                keys.sort();
                keys.dedup();
                let changed: Vec<&String> = keys.into_iter().filter(|k| obj_get(&rb, k.as_str()) != obj_get(&rb0, k.as_str())).collect();
                if changed.len() != 1 {
                    return None;
                }
                names.push(changed[0].clone());
            }
            return Some(names);
        }
    }
    None
}

fn case_variants(w: &str) -> Vec<String> {
    let alt = |start: bool| -> String {
        w.chars().enumerate().map(|(i, c)| if (i % 2 == 0) == start { c.to_ascii_uppercase() } else { c.to_ascii_lowercase() }).collect()
    };
    let mut cap = w.to_ascii_lowercase();
    if let Some(f) = cap.get_mut(0..1) {
        f.make_ascii_uppercase();
    }
    vec![w.to_string(), w.to_ascii_lowercase(), w.to_ascii_uppercase(), cap, alt(true), alt(false)]
}

fn dump() {
    std::panic::set_hook(Box::new(|_| {}));
    let v = Mh {
        kind: 'v',
        num: 5,
        ksize: 21,
        seed: 42,
        max_hash: 0,
        mol: Mol::Dna,
        mins: vec![10, 20, 30],
        abunds: Some(vec![3, 4, 5]),
        md5: "m".into(),
        cached: true,
        life: None,
    };
    let with = |kind: char, mins: Vec<u64>, abunds: Option<Vec<u64>>| {
        let mut x = v.clone();
        x.kind = kind;
        x.mins = mins;
        x.abunds = abunds;
        Sk::Mh(x)
    };
    let h = Sk::Hll { p: 4, q: 60, ksize: 21, regs: vec![0, 1, 2, 3, 0, 0, 0, 0, 0, 0, 0, 0, 0, 0, 0, 60] };
    let sg = Sg {
        class: "c".into(),
        email: "e".into(),
        hash_function: "h".into(),
        filename: Some("f".into()),
        name: Some("n".into()),
        license: "l".into(),
        version: 0.4f64.to_bits(),
        sketches: vec![],
    };

    // ---- what is written: key names and order
    let sketch_json = |s: &Sk| serde_json::to_string(&build_sk(s)).unwrap();
    let samples: Vec<(&str, Sk)> = vec![
        ("kmh_abund", with('v', v.mins.clone(), v.abunds.clone())),
        ("kmh_abund_empty", with('v', vec![], Some(vec![]))),
        ("kmh", with('v', v.mins.clone(), None)),
        ("btree_abund", with('t', v.mins.clone(), v.abunds.clone())),
        ("btree_abund_empty", with('t', vec![], Some(vec![]))),
        ("btree", with('t', v.mins.clone(), None)),
        ("hll", h.clone()),
    ];
    for (n, s) in &samples {
        println!("{} {}", n, text_keys(&sketch_json(s)));
    }
    let sig_json = |g: &Sg| serde_json::to_string(&build(g)).unwrap();
    let mut g = sg.clone();
    println!("signature_full {}", text_keys(&sig_json(&g)));
    g.name = None;
    println!("signature_noname {}", text_keys(&sig_json(&g)));
    g = sg.clone();
    g.filename = None;
    println!("signature_nofilename {}", text_keys(&sig_json(&g)));
    g = Sg { class: "".into(), email: "".into(), hash_function: "".into(), filename: Some("".into()), name: Some("".into()), license: "".into(), version: 0, sketches: vec![] };
    println!("signature_emptystr {}", text_keys(&sig_json(&g)));
    let mut b = vec![];
    let mut full = sg.clone();
    full.sketches = samples.iter().map(|x| x.1.clone()).collect();
    build(&full).to_writer(&mut b).unwrap();
    let val: serde_json::Value = serde_json::from_slice(&b).unwrap();
    println!("top_is_array {}", val.is_array() && b.first() == Some(&b'['));

    // ---- what is read: every key of the written objects against the boundary values
    let mh_text = sketch_json(&samples[0].1);
    let hll_text = sketch_json(&h);
    let base = |t: &str| value_obj(serde_json::from_str(t).unwrap());
    let targets: Vec<(&str, Obj, fn(&str) -> Loaded)> = vec![
        ("kmh", base(&mh_text), load_kmh),
        ("btree", base(&sketch_json(&samples[3].1)), load_btree),
        ("hll", base(&hll_text), load_hll),
        ("signature", base(&sig_json(&sg)), load_sig),
    ];
    for (name, obj, load) in &targets {
        if !matches!(load(&obj_text(obj)), Loaded::Ok(_)) {
            println!("unloadable {}", name);
            continue;
        }
        for (k, _) in obj {
            for (label, text) in PROBES {
                let text = match *label {
                    "arr_mh" => format!("[{}]", mh_text),
                    "arr_hll" => format!("[{}]", hll_text),
                    _ => text.to_string(),
                };
                println!("probe {} {} {} {}", name, k, label, load(&obj_text(&obj_with(obj, k, Some(&text)))).word());
            }
            let r = load(&obj_text(&obj_with(obj, k, None)));
            let rb = match &r {
                Loaded::Ok(o) => obj_get(o, k).map(|v| hex(v.as_bytes())).unwrap_or_else(|| "~".into()),
                _ => "-".into(),
            };
            println!("absent {} {} {} {}", name, k, r.word(), rb);
        }
    }
    for (name, obj, load) in &targets[..2] {
        match positional(obj, *load) {
            Some(p) => println!("positional {} {}", name, p.join(" ")),
            None => println!("positional {} -", name),
        }
    }

    // ---- molecule strings: written, and what loads as what
    let hfs = [HashFunctions::Murmur64Dna, HashFunctions::Murmur64Protein, HashFunctions::Murmur64Dayhoff, HashFunctions::Murmur64Hp];
    let mut words: Vec<String> = vec![];
    for hf in &hfs {
        println!("molecule {:?} {}", hf, hf);
        words.extend(case_variants(&hf.to_string()));
        for kind in ['v', 't'] {
            let mut m = v.clone();
            m.kind = kind;
            m.mol = hf_mol(hf);
            let o = base(&sketch_json(&Sk::Mh(m)));
            let w: String = obj_get(&o, "molecule").and_then(|t| serde_json::from_str(t).ok()).unwrap_or_default();
            println!("written_molecule {} {:?} {}", if kind == 'v' { "kmh" } else { "btree" }, hf, hs(&w));
            words.extend(case_variants(&w));
        }
    }
    for w in ["DNA", "dna", "protein", "dayhoff", "hp", "", "rna", "dnax", "xdna", " dna", "dna ", "d", "dn", "h", "p", "murmur64dna", "Murmur64Dna", "0.murmur64", "d.n.a", "\u{ff24}\u{ff2e}\u{ff21}", "dna\u{0}", "\u{212a}"] {
        words.push(w.to_string());
    }
    let mut seen = BTreeSet::new();
    words.retain(|w| seen.insert(w.clone()));
    for (name, obj, _) in &targets[..2] {
        for w in &words {
            let t = obj_text(&obj_with(obj, "molecule", Some(&serde_json::to_string(w).unwrap())));
            let kmh = *name == "kmh";
            let r = std::panic::catch_unwind(move || {
                if kmh {
                    serde_json::from_str::<KmerMinHash>(&t).map(|x| format!("{:?}", x.hash_function()))
                } else {
                    serde_json::from_str::<KmerMinHashBTree>(&t).map(|x| format!("{:?}", x.hash_function()))
                }
            });
            let out = match r {
                Err(_) => "panic".to_string(),
                Ok(Err(_)) => "err".to_string(),
                Ok(Ok(v)) => format!("ok {}", v),
            };
            println!("molload {} {} {}", name, hs(w), out);
        }
        // `num` of a scaled sketch
        let nums: Vec<String> = ["0", "1", "18446744073709551615"]
            .iter()
            .map(|mh| {
                let t = obj_text(&obj_with(&obj_with(obj, "num", Some("5")), "max_hash", Some(mh)));
                let r = if *name == "kmh" {
                    serde_json::from_str::<KmerMinHash>(&t).map(|x| x.num()).ok()
                } else {
                    serde_json::from_str::<KmerMinHashBTree>(&t).map(|x| x.num()).ok()
                };
                r.map(|n| n.to_string()).unwrap_or_else(|| "err".into())
            })
            .collect();
        println!("numzero {} {}", name, nums.join(" "));
    }

    // ---- the Sketch enum
    fn short<T>(_: &T) -> &'static str {
        std::any::type_name::<T>().rsplit("::").next().unwrap()
    }
    fn variant(s: &Sketch) -> (&'static str, &'static str, String) {
        match s {
            Sketch::MinHash(x) => ("MinHash", short(x), serde_json::to_string(x).unwrap()),
            Sketch::LargeMinHash(x) => ("LargeMinHash", short(x), serde_json::to_string(x).unwrap()),
            Sketch::HyperLogLog(x) => ("HyperLogLog", short(x), serde_json::to_string(x).unwrap()),
        }
    }
    for s in [&samples[0].1, &samples[3].1, &h] {
        let sk = build_sk(s);
        let (var, payload, inner) = variant(&sk);
        println!("sketch_variant {} {}", var, payload);
        println!("sketch_untagged {} {}", var, serde_json::to_string(&sk).unwrap() == inner);
    }
    let mut all = base(&mh_text);
    for (k, v) in base(&hll_text) {
        if obj_get(&all, &k).is_none() {
            all.push((k, v));
        }
    }
    for (n, t) in [("mh", mh_text.clone()), ("mh_noabund", sketch_json(&samples[2].1)), ("hll", hll_text.clone()), ("all", obj_text(&all))] {
        let r = std::panic::catch_unwind(move || serde_json::from_str::<Sketch>(&t).map(|s| variant(&s).0));
        println!("sketch_load {} {}", n, match r {
            Err(_) => "panic",
            Ok(Err(_)) => "err",
            Ok(Ok(v)) => v,
        });
    }

    // ---- the serde defaults of a signature: load an object that carries only the keys that cannot be left out
    let (_, sobj, _) = &targets[3];
    let required: Vec<&(String, String)> = sobj.iter().filter(|(k, _)| !matches!(load_sig(&obj_text(&obj_with(sobj, k, None))), Loaded::Ok(_))).collect();
    let minimal: Obj = required.iter().map(|x| (*x).clone()).collect();
    match Signature::from_reader(format!("[{}]", obj_text(&minimal)).as_bytes()) {
        Ok(l) if l.len() == 1 => {
            let od = observe(&l[0]);
            println!("default class {}", hs(&od.class));
            println!("default license {}", hs(&od.license));
            println!("default email {}", hs(&od.email));
            println!("default hash_function {}", hs(&od.hash_function));
            println!("default version {:016x}", od.version);
            println!("default filename {}", hopt(&od.filename));
            println!("default name {}", hopt(&od.name));
        }
        _ => println!("unloadable signature_minimal"),
    }
    for (k, _) in sobj {
        println!("required {} {}", k, required.iter().any(|x| &x.0 == k));
    }
}

fn main() {
    let a = args();
    match a.mode.as_str() {
        "gen" => gen(&a),
        "exec" => exec_loop(|| (), step),
        "dump" => dump(),
        // `c06 mklife <ksize> <seed> <mol> <life>…`: request lines for one default signature holding these lives
        "mklife" => {
            let w: Vec<String> = std::env::args().skip(2).collect();
            let (ksize, seed, mol) = (w[0].parse().unwrap(), w[1].parse().unwrap(), parse_mol(&w[2]));
            let sk = w[3..].iter().map(|l| Sk::Mh(lived(l, ksize, seed, &mol).0)).collect();
            let mut o = Out::new();
            emit_life_ops(&mut o, default_sig(sk), None);
        }
        _ => panic!("mode"),
    }
}
