//! C09: index construction is independent of scheduling and of build increments.
//!
//! Request lines
//!   case <i> coll <d0>;<d1>;…      d_i = comma separated ascending hashes (`-` = empty dataset)
//!   case <i> codec                 no collection (codec / merge-operator requests)
//!   build <threads> <seed> <jit>   RevIndex::create inside a rayon pool of <threads>; jit=1 installs a
//!                                  seeded yield / micro-sleep callback at every write point
//!                                  -> `H <h:ids;…> P <ids>` (scan of HASHES, PROCESSED); a table of more
//!                                  than 100 keys is printed as the digest `n=<keys> p=<postings> x=<xor>
//!                                  s=<sum>` of `key * (id + 1) mod 2^64` over its postings
//!   membuild <threads>             mem RevIndex::new_with_sigs in a pool -> `H <h:ids;…>` (per-hash probes)
//!   extend <split> direct|reopen <threads> <seed>   create(C[..split]) then update(C) -> scan
//!   reject <split> <k> hashes|name create(C[..split]) then update(C with record k changed) -> `err …`
//!   rejectperm <split> front|swap  create(C[..split]) then update(new record in front | first two swapped) -> `err …`
//!   truncate <split> <m>           create(C[..split]) then update(C[..m]), m < split -> scan
//!   faulty <split> <threads> <seed> <ids> update|create err|panic mid|end
//!                                  FAULT INJECTION.  A build whose storage cannot deliver the signatures of
//!                                  the datasets <ids> (`+`-separated; a `Storage` wrapper whose `load` returns
//!                                  Err / panics for their internal locations): `update`: create(C[..split]),
//!                                  reopen, update(C over the faulty storage); `create`: create(C over the
//!                                  faulty storage) on a fresh directory — inside a pool of <threads> with
//!                                  jitter; the build aborts (the panic travels out of the pool after every
//!                                  other worker has finished its datasets), leaving a PROCESSED set with
//!                                  HOLES.  `mid` -> verdict of the invariants on what the aborted build left; `end` -> the build is
//!                                  then repeated with the healthy storage (open + update(C) / create(C) on
//!                                  the same directory) -> scan, which must be the reference
//!   reduce <polish tree>           N = node, I = identity, L<d> = leaf; h2c_* wrappers -> `<h:ids;…> cols=ok|bad`
//!   mergedb <tokens>               real merge operator through a scratch RocksDB: P<ids> put (first
//!                                  only), L<ids> merge operand, F flush, C compact -> `<variant>:<ids>`
//!   mergetree <ex> <polish forest> G<n> group of n trees, N<n> partial merge of n trees, L<ids> leaf;
//!                                  evaluated with the codec/union wrappers -> `<variant>:<ids>:<bytes>`
//!   enc <set>                      set = l:<ids> | r:<start>:<step>:<count> -> `<len> <fnv64> [<hex if short>]`
//!   encok <set>                    the two roaring assumptions + round trip -> ok
//!   dec <hex>                      from_slice of raw bytes (length 1 / 8) -> `<variant>:<ids>`
//!   union <a> <b>  /  ext <a> <ids>   Datasets::union / Extend -> `<variant>:<ids>`
use sourmash::index::revindex::mem_revindex;
use sourmash::index::revindex::verif_hooks as vh;
use sourmash::index::revindex::{RevIndex, RevIndexOps};
use sourmash::selection::Selection;
use sourmash::collection::Collection;
use sourmash::signature::Signature;
use sourmash::storage::{InnerStorage, Storage, StorageArgs, StorageError};
use std::collections::BTreeMap;
use std::path::Path;
use std::sync::atomic::{AtomicU64, Ordering};
use verif_harness::index_util::*;
use verif_harness::*;

// ------------------------------------------------------------------------------------ generator

fn show_coll(c: &[Vec<u64>]) -> String {
    c.iter().map(|d| show_nats(d.iter().copied())).collect::<Vec<_>>().join(";")
}

fn universe(r: &mut Rng) -> Vec<u64> {
    let n = r.range(3, 24) as usize;
    let mut u: Vec<u64> = (0..n)
        .map(|i| match r.below(10) {
            0 => u64::MAX - r.below(4),
            1 => (1u64 << 63) + r.below(8),
            2 => r.bits(64),
            _ => i as u64 * 3 + r.below(3),
        })
        .collect();
    u.sort_unstable();
    u.dedup();
    u
}

fn rand_coll(r: &mut Rng, max_d: u64) -> Vec<Vec<u64>> {
    let u = universe(r);
    let nd = r.range(1, max_d) as usize;
    let mut c: Vec<Vec<u64>> = vec![];
    for i in 0..nd {
        if i > 0 && r.chance(1, 6) {
            let j = r.below(i as u64) as usize;
            c.push(c[j].clone());
            continue;
        }
        if r.chance(1, 10) {
            c.push(vec![]);
            continue;
        }
        let dens = r.range(1, 4);
        let mut d: Vec<u64> = u.iter().copied().filter(|_| r.chance(dens, 5)).collect();
        if d.is_empty() {
            d.push(*r.pick(&u));
        }
        c.push(d);
    }
    c
}

/// sizes at the boundaries of the batching / container constants a build may use
const BIG: [u64; 12] = [1023, 1024, 1025, 2047, 2048, 2049, 4095, 4096, 4097, 3000, 1500, 5000];

/// `n` ascending hashes starting near `base` with gaps of 1..=gap
fn ladder(r: &mut Rng, base: u64, n: u64, gap: u64) -> Vec<u64> {
    let mut v = Vec::with_capacity(n as usize);
    let mut x = base;
    for _ in 0..n {
        x += r.range(1, gap);
        v.push(x);
    }
    v
}

fn large_sizes(r: &mut Rng, k: u64) -> Vec<u64> {
    match k % 6 {
        0 => vec![1024, 1023, 1025],
        1 => vec![2049, 2047],
        2 => vec![4097, 1024],
        3 => vec![4095, 2048],
        4 => vec![4096, *r.pick(&BIG[..6])],
        _ => vec![r.range(1000, 5000), *r.pick(&BIG)],
    }
}

/// a collection with large datasets: `sizes` hashes drawn from one ladder (so that they overlap), plus a
/// few small datasets that share hashes with them
fn large_coll(r: &mut Rng, sizes: &[u64]) -> Vec<Vec<u64>> {
    let maxn = *sizes.iter().max().unwrap();
    let base = if r.chance(1, 4) { (1u64 << 62) + r.below(1000) } else { r.below(1 << 40) };
    let u = ladder(r, base, maxn + maxn / 8 + 8, 5);
    let mut c: Vec<Vec<u64>> = vec![];
    for &n in sizes {
        // a prefix of the ladder, a window, or an even spread: exactly n hashes
        let d: Vec<u64> = match r.below(3) {
            0 => u[..n as usize].to_vec(),
            1 => {
                let off = r.below(u.len() as u64 - n + 1) as usize;
                u[off..off + n as usize].to_vec()
            }
            _ => {
                let mut idx: Vec<usize> = (0..u.len()).collect();
                for i in 0..n as usize {
                    let j = i + r.below((u.len() - i) as u64) as usize;
                    idx.swap(i, j);
                }
                let mut d: Vec<u64> = idx[..n as usize].iter().map(|&i| u[i]).collect();
                d.sort_unstable();
                d
            }
        };
        c.push(d);
    }
    let nsmall = r.range(1, 3);
    for _ in 0..nsmall {
        let big = &c[r.below(sizes.len() as u64) as usize];
        let mut d: Vec<u64> = big.iter().copied().filter(|_| r.chance(1, 60)).collect();
        // the hashes at the ends of 1024-chunks of a big dataset are favourites
        for p in [1022usize, 1023, 1024, 2047, 2048, 4095, 4096] {
            if p < big.len() && r.chance(1, 2) {
                d.push(big[p]);
            }
        }
        d.push(*r.pick(&u));
        d.sort_unstable();
        d.dedup();
        c.push(d);
    }
    // the position of the big datasets varies
    if r.chance(1, 2) {
        let k = c.len() - 1;
        c.swap(0, k);
    }
    c
}

fn sorted_set(r: &mut Rng, n: usize, bound: u64) -> Vec<u64> {
    let mut v: Vec<u64> = (0..n).map(|_| r.below(bound)).collect();
    v.sort_unstable();
    v.dedup();
    v
}

fn rand_rtree(r: &mut Rng, leaves: &[usize], shape: u64, out: &mut Vec<String>) {
    if leaves.is_empty() {
        out.push("I".into());
        return;
    }
    if r.chance(1, 12) {
        // rayon may feed the identity anywhere
        out.push("N".into());
        if r.chance(1, 2) {
            out.push("I".into());
            rand_rtree(r, leaves, shape, out);
        } else {
            rand_rtree(r, leaves, shape, out);
            out.push("I".into());
        }
        return;
    }
    if leaves.len() == 1 {
        out.push(format!("L{}", leaves[0]));
        return;
    }
    let k = match shape {
        0 => leaves.len() - 1, // left-deep
        1 => 1,                // right-deep
        2 => leaves.len() / 2, // balanced
        _ => r.range(1, leaves.len() as u64 - 1) as usize,
    };
    out.push("N".into());
    rand_rtree(r, &leaves[..k], shape, out);
    rand_rtree(r, &leaves[k..], shape, out);
}

fn shuffle<T>(r: &mut Rng, v: &mut [T]) {
    for i in (1..v.len()).rev() {
        let j = r.below(i as u64 + 1) as usize;
        v.swap(i, j);
    }
}

fn rand_mtree(r: &mut Rng, depth: u32, id_bound: u64, out: &mut Vec<String>) {
    if depth == 0 || r.chance(3, 5) {
        let n = match r.below(8) {
            0 => 0,
            1..=4 => 1,
            _ => r.range(2, 6) as usize,
        };
        out.push(format!("L{}", show_nats(sorted_set(r, n, id_bound))));
    } else {
        let n = r.range(0, 4);
        out.push(format!("N{}", n));
        for _ in 0..n {
            rand_mtree(r, depth - 1, id_bound, out);
        }
    }
}

fn gen(a: &Args) {
    let mut r = Rng::new(a.seed);
    let mut o = Out::new();
    let thorough = a.tier == "thorough";
    let threads = [1u64, 2, 3, 4, 8, 16];

    // --- codec, union, extend, merge trees through the wrappers (cheap)
    o.case("codec");
    for ids in ["-", "0", "1", "4294967295", "0,1", "0,4294967295", "65535,65536", "12346,12347"] {
        o.op(&format!("enc l:{}", ids));
        o.op(&format!("encok l:{}", ids));
    }
    // container boundaries, array/bitmap limit (4096), sizes 2..5000, ids up to 2^32-1
    for (s, st, c) in [
        (0u64, 1u64, 4096u64), (0, 1, 4097), (0, 1, 5000), (65000, 1, 5000), (0, 13, 5000), (0, 16, 4097),
        (4294962296, 1, 5000), (4294967294, 1, 2), (65535, 65536, 300), (0, 65536, 5000), (1, 858993, 5000),
        (61440, 1, 4096), (61439, 1, 4098), (0, 2, 4097), (3, 7, 2), (0, 0, 1),
    ] {
        o.case("codec");
        o.op(&format!("enc r:{}:{}:{}", s, st, c));
        o.op(&format!("encok r:{}:{}:{}", s, st, c));
    }
    let n = if thorough { 6000 } else { 500 };
    for i in 0..n {
        if i % 40 == 0 {
            o.case("codec"); // independent cases run in parallel
        }
        let k = match r.below(6) {
            0 => r.range(2, 5),
            1 => r.range(2, 64),
            2 => r.range(64, 400),
            _ => r.range(2, 40),
        } as usize;
        let bound = *r.pick(&[8u64, 70, 70_000, 200_000, 1 << 20, 1 << 32]);
        let s = sorted_set(&mut r, k, bound);
        o.op(&format!("enc l:{}", show_nats(s.iter().copied())));
        o.op(&format!("encok l:{}", show_nats(s.iter().copied())));
        if i % 4 == 0 {
            let (st, step, cnt) = (r.bits(32), r.range(1, 70_000), r.range(2, 5000));
            let cnt = cnt.min(((1u64 << 32) - 1 - st) / step + 1).max(1);
            o.op(&format!("enc r:{}:{}:{}", st, step, cnt));
            o.op(&format!("encok r:{}:{}:{}", st, step, cnt));
        }
    }
    // raw decodes of the two reserved lengths
    for _ in 0..(if thorough { 2000 } else { 200 }) {
        let len = if r.chance(1, 4) { 1 } else { 8 };
        let bs: Vec<u8> = (0..len).map(|_| if r.chance(1, 3) { 0 } else { r.below(256) as u8 }).collect();
        o.op(&format!("dec {}", hex(&bs)));
    }
    o.op("dec 2a");
    o.op("dec 3a30000000000000"); // an empty roaring bitmap is 8 bytes: read back as Unique(12346)
    o.case("setops");
    let n = if thorough { 40_000 } else { 3000 };
    for _ in 0..n {
        let bound = *r.pick(&[4u64, 10, 100_000, 1 << 32]);
        let ka = *r.pick(&[0usize, 1, 1, 2, 3, 6]);
        let kb = *r.pick(&[0usize, 1, 1, 2, 3, 6]);
        let a = sorted_set(&mut r, ka, bound);
        let b = sorted_set(&mut r, kb, bound);
        o.op(&format!("union {} {}", show_nats(a.iter().copied()), show_nats(b.iter().copied())));
        // extend takes an arbitrary (unsorted, repeating) iterator
        let ke = *r.pick(&[0usize, 1, 1, 1, 2, 3, 4, 7]);
        let e: Vec<u64> = (0..ke).map(|_| r.below(bound)).collect();
        o.op(&format!("ext {} {}", show_nats(a.iter().copied()), show_nats(e.iter().copied())));
    }
    o.op("ext - 1,2,3,4");
    o.case("mergetree");
    let n = if thorough { 30_000 } else { 2500 };
    for _ in 0..n {
        let bound = *r.pick(&[3u64, 6, 40, 100_000]);
        let ex = match r.below(4) {
            0 => "none".to_string(),
            _ => {
                let k = *r.pick(&[0usize, 1, 2, 4]);
                show_nats(sorted_set(&mut r, k, bound))
            }
        };
        let mut toks = vec![];
        let ng = r.range(0, 3);
        for _ in 0..ng {
            let nt = r.range(0, 4);
            toks.push(format!("G{}", nt));
            for _ in 0..nt {
                rand_mtree(&mut r, 3, bound, &mut toks);
            }
        }
        o.op(&format!("mergetree {} {}", ex, toks.join(" ")));
    }

    // --- the real merge operator inside RocksDB, operands grouped by flush / compaction
    let n = if thorough { 600 } else { 30 };
    for _ in 0..n {
        o.case("codec");
        for _ in 0..3 {
            let bound = *r.pick(&[3u64, 8, 100_000]);
            let mut toks = vec![];
            if r.chance(1, 3) {
                let k = *r.pick(&[0usize, 1, 3]);
                toks.push(format!("P{}", show_nats(sorted_set(&mut r, k, bound))));
            }
            let nops = r.range(0, 14);
            for _ in 0..nops {
                let k = *r.pick(&[0usize, 1, 1, 1, 1, 2, 4]);
                toks.push(format!("L{}", show_nats(sorted_set(&mut r, k, bound))));
                match r.below(6) {
                    0 => toks.push("F".into()),
                    1 => toks.push("C".into()),
                    2 => {
                        toks.push("F".into());
                        toks.push("C".into());
                    }
                    _ => {}
                }
            }
            o.op(&format!("mergedb {}", toks.join(" ")));
        }
    }

    // --- builds under schedules
    let n = if thorough { 400 } else { 28 };
    for ci in 0..n {
        let c = rand_coll(&mut r, 8);
        o.case(&format!("coll {}", show_coll(&c)));
        let nd = c.len();
        // three disk builds: sequential reference pool, and two parallel ones with jitter
        o.op(&format!("build 1 {} 0", r.bits(16)));
        let t = *r.pick(&threads);
        o.op(&format!("build {} {} 1", t, r.bits(16)));
        if ci % 2 == 0 {
            o.op(&format!("build {} {} {}", threads[(ci / 2) % 6], r.bits(16), r.below(2)));
        }
        o.op(&format!("membuild {}", r.pick(&threads)));
        // reduction trees of the in-memory reducer
        for shape in 0..4u64 {
            let mut leaves: Vec<usize> = (0..nd).collect();
            if shape > 0 || r.chance(1, 2) {
                shuffle(&mut r, &mut leaves);
            }
            let mut toks = vec![];
            rand_rtree(&mut r, &leaves, shape, &mut toks);
            o.op(&format!("reduce {}", toks.join(" ")));
        }
        // increments
        if nd >= 1 {
            let split = r.range(0, nd as u64);
            let mode = if r.chance(1, 2) { "direct" } else { "reopen" };
            o.op(&format!("extend {} {} {} {}", split, mode, r.pick(&threads), r.bits(16)));
        }
        if nd >= 2 && ci % 2 == 1 {
            let split = r.range(1, nd as u64);
            let k = r.below(split);
            let kind = if r.chance(1, 2) { "hashes" } else { "name" };
            o.op(&format!("reject {} {} {}", split, k, kind));
        }
        if nd >= 2 && ci % 2 == 0 {
            // every indexed record is still present, but not at the front: must be rejected too
            let split = r.range(2, nd as u64);
            o.op(&format!("rejectperm {} {}", split, if r.chance(1, 2) { "front" } else { "swap" }));
        }
        if nd >= 2 && ci % 4 == 2 {
            let split = r.range(2, nd as u64);
            let m = r.range(1, split - 1);
            o.op(&format!("truncate {} {}", split, m));
        }
    }
    // --- the large family: datasets of 1000..5000 hashes (sizes at the boundaries of the batching and
    // container constants a build may use) through create, update and the in-memory build
    let n = if thorough { 18 } else { 6 };
    for k in 0..n {
        let sizes = large_sizes(&mut r, k);
        let c = large_coll(&mut r, &sizes);
        o.case(&format!("coll {}", show_coll(&c)));
        let nd = c.len() as u64;
        o.op(&format!("build 1 {} 0", r.bits(16)));
        o.op(&format!("build {} {} 1", r.pick(&threads[1..]), r.bits(16)));
        o.op(&format!("membuild {}", r.pick(&threads)));
        let mode = if r.chance(1, 2) { "direct" } else { "reopen" };
        o.op(&format!("extend {} {} {} {}", r.range(1, nd - 1), mode, r.pick(&threads), r.bits(16)));
        if thorough {
            o.op(&format!("extend {} reopen {} {}", r.range(0, nd), r.pick(&threads), r.bits(16)));
            o.op(&format!("membuild {}", r.pick(&threads)));
        }
    }
    // more reduction trees on larger collections (cheap, no RocksDB)
    let n = if thorough { 4000 } else { 300 };
    for _ in 0..n {
        let c = rand_coll(&mut r, 8);
        o.case(&format!("coll {}", show_coll(&c)));
        for _ in 0..4 {
            let mut leaves: Vec<usize> = (0..c.len()).collect();
            shuffle(&mut r, &mut leaves);
            let mut toks = vec![];
            let shape = r.below(4);
            rand_rtree(&mut r, &leaves, shape, &mut toks);
            o.op(&format!("reduce {}", toks.join(" ")));
        }
    }
    // --- fault sequences (generated last: the streams above are the same requests as before): an initial
    // build plus an extension that ABORTS because some signatures cannot be loaded, then the same extension
    // again with everything readable
    let n = if thorough { 500 } else { 36 };
    let nlarge = if thorough { 12 } else { 2 };
    for ci in 0..n + nlarge {
        let c = if ci < n {
            let mut c = rand_coll(&mut r, 10);
            while c.len() < 3 {
                c.push(vec![r.below(40), 100 + r.below(5)]);
            }
            c
        } else {
            let sizes = large_sizes(&mut r, ci);
            large_coll(&mut r, &sizes)
        };
        o.case(&format!("coll {}", show_coll(&c)));
        let nd = c.len() as u64;
        let nreq = if ci < n { 3 } else { 2 };
        for k in 0..nreq {
            let via = if k == 2 || (ci >= n && k == 1) { "create" } else { "update" };
            // at least two datasets are new, the failing ones are mostly the FIRST new ones (later ones get
            // indexed by the other workers: the processed set is then not a prefix of the collection)
            let split = if via == "create" { 0 } else { r.range(if ci % 5 == 0 { 0 } else { 1 }, nd - 2) };
            let mut fails: Vec<u64> = vec![];
            match r.below(4) {
                0 | 1 => fails.push(split),
                2 => {
                    fails.push(split);
                    if split + 2 < nd {
                        fails.push(r.range(split + 1, nd - 2));
                    }
                }
                _ => {
                    for d in split..nd {
                        if r.chance(1, 3) {
                            fails.push(d);
                        }
                    }
                    if fails.is_empty() {
                        fails.push(r.range(split, nd - 1));
                    }
                }
            }
            fails.dedup();
            let ids = fails.iter().map(|x| x.to_string()).collect::<Vec<_>>().join("+");
            let t = *r.pick(&[2u64, 2, 3, 4, 4, 1, 8]);
            let seed = r.bits(16);
            let how = if r.chance(1, 2) { "err" } else { "panic" };
            if k == 0 {
                o.op(&format!("faulty {} {} {} {} {} {} mid", split, t, seed, ids, via, how));
            }
            o.op(&format!("faulty {} {} {} {} {} {} end", split, t, seed, ids, via, how));
        }
    }
}

// ------------------------------------------------------------------------------------ exec

#[derive(Default)]
struct St {
    coll: Vec<Vec<u64>>,
}

fn ids32(s: &str) -> Vec<u32> {
    parse_nats(s).into_iter().map(|x| x as u32).collect()
}

fn show_ds(d: &vh_ds::D) -> String {
    let mut ids: Vec<u32> = d.clone().into_iter().collect();
    ids.sort_unstable();
    format!("{}:{}", vh::datasets_variant(d), show_nats(ids.iter().map(|x| *x as u64)))
}
mod vh_ds {
    pub type D = sourmash::index::revindex::Datasets;
}

fn parse_set(s: &str) -> Vec<u32> {
    if let Some(l) = s.strip_prefix("l:") {
        ids32(l)
    } else {
        let p: Vec<u64> = s[2..].split(':').map(|x| x.parse().unwrap()).collect();
        (0..p[2]).map(|i| (p[0] + i * p[1]) as u32).collect()
    }
}

fn fnv64(bs: &[u8]) -> u64 {
    let mut h: u64 = 14695981039346656037;
    for b in bs {
        h ^= *b as u64;
        h = h.wrapping_mul(1099511628211);
    }
    h
}

fn show_bytes(bs: &[u8]) -> String {
    if bs.len() <= 64 {
        format!("{} {} {}", bs.len(), fnv64(bs), hex(bs))
    } else {
        format!("{} {}", bs.len(), fnv64(bs))
    }
}

static JSEED: AtomicU64 = AtomicU64::new(0);
fn jitter(_kind: u8, d: u32, n: u64) {
    let c = JSEED.fetch_add(0x9E37_79B9_7F4A_7C15, Ordering::Relaxed);
    let mut x = c ^ (d as u64).wrapping_mul(0xD6E8_FEB8_6659_FD93) ^ n;
    x ^= x >> 29;
    x = x.wrapping_mul(0xBF58_476D_1CE4_E5B9);
    x ^= x >> 32;
    match x % 5 {
        0 | 1 => std::thread::yield_now(),
        2 => std::thread::sleep(std::time::Duration::from_micros((x >> 8) % 40)),
        _ => {}
    }
}

fn in_pool<T: Send>(threads: usize, f: impl FnOnce() -> T + Send) -> T {
    rayon::ThreadPoolBuilder::new().num_threads(threads).build().unwrap().install(f)
}

fn sigs_of(c: &[Vec<u64>]) -> Vec<Signature> {
    c.iter().enumerate().map(|(i, d)| make_sig(&format!("d{}", i), d, None, 1)).collect()
}

fn scan(dir: &Path) -> String {
    let (h, p) = scan_raw(dir);
    format!(
        "H {} P {}",
        show_table(&h),
        match p {
            Some(p) => show_nats(p.iter().map(|x| *x as u64)),
            None => "absent".into(),
        }
    )
}

fn scan_raw(dir: &Path) -> (BTreeMap<u64, Vec<u32>>, Option<Vec<u32>>) {
    let db = vh::open_scratch_db(dir);
    let cf = db.cf_handle(vh::HASHES_CF).unwrap();
    let mut h = BTreeMap::new();
    for item in db.iterator_cf(&cf, rocksdb::IteratorMode::Start) {
        let (k, v) = item.unwrap();
        let key = u64::from_le_bytes(k[..8].try_into().unwrap());
        let mut ids: Vec<u32> = vh::datasets_from_slice(&v).unwrap().into_iter().collect();
        ids.sort_unstable();
        h.insert(key, ids);
    }
    let cfm = db.cf_handle(vh::METADATA_CF).unwrap();
    let p = db.get_cf(&cfm, vh::PROCESSED_KEY).unwrap().map(|v| {
        let mut ids: Vec<u32> = vh::datasets_from_slice(&v).unwrap().into_iter().collect();
        ids.sort_unstable();
        ids
    });
    (h, p)
}

/// what an ABORTED build may leave behind (which datasets the other workers got to is up to rayon's
/// splitting): every dataset marked processed has all its hashes posted, every posting is genuine and
/// belongs to a processed dataset (a worker finishes the dataset it has started), the datasets of the
/// initial build are all there, a dataset whose signature could not be loaded left nothing
fn abort_invariants(coll: &[Vec<u64>], dir: &Path, old: usize, fails: &[usize]) -> String {
    let (h, p) = scan_raw(dir);
    let p = p.unwrap_or_default();
    for d in 0..old {
        if !p.contains(&(d as u32)) {
            return format!("inv-bad old-dataset-lost {}", d);
        }
    }
    for &d in &p {
        if d as usize >= coll.len() || fails.contains(&(d as usize)) {
            return format!("inv-bad processed {}", d);
        }
        for x in &coll[d as usize] {
            if !h.get(x).map(|ids| ids.contains(&d)).unwrap_or(false) {
                return format!("inv-bad marker-without-hash {} {}", d, x);
            }
        }
    }
    for (x, ids) in &h {
        for d in ids {
            if !p.contains(d) || !coll[*d as usize].contains(x) {
                return format!("inv-bad posting {} {}", x, d);
            }
        }
    }
    "inv-ok".into()
}

/// a table `hash -> ids`: the exact list up to 100 keys; beyond, a digest: number of keys, number of
/// postings, XOR and sum (mod 2^64) of `key * (id + 1) mod 2^64` over the postings
fn show_table(h: &BTreeMap<u64, Vec<u32>>) -> String {
    if h.is_empty() {
        "-".into()
    } else if h.len() <= 100 {
        h.iter()
            .map(|(k, ids)| format!("{}:{}", k, show_nats(ids.iter().map(|x| *x as u64))))
            .collect::<Vec<_>>()
            .join(";")
    } else {
        let (mut p, mut x, mut s) = (0u64, 0u64, 0u64);
        for (k, ids) in h {
            for id in ids {
                let v = k.wrapping_mul(*id as u64 + 1);
                p += 1;
                x ^= v;
                s = s.wrapping_add(v);
            }
        }
        format!("n={} p={} x={} s={}", h.len(), p, x, s)
    }
}

fn with_jitter<T>(seed: u64, on: bool, f: impl FnOnce() -> T) -> T {
    if on {
        JSEED.store(seed, Ordering::Relaxed);
        vh::set_point_callback(Some(jitter));
    }
    let r = f();
    vh::set_point_callback(None);
    r
}

/// reduction tree in Polish notation over the hook wrappers
fn eval_rtree(toks: &[&str], pos: &mut usize, coll: &[Vec<u64>]) -> vh::Reducible {
    let t = toks[*pos];
    *pos += 1;
    if t == "I" {
        vh::h2c_new()
    } else if t == "N" {
        let a = eval_rtree(toks, pos, coll);
        let b = eval_rtree(toks, pos, coll);
        vh::h2c_reduce(a, b)
    } else {
        let d: usize = t[1..].parse().unwrap();
        let mut r = vh::h2c_new();
        // mem map_hashes_colors: add_to only for a non-empty sketch (an empty one is filtered out)
        if !coll[d].is_empty() {
            vh::h2c_add_to(&mut r, d as u32, coll[d].clone());
        }
        r
    }
}

fn merge_like(existing: Option<&[u8]>, ops: &[Vec<u8>]) -> Vec<u8> {
    // body of merge_datasets over the exported codec / union
    let mut d = existing.and_then(vh::datasets_from_slice).unwrap_or_default();
    for op in ops {
        vh::datasets_union(&mut d, vh::datasets_from_slice(op).unwrap());
    }
    vh::datasets_as_bytes(&d).unwrap()
}

fn eval_mtree(toks: &[&str], pos: &mut usize) -> Vec<u8> {
    let t = toks[*pos];
    *pos += 1;
    if let Some(ids) = t.strip_prefix('L') {
        vh::datasets_as_bytes(&vh::datasets_new(&ids32(ids))).unwrap()
    } else {
        let n: usize = t[1..].parse().unwrap();
        let ops: Vec<Vec<u8>> = (0..n).map(|_| eval_mtree(toks, pos)).collect();
        merge_like(None, &ops)
    }
}

/// a storage that delegates to `inner`, except that `load` of the paths in `bad` fails: `Err`, or a panic
struct Faulty {
    inner: InnerStorage,
    bad: Vec<String>,
    panic: bool,
}

impl Storage for Faulty {
    fn save(&self, path: &str, content: &[u8]) -> sourmash::Result<String> {
        self.inner.save(path, content)
    }
    fn load(&self, path: &str) -> sourmash::Result<Vec<u8>> {
        if self.bad.iter().any(|b| b == path) {
            if self.panic {
                panic!("injected fault: load {}", path);
            }
            return Err(StorageError::DataReadError(path.into()).into());
        }
        self.inner.load(path)
    }
    fn args(&self) -> StorageArgs {
        self.inner.args()
    }
    fn spec(&self) -> String {
        self.inner.spec()
    }
}

fn shm_scratch_dir() -> tempfile::TempDir {
    let shm = Path::new("/dev/shm");
    if shm.is_dir() {
        if let Ok(d) = tempfile::Builder::new().prefix("verif-idx-").tempdir_in(shm) {
            return d;
        }
    }
    scratch_dir()
}

/// `faulty`: see the module comment
fn faulty(st: &St, ws: &[&str]) -> String {
    let split: usize = ws[1].parse().unwrap();
    let threads: usize = ws[2].parse().unwrap();
    let seed: u64 = ws[3].parse().unwrap();
    let fails: Vec<usize> = ws[4].split('+').filter(|x| !x.is_empty() && *x != "-").map(|x| x.parse().unwrap()).collect();
    let update = ws[5] == "update";
    let panic = ws[6] == "panic";
    let tmp = shm_scratch_dir();
    let paths = write_sig_files(&tmp.path().join("sigs"), &sigs_of(&st.coll));
    let dir = tmp.path().join("idx");
    if update {
        let idx = in_pool(threads, || RevIndex::create(&dir, fs_collection(&paths[..split.min(paths.len())]), false)).unwrap();
        drop(idx);
    }
    // the collection over a storage that cannot deliver the chosen signatures
    let broken = || -> sourmash::collection::CollectionSet {
        let good = Collection::from_paths(&paths).unwrap();
        let bad: Vec<String> = fails
            .iter()
            .filter(|i| **i < good.len())
            .map(|i| good.manifest()[*i].internal_location().to_string())
            .collect();
        let f = Faulty { inner: good.storage().clone(), bad, panic };
        Collection::new(good.manifest().clone(), InnerStorage::new(f)).try_into().unwrap()
    };
    let r = std::panic::catch_unwind(std::panic::AssertUnwindSafe(|| {
        with_jitter(seed, true, || {
            in_pool(threads, || {
                if update {
                    RevIndex::open(&dir, false, None).unwrap().update(broken()).map(|_| ())
                } else {
                    RevIndex::create(&dir, broken(), false).map(|_| ())
                }
            })
        })
    }));
    vh::set_point_callback(None);
    let aborted = match r {
        Err(_) => "aborted",
        Ok(Err(_)) => "failed",
        Ok(Ok(())) => "completed",
    };
    if ws[7] == "mid" {
        return format!("{} {}", aborted, abort_invariants(&st.coll, &dir, if update { split } else { 0 }, &fails));
    }
    // again, everything readable
    let r = with_jitter(seed ^ 0x5555, true, || {
        in_pool(threads, || {
            if update {
                RevIndex::open(&dir, false, None).and_then(|idx| idx.update(fs_collection(&paths))).map(|_| ())
            } else {
                RevIndex::create(&dir, fs_collection(&paths), false).map(|_| ())
            }
        })
    });
    match r {
        Ok(()) => format!("{} {}", aborted, scan(&dir)),
        Err(e) => format!("{} err {:?}", aborted, e),
    }
}

fn step(st: &mut St, ws: &[&str]) -> String {
    match ws[0] {
        "faulty" => faulty(st, ws),
        "case" => {
            st.coll = if ws.get(2) == Some(&"coll") {
                ws[3].split(';').map(parse_nats).collect()
            } else {
                vec![]
            };
            "ok".into()
        }
        "build" => {
            let (threads, seed, jit): (usize, u64, bool) =
                (ws[1].parse().unwrap(), ws[2].parse().unwrap(), ws[3] == "1");
            let tmp = scratch_dir();
            let paths = write_sig_files(&tmp.path().join("sigs"), &sigs_of(&st.coll));
            let dir = tmp.path().join("idx");
            let coll = fs_collection(&paths);
            let r = with_jitter(seed, jit, || in_pool(threads, || RevIndex::create(&dir, coll, false)));
            match r {
                Ok(idx) => {
                    drop(idx);
                    scan(&dir)
                }
                Err(e) => format!("err {:?}", e),
            }
        }
        "membuild" => {
            let threads: usize = ws[1].parse().unwrap();
            let sigs = sigs_of(&st.coll);
            let sel = Selection::builder().ksize(KSIZE).scaled(1).build();
            let idx = in_pool(threads, || mem_revindex::RevIndex::new_with_sigs(sigs, &sel, 0, None));
            match idx {
                Ok(idx) => {
                    let mut all: Vec<u64> = st.coll.iter().flatten().copied().collect();
                    all.sort_unstable();
                    all.dedup();
                    let mut h = BTreeMap::new();
                    for x in all {
                        let c = idx.counter_for_query(&make_mh(&[x], None, 1));
                        let mut ids: Vec<u32> = c.keys().copied().collect();
                        ids.sort_unstable();
                        assert!(c.values().all(|v| *v == 1));
                        if !ids.is_empty() {
                            h.insert(x, ids);
                        }
                    }
                    format!("H {}", show_table(&h))
                }
                Err(e) => format!("err {:?}", e),
            }
        }
        "extend" | "reject" | "rejectperm" | "truncate" => {
            let split: usize = ws[1].parse().unwrap();
            let tmp = scratch_dir();
            let mut sigs = sigs_of(&st.coll);
            let paths = write_sig_files(&tmp.path().join("sigs"), &sigs);
            let dir = tmp.path().join("idx");
            let (threads, seed, reopen) = if ws[0] == "extend" {
                (ws[3].parse().unwrap(), ws[4].parse().unwrap(), ws[2] == "reopen")
            } else {
                (2usize, 0u64, true)
            };
            let idx = in_pool(threads, || RevIndex::create(&dir, fs_collection(&paths[..split]), false)).unwrap();
            let newcoll = match ws[0] {
                "extend" => fs_collection(&paths),
                "truncate" => fs_collection(&paths[..ws[2].parse::<usize>().unwrap()]),
                "rejectperm" => {
                    if ws[2] == "front" {
                        sigs.insert(0, make_sig("front", &[999_983], None, 1));
                    } else {
                        sigs.swap(0, 1);
                    }
                    let p2 = write_sig_files(&tmp.path().join("sigs2"), &sigs);
                    fs_collection(&p2)
                }
                _ => {
                    let k: usize = ws[2].parse().unwrap();
                    sigs[k] = if ws[3] == "hashes" {
                        let mut hs = st.coll[k].clone();
                        hs.push(999_983);
                        hs.sort_unstable();
                        hs.dedup();
                        if hs == st.coll[k] {
                            hs.pop();
                        }
                        make_sig(&format!("d{}", k), &hs, None, 1)
                    } else {
                        make_sig(&format!("other{}", k), &st.coll[k], None, 1)
                    };
                    let p2 = write_sig_files(&tmp.path().join("sigs2"), &sigs);
                    fs_collection(&p2)
                }
            };
            let idx = if reopen {
                drop(idx);
                RevIndex::open(&dir, false, None).unwrap()
            } else {
                idx
            };
            let r = with_jitter(seed, ws[0] == "extend", || in_pool(threads, || idx.update(newcoll)));
            match r {
                Ok(idx) => {
                    drop(idx);
                    scan(&dir)
                }
                Err(e) => format!("err {:?}", e),
            }
        }
        "reduce" => {
            let mut pos = 1;
            let r = eval_rtree(ws, &mut pos, &st.coll);
            let dump = vh::h2c_dump(&r);
            let mut used: Vec<&Vec<u32>> = dump.iter().map(|(_, ids)| ids).collect();
            used.sort();
            used.dedup();
            let h: BTreeMap<u64, Vec<u32>> = dump.iter().cloned().collect();
            format!("{} cols={}", show_table(&h), if vh::h2c_ncolors(&r) >= used.len() { "ok" } else { "bad" })
        }
        "mergedb" => {
            let tmp = scratch_dir();
            let db = vh::open_scratch_db(tmp.path());
            let cf = db.cf_handle(vh::HASHES_CF).unwrap();
            let key = 7u64.to_le_bytes();
            for t in &ws[1..] {
                match &t[..1] {
                    "P" => db
                        .put_cf(&cf, key, vh::datasets_as_bytes(&vh::datasets_new(&ids32(&t[1..]))).unwrap())
                        .unwrap(),
                    "L" => db
                        .merge_cf(&cf, key, vh::datasets_as_bytes(&vh::datasets_new(&ids32(&t[1..]))).unwrap())
                        .unwrap(),
                    "F" => db.flush_cf(&cf).unwrap(),
                    _ => db.compact_range_cf(&cf, None::<&[u8]>, None::<&[u8]>),
                }
            }
            match db.get_cf(&cf, key).unwrap() {
                Some(v) => show_ds(&vh::datasets_from_slice(&v).unwrap()),
                None => "absent".into(),
            }
        }
        "mergetree" => {
            let mut cur: Option<Vec<u8>> = if ws[1] == "none" {
                None
            } else {
                Some(vh::datasets_as_bytes(&vh::datasets_new(&ids32(ws[1]))).unwrap())
            };
            let mut pos = 2;
            while pos < ws.len() {
                let n: usize = ws[pos][1..].parse().unwrap();
                pos += 1;
                let ops: Vec<Vec<u8>> = (0..n).map(|_| eval_mtree(ws, &mut pos)).collect();
                cur = Some(merge_like(cur.as_deref(), &ops));
            }
            match cur {
                Some(v) => format!("{}:{}", show_ds(&vh::datasets_from_slice(&v).unwrap()), show_bytes(&v).replace(' ', "/")),
                None => "absent".into(),
            }
        }
        "enc" => {
            let ids = parse_set(ws[1]);
            show_bytes(&vh::datasets_as_bytes(&vh::datasets_new(&ids)).unwrap())
        }
        "encok" => {
            let ids = parse_set(ws[1]);
            let d = vh::datasets_new(&ids);
            let bs = vh::datasets_as_bytes(&d).unwrap();
            let back = vh::datasets_from_slice(&bs).unwrap();
            let want_variant = ids.len().min(2) as u8;
            let len_ok = ids.len() < 2 || (bs.len() != 1 && bs.len() != 8);
            let back_ids: Vec<u32> = back.clone().into_iter().collect();
            if len_ok
                && back_ids == ids
                && vh::datasets_variant(&back) == want_variant
                && vh::datasets_len(&back) == ids.len()
                && ids.iter().all(|i| vh::datasets_contains(&back, *i))
            {
                "ok".into()
            } else {
                format!("bad len={} variant={} n={}", bs.len(), vh::datasets_variant(&back), back_ids.len())
            }
        }
        "dec" => show_ds(&vh::datasets_from_slice(&unhex(ws[1])).unwrap()),
        "union" => {
            let mut a = vh::datasets_new(&ids32(ws[1]));
            vh::datasets_union(&mut a, vh::datasets_new(&ids32(ws[2])));
            show_ds(&a)
        }
        "ext" => {
            let mut a = vh::datasets_new(&ids32(ws[1]));
            vh::datasets_extend(&mut a, &ids32(ws[2]));
            show_ds(&a)
        }
        _ => "bad-op".into(),
    }
}

/// `step` with the panic message of a failing request appended to a log under .cache (diagnosis only;
/// the protocol answer stays `PANIC`)
fn step_logged(st: &mut St, ws: &[&str]) -> String {
    match std::panic::catch_unwind(std::panic::AssertUnwindSafe(|| step(st, ws))) {
        Ok(s) => s,
        Err(e) => {
            let msg = e
                .downcast_ref::<String>()
                .cloned()
                .or_else(|| e.downcast_ref::<&str>().map(|s| s.to_string()))
                .unwrap_or_default();
            if let Ok(mut f) = std::fs::OpenOptions::new().create(true).append(true).open("/verif/.cache/run/c09-panics.log") {
                use std::io::Write;
                let _ = writeln!(f, "{} :: {}", ws.join(" ").chars().take(120).collect::<String>(), msg.chars().take(300).collect::<String>());
            }
            "PANIC".into()
        }
    }
}

fn main() {
    let a = args();
    match a.mode.as_str() {
        "gen" => gen(&a),
        "exec" => exec_loop(St::default, step_logged),
        _ => panic!("mode"),
    }
}
