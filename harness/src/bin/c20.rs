//! C20: C API calls report failures through the error channel and never abort.
//!
//! Modes
//!   gen --seed S --tier T     request lines
//!   exec                      answers request lines; every `call …` line runs ONE exported function in a
//!                             CHILD process (this binary re-executed in `child` mode) so that an abort is
//!                             observed instead of suffered; the steps of a `case … seq` run in one child
//!                             (`seqchild` mode) that lives as long as the case
//!   child <fn> <cls> <seed>   one in-contract call, prints `ret <same|diff|-> code=<c> msg=<0|1> cleared=<c>`
//!   seqchild                  reads step names on stdin, prints the last error code after each step
//!   dump                      `kind <Variant> <code>` for one constructed value of every SourmashError
//!                             variant and `scenario <fn> <cls>` for every call scenario (translator input)
use std::ffi::CString;
use std::io::{BufRead, BufReader, Read, Write};
use std::os::raw::c_char;
use std::os::unix::process::ExitStatusExt;
use std::process::{Child, ChildStdin, ChildStdout, Command, Stdio};
use std::ptr;

use sourmash::cmd::ComputeParameters;
use sourmash::errors::{SourmashError, SourmashErrorCode};
use sourmash::ffi::cmd::compute::*;
use sourmash::ffi::hyperloglog::*;
use sourmash::ffi::index::revindex::*;
use sourmash::ffi::index::*;
use sourmash::ffi::minhash::*;
use sourmash::ffi::nodegraph::*;
use sourmash::ffi::signature::*;
use sourmash::ffi::storage::*;
use sourmash::ffi::utils::*;
use sourmash::ffi::{hash_murmur, HashFunctions as FHF};
use sourmash::prelude::*;
use sourmash::signature::{Signature, SigsTrait};
use sourmash::sketch::hyperloglog::HyperLogLog;
use sourmash::sketch::minhash::KmerMinHash;
use sourmash::sketch::nodegraph::Nodegraph;
use sourmash::sketch::Sketch;
use sourmash::storage::ZipStorage;
use verif_harness::*;

const TD: &str = "/repo/tests/test-data";

// ------------------------------------------------------------------------------------------------
// scenario table: (function, argument class, has a native comparison)
// Every function declared in include/sourmash.h appears at least once (theorem
// `harness_covers_header` over the translator's copy of this table).
// ------------------------------------------------------------------------------------------------

/// classes shared by the binary KmerMinHash operations
const MH_BIN: &[&str] = &[
    "compat",
    "empty",
    "self_abund",
    "mismatch_ksize",
    "mismatch_moltype",
    "mismatch_scaled",
    "mismatch_seed",
    "num_vs_scaled",
];

fn scenarios() -> Vec<(String, String, bool)> {
    let mut v: Vec<(String, String, bool)> = vec![];
    let mut add = |f: &str, cls: &[&str], cmp: bool| {
        for c in cls {
            v.push((f.to_string(), c.to_string(), cmp));
        }
    };
    // ---- compute parameters
    add("computeparams_new", &["default"], true);
    add("computeparams_free", &["valid", "null"], false);
    for g in [
        "computeparams_dayhoff",
        "computeparams_dna",
        "computeparams_hp",
        "computeparams_protein",
        "computeparams_track_abundance",
        "computeparams_num_hashes",
        "computeparams_scaled",
        "computeparams_seed",
    ] {
        add(g, &["default", "set"], true);
    }
    for s in [
        "computeparams_set_dayhoff",
        "computeparams_set_dna",
        "computeparams_set_hp",
        "computeparams_set_protein",
        "computeparams_set_track_abundance",
        "computeparams_set_num_hashes",
        "computeparams_set_scaled",
        "computeparams_set_seed",
    ] {
        add(s, &["valid", "zero", "max"], true);
    }
    add("computeparams_ksizes", &["default", "empty"], true);
    add("computeparams_ksizes_free", &["valid", "empty", "null"], false);
    add("computeparams_set_ksizes", &["valid", "empty", "zero_k"], true);
    // ---- hashing helpers
    add("hash_murmur", &["valid", "empty", "non_acgt"], true);
    add("sourmash_aa_to_dayhoff", &["valid", "unknown"], true);
    add("sourmash_aa_to_hp", &["valid", "unknown"], true);
    add("sourmash_translate_codon", &["valid", "len1", "len2", "unknown3", "empty", "len5"], true);
    // ---- error channel
    add("sourmash_init", &["once", "twice"], false);
    add("sourmash_err_clear", &["no_error", "after_error"], false);
    add("sourmash_err_get_last_code", &["no_error", "after_error"], true);
    add("sourmash_err_get_last_message", &["no_error", "after_error"], true);
    add("sourmash_err_get_backtrace", &["no_error", "after_error"], true);
    add("sourmash_str_from_cstr", &["valid", "empty", "bad_utf8"], true);
    add("sourmash_str_free", &["owned", "borrowed", "null", "twice"], false);
    // ---- HyperLogLog
    add("hll_new", &["default"], true);
    add("hll_free", &["valid", "default", "null"], false);
    add("hll_with_error_rate", &["valid", "zero", "negative", "nan", "too_large", "too_small", "inf"], true);
    add("hll_ksize", &["valid", "default"], true);
    add("hll_cardinality", &["valid", "empty", "p4", "p18", "default"], true);
    for f in ["hll_similarity", "hll_containment", "hll_intersection_size"] {
        add(f, &["valid", "empty", "self", "mismatch_p", "mismatch_ksize", "default"], true);
    }
    add("hll_add_sequence", &["valid", "invalid", "invalid_force", "empty", "short", "default"], true);
    add("hll_add_hash", &["valid", "zero", "max", "default"], true);
    add("hll_merge", &["valid", "mismatch_ksize", "mismatch_p", "default"], true);
    add("hll_update_mh", &["valid", "empty_mh", "default", "default_empty_mh"], true);
    add("hll_matches", &["valid", "empty_mh", "default", "p4"], true);
    add("hll_from_path", &["valid", "missing", "garbage", "directory", "bad_utf8"], true);
    add("hll_from_buffer", &["valid", "gz", "empty", "garbage", "truncated"], true);
    add("hll_save", &["valid", "missing_dir", "default"], true);
    add("hll_to_buffer", &["valid", "default"], true);
    // ---- KmerMinHash
    add("kmerminhash_new", &["scaled", "num", "zero_zero", "k0", "abund", "protein", "dayhoff", "hp", "scaled_max"], true);
    add("kmerminhash_free", &["valid", "null"], false);
    add("kmerminhash_slice_free", &["valid", "empty", "null"], false);
    add("kmerminhash_add_sequence", &["valid", "invalid", "invalid_force", "empty", "short", "protein_mh", "k0"], true);
    add("kmerminhash_add_protein", &["valid", "dna_mh", "short", "empty", "non_aa", "dayhoff", "hp"], true);
    add("kmerminhash_seq_to_hashes", &["valid", "invalid", "invalid_force", "force_zeroes", "empty", "protein", "short", "k0"], true);
    add("kmerminhash_clear", &["valid", "empty", "abund"], true);
    add("kmerminhash_add_hash", &["valid", "zero", "max", "above_max_hash", "num_full", "abund"], true);
    add("kmerminhash_add_hash_with_abundance", &["valid", "zero_abund", "max_abund", "no_track", "repeat"], true);
    add("kmerminhash_add_word", &["valid", "empty", "non_acgt"], true);
    add("kmerminhash_remove_hash", &["present", "absent", "empty", "abund"], true);
    add("kmerminhash_remove_many", &["valid", "absent", "empty_list", "abund"], true);
    add("kmerminhash_get_mins", &["valid", "empty"], true);
    add("kmerminhash_get_mins_size", &["valid", "empty"], true);
    add("kmerminhash_get_abunds", &["valid", "empty", "no_track"], true);
    add("kmerminhash_md5sum", &["valid", "empty"], true);
    add("kmerminhash_add_many", &["valid", "empty_list", "dups"], true);
    add("kmerminhash_set_abundances", &["valid", "clear", "no_track", "empty_list", "zero_abund"], true);
    for g in [
        "kmerminhash_is_protein",
        "kmerminhash_dayhoff",
        "kmerminhash_hp",
        "kmerminhash_seed",
        "kmerminhash_track_abundance",
        "kmerminhash_num",
        "kmerminhash_ksize",
        "kmerminhash_max_hash",
        "kmerminhash_hash_function",
    ] {
        add(g, &["dna", "protein", "dayhoff", "hp", "num", "abund"], true);
    }
    add("kmerminhash_disable_abundance", &["abund", "no_track"], true);
    add("kmerminhash_enable_abundance", &["empty", "nonempty", "already"], true);
    add("kmerminhash_hash_function_set", &["empty", "same", "nonempty"], true);
    for f in [
        "kmerminhash_merge",
        "kmerminhash_is_compatible",
        "kmerminhash_add_from",
        "kmerminhash_remove_from",
        "kmerminhash_intersection",
        "kmerminhash_intersection_union_size",
        "kmerminhash_jaccard",
        "kmerminhash_angular_similarity",
    ] {
        add(f, MH_BIN, true);
    }
    add("kmerminhash_angular_similarity", &["abund_overflow"], true);
    add("kmerminhash_count_common", MH_BIN, true);
    add("kmerminhash_count_common", &["downsample", "downsample_num"], true);
    add("kmerminhash_similarity", MH_BIN, true);
    add("kmerminhash_similarity", &["downsample", "ignore_abund", "downsample_num"], true);
    // ---- Nodegraph
    add("nodegraph_new", &["default"], true);
    add("nodegraph_free", &["valid", "default", "null"], false);
    add("nodegraph_buffer_free", &["valid", "null"], false);
    add("nodegraph_with_tables", &["valid", "one_table", "zero_tables", "size2", "size1", "size0"], true);
    add("nodegraph_count", &["valid", "repeat", "default", "zero_len_table"], true);
    add("nodegraph_get", &["present", "absent", "default", "zero_len_table"], true);
    add("nodegraph_count_kmer", &["valid", "non_acgt", "lowercase", "empty", "default_non_acgt"], false);
    add("nodegraph_get_kmer", &["valid", "non_acgt", "empty"], false);
    add("nodegraph_expected_collisions", &["valid", "filled", "default", "zero_tables"], true);
    add("nodegraph_ksize", &["valid", "default"], true);
    add("nodegraph_hashsizes", &["valid", "default"], true);
    add("nodegraph_ntables", &["valid", "default"], true);
    add("nodegraph_noccupied", &["valid", "default"], true);
    add("nodegraph_matches", &["valid", "empty_mh", "default", "zero_len_table"], true);
    add("nodegraph_update", &["valid", "mismatch_tables", "mismatch_sizes", "default_into_valid", "valid_into_default", "self_sizes"], true);
    add("nodegraph_update_mh", &["valid", "empty_mh", "default", "zero_len_table"], true);
    add("nodegraph_from_path", &["valid", "missing", "garbage", "directory", "bad_utf8"], true);
    add("nodegraph_from_buffer", &["valid", "gz", "empty", "garbage", "truncated", "zero_len_table"], true);
    add("nodegraph_save", &["valid", "missing_dir", "default", "size32"], true);
    add("nodegraph_to_buffer", &["raw", "gz1", "gz9", "default", "size32"], true);
    // ---- Signature
    add("signature_new", &["default"], true);
    add("signature_free", &["valid", "null"], false);
    add("signature_from_params", &["default", "protein", "all_moltypes", "no_ksizes", "no_moltypes", "k0", "scaled"], true);
    add("signature_len", &["default", "params"], true);
    add("signature_add_sequence", &["valid", "invalid", "invalid_force", "empty_sig", "empty_seq", "protein_sig"], true);
    add("signature_add_protein", &["valid", "dna_sig", "empty_sig", "short"], true);
    add("signature_set_name", &["valid", "empty", "bad_utf8"], true);
    add("signature_set_filename", &["valid", "empty", "bad_utf8"], true);
    add("signature_get_name", &["unset", "set"], true);
    add("signature_get_filename", &["unset", "set"], true);
    add("signature_get_license", &["default"], true);
    add("signature_push_mh", &["valid", "twice"], true);
    add("signature_set_mh", &["valid", "replace"], true);
    add("signature_first_mh", &["valid", "empty_sig", "large_mh", "hll_sketch"], true);
    add("signature_eq", &["equal", "different", "self", "empty"], true);
    add("signature_save_json", &["valid", "empty_sig"], true);
    add("signature_get_mhs", &["valid", "empty_sig"], true);
    add("signatures_save_buffer", &["valid", "gz", "empty_list"], true);
    add("signatures_load_path", &["valid", "select_k", "select_moltype", "bad_moltype", "missing", "garbage", "gz", "bad_utf8", "moltype_bad_utf8"], true);
    add("signatures_load_buffer", &["valid", "select_k", "select_none", "bad_moltype", "empty", "garbage", "bad_molecule", "gz", "hll_sketch"], true);
    // ---- ZipStorage
    add("zipstorage_new", &["valid", "missing", "not_a_zip", "empty_path", "bad_utf8", "directory"], true);
    add("zipstorage_free", &["valid", "null"], false);
    add("zipstorage_load", &["valid", "missing_entry", "empty_path", "bad_utf8"], true);
    add("zipstorage_list_sbts", &["sbt_zip", "sig_zip"], true);
    add("zipstorage_filenames", &["sbt_zip", "sig_zip"], true);
    add("zipstorage_set_subdir", &["valid", "empty", "bad_utf8"], true);
    add("zipstorage_path", &["valid"], true);
    add("zipstorage_subdir", &["unset", "set"], true);
    // ---- RevIndex / search results
    add("revindex_new_with_sigs", &["valid", "empty_sigs", "with_queries", "empty_queries", "queries_threshold0_mismatch", "template_mismatch"], true);
    add("revindex_new_with_paths", &["valid", "missing", "empty_paths", "garbage", "with_queries"], true);
    add("revindex_free", &["valid", "null"], false);
    add("revindex_len", &["valid", "empty"], true);
    add("revindex_scaled", &["valid", "empty"], true);
    add("revindex_signatures", &["valid", "empty"], true);
    add("revindex_search", &["valid", "empty_sig", "no_match", "containment", "mismatch_ksize", "large_mh"], true);
    add("revindex_gather", &["valid", "empty_sig", "no_match", "mismatch_ksize", "large_mh", "threshold_big"], true);
    add("searchresult_score", &["valid"], true);
    add("searchresult_filename", &["valid"], true);
    add("searchresult_signature", &["valid"], true);
    add("searchresult_free", &["valid", "null"], false);
    v
}

/// scenarios that abort the process on the tree as it is (kept in corpus/C20/aborts.ops, recorded in
/// findings/C20.json; the random generator never emits them a second time)
fn in_corpus_only(f: &str, cls: &str) -> bool {
    let p = format!("/verif/corpus/C20/aborts.ops");
    thread_local! { static SET: std::cell::RefCell<Option<std::collections::HashSet<(String, String)>>> = const { std::cell::RefCell::new(None) }; }
    SET.with(|s| {
        let mut s = s.borrow_mut();
        if s.is_none() {
            let mut set = std::collections::HashSet::new();
            if let Ok(t) = std::fs::read_to_string(&p) {
                for l in t.lines() {
                    let w: Vec<&str> = l.split_whitespace().collect();
                    if w.len() >= 3 && w[0] == "call" {
                        set.insert((w[1].to_string(), w[2].to_string()));
                    }
                }
            }
            *s = Some(set);
        }
        s.as_ref().unwrap().contains(&(f.to_string(), cls.to_string()))
    })
}

// ------------------------------------------------------------------------------------------------
// sequences (T-channel): every step is a concrete call whose outcome is known from its arguments
// ------------------------------------------------------------------------------------------------

const SEQ_FAIL: &[&str] = &[
    "merge_mismatch_ksize",
    "merge_mismatch_moltype",
    "merge_mismatch_scaled",
    "merge_mismatch_seed",
    "add_seq_invalid",
    "hll_add_seq_invalid",
    "sig_add_seq_invalid",
    "translate_codon_len5",
    "hash_function_set_nonempty",
    "enable_abundance_nonempty",
    "hll_bad_error_rate",
    "hll_merge_mismatch_ksize",
    "hll_merge_mismatch_p",
    "angular_needs_abund",
    "count_common_upsample",
    "load_sigs_bad_json",
    "str_from_cstr_bad_utf8",
    "first_mh_empty_sig",
    "ng_from_path_missing",
    "zip_missing",
    "ng_from_buffer_empty",
];
const SEQ_PANIC: &[&str] = &["get_abunds_no_track", "hll_update_mh_default", "load_sigs_bad_moltype", "ng_from_buffer_garbage"];
const SEQ_OK: &[&str] = &[
    "ok_add_hash",
    "ok_merge",
    "ok_get_mins",
    "ok_md5sum",
    "ok_add_seq",
    "ok_add_seq_force",
    "ok_is_compatible_false",
    "ok_isect_union_mismatch",
    "ok_hll_cardinality",
    "ok_ng_count",
    "ok_sig_json",
    "ok_str_from_cstr",
];
const SEQ_QUERY: &[&str] = &["code", "msg", "backtrace"];

fn gen(a: &Args) {
    let mut r = Rng::new(a.seed);
    let mut o = Out::new();
    let thorough = a.tier == "thorough";
    // ---- stream 1: error-channel histories
    let nseq = if thorough { 4000 } else { 300 };
    // fixed shapes first: every failing step alone, after init and without init
    for (i, st) in SEQ_FAIL.iter().chain(SEQ_PANIC.iter()).enumerate() {
        o.case(&format!("seq fixed{}", i));
        if i % 2 == 0 {
            o.op("init");
        }
        o.op("code");
        o.op(st);
        o.op("msg");
        o.op("ok_add_hash");
        o.op("ok_merge");
        o.op("code");
        o.op("init");
        o.op(st);
        o.op("clear");
        o.op("msg");
    }
    for _ in 0..nseq {
        o.case("seq");
        // most histories start with sourmash_init (the precondition of T-channel); some do not
        if !r.chance(1, 6) {
            o.op("init");
        }
        let len = r.range(1, if thorough { 40 } else { 14 });
        for _ in 0..len {
            let k = r.below(100);
            let st: &str = if k < 30 {
                r.pick(SEQ_FAIL)
            } else if k < 40 {
                r.pick(SEQ_PANIC)
            } else if k < 65 {
                r.pick(SEQ_OK)
            } else if k < 85 {
                r.pick(SEQ_QUERY)
            } else if k < 96 {
                "clear"
            } else {
                "init"
            };
            o.op(st);
        }
    }
    // ---- stream 2: one exported function per child
    let reps = if thorough { 12 } else { 2 };
    let sc = scenarios();
    let mut cur = String::new();
    for (f, cls, cmp) in &sc {
        if in_corpus_only(f, cls) {
            continue;
        }
        if *f != cur {
            o.case(&format!("call {}", f));
            cur = f.clone();
        }
        for i in 0..reps {
            let seed = if i == 0 { 0 } else { r.bits(32) };
            o.op(&format!("call {} {} {} {}", f, cls, if *cmp { "cmp" } else { "nocmp" }, seed));
        }
    }
}

// ------------------------------------------------------------------------------------------------
// exec (parent)
// ------------------------------------------------------------------------------------------------

struct SeqChild {
    child: Child,
    stdin: ChildStdin,
    stdout: BufReader<ChildStdout>,
}
#[derive(Default)]
struct ExecState {
    seq: Option<SeqChild>,
    dead: bool,
}
impl Drop for ExecState {
    fn drop(&mut self) {
        if let Some(mut c) = self.seq.take() {
            drop(c.stdin);
            let _ = c.child.kill();
            let _ = c.child.wait();
        }
    }
}

fn status_class(st: &std::process::ExitStatus) -> String {
    match (st.signal(), st.code()) {
        (Some(6), _) => "abort".into(),
        (Some(s), _) => format!("crash sig={}", s),
        (None, Some(c)) => format!("exit={}", c),
        _ => "exit=?".into(),
    }
}

fn run_call_child(f: &str, cls: &str, seed: &str) -> String {
    let exe = std::env::current_exe().unwrap();
    let mut child = Command::new(exe)
        .args(["child", f, cls, seed])
        .stdin(Stdio::null())
        .stdout(Stdio::piped())
        .stderr(Stdio::null())
        .spawn()
        .unwrap();
    let mut out = String::new();
    // bounded wait: a hang is reported, not suffered
    let t0 = std::time::Instant::now();
    let status = loop {
        match child.try_wait().unwrap() {
            Some(st) => break Some(st),
            None => {
                if t0.elapsed().as_secs() > 120 {
                    let _ = child.kill();
                    let _ = child.wait();
                    break None;
                }
                std::thread::sleep(std::time::Duration::from_millis(1));
            }
        }
    };
    if let Some(mut so) = child.stdout.take() {
        let _ = so.read_to_string(&mut out);
    }
    match status {
        None => "timeout".into(),
        Some(st) if st.success() => out.lines().last().unwrap_or("no-output").to_string(),
        Some(st) => status_class(&st),
    }
}

fn exec_step(st: &mut ExecState, ws: &[&str]) -> String {
    match ws[0] {
        "case" => {
            if let Some(mut c) = st.seq.take() {
                drop(c.stdin);
                let _ = c.child.kill();
                let _ = c.child.wait();
            }
            st.dead = false;
            "ok".into()
        }
        "call" => run_call_child(ws[1], ws[2], ws.get(4).copied().unwrap_or("0")),
        step => {
            if st.dead {
                return "dead".into();
            }
            if st.seq.is_none() {
                let exe = std::env::current_exe().unwrap();
                let mut child = Command::new(exe)
                    .arg("seqchild")
                    .stdin(Stdio::piped())
                    .stdout(Stdio::piped())
                    .stderr(Stdio::null())
                    .spawn()
                    .unwrap();
                let stdin = child.stdin.take().unwrap();
                let stdout = BufReader::new(child.stdout.take().unwrap());
                st.seq = Some(SeqChild { child, stdin, stdout });
            }
            let c = st.seq.as_mut().unwrap();
            let mut line = String::new();
            let ok = writeln!(c.stdin, "{}", step).is_ok() && c.stdin.flush().is_ok();
            if ok {
                let _ = c.stdout.read_line(&mut line);
            }
            if line.is_empty() {
                st.dead = true;
                let status = c.child.wait().unwrap();
                st.seq = None;
                return status_class(&status);
            }
            line.trim_end().to_string()
        }
    }
}

// ------------------------------------------------------------------------------------------------
// helpers shared by the children
// ------------------------------------------------------------------------------------------------

type MH = *mut SourmashKmerMinHash;
type HLL = *mut SourmashHyperLogLog;
type NG = *mut SourmashNodegraph;
type SIG = *mut SourmashSignature;

fn cs(s: &str) -> CString {
    CString::new(s).unwrap()
}
fn csb(b: &[u8]) -> CString {
    CString::new(b.to_vec()).unwrap()
}
fn hf(i: u32) -> FHF {
    match i {
        1 => FHF::Murmur64Dna,
        2 => FHF::Murmur64Protein,
        3 => FHF::Murmur64Dayhoff,
        _ => FHF::Murmur64Hp,
    }
}
fn nhf(i: u32) -> sourmash::encodings::HashFunctions {
    use sourmash::encodings::HashFunctions::*;
    match i {
        1 => Murmur64Dna,
        2 => Murmur64Protein,
        3 => Murmur64Dayhoff,
        _ => Murmur64Hp,
    }
}
fn last_code() -> u32 {
    unsafe { sourmash_err_get_last_code() as u32 }
}
fn dna(r: &mut Rng, n: usize) -> Vec<u8> {
    (0..n).map(|_| *r.pick(b"ACGT")).collect()
}
fn prot(r: &mut Rng, n: usize) -> Vec<u8> {
    (0..n).map(|_| *r.pick(b"ACDEFGHIKLMNPQRSTVWY")).collect()
}
fn hashes(r: &mut Rng, n: usize) -> Vec<u64> {
    let mut v: Vec<u64> = (0..n).map(|_| r.bits(64).max(1)).collect();
    v.sort();
    v.dedup();
    v
}

/// parameters of a sketch, used to build the same object through the C API and natively
#[derive(Clone, Copy)]
struct P {
    scaled: u64,
    k: u32,
    hf: u32,
    seed: u64,
    track: bool,
    num: u32,
}
const DNA21: P = P { scaled: 1, k: 21, hf: 1, seed: 42, track: false, num: 0 };
unsafe fn mh_new(p: P) -> MH {
    kmerminhash_new(p.scaled, p.k, hf(p.hf), p.seed, p.track, p.num)
}
fn mh_native(p: P) -> KmerMinHash {
    KmerMinHash::new(p.scaled, p.k, nhf(p.hf), p.seed, p.track, p.num)
}
/// (through the C API, natively) with the same hashes
unsafe fn mh_pair(p: P, hs: &[u64]) -> (MH, KmerMinHash) {
    let m = mh_new(p);
    let mut n = mh_native(p);
    for h in hs {
        kmerminhash_add_hash(m, *h);
        n.add_hash(*h);
    }
    (m, n)
}
unsafe fn mh_eq(m: *const SourmashKmerMinHash, n: &KmerMinHash) -> bool {
    let r = SourmashKmerMinHash::as_rust(m);
    r == n && r.mins() == n.mins() && r.abunds() == n.abunds() && r.num() == n.num() && r.max_hash() == n.max_hash()
        && r.ksize() == n.ksize() && r.seed() == n.seed() && r.hash_function() == n.hash_function()
}
unsafe fn take_slice<T: Clone>(p: *const T, n: usize) -> Vec<T> {
    // ownership of a boxed slice handed over by the library
    if p.is_null() {
        return vec![];
    }
    let b = Box::from_raw(std::ptr::slice_from_raw_parts_mut(p as *mut T, n));
    b.to_vec()
}
unsafe fn str_take(mut s: SourmashStr) -> String {
    let v = if s.data.is_null() { String::new() } else { s.as_str().to_string() };
    sourmash_str_free(&mut s);
    std::mem::forget(s);
    v
}
unsafe fn str_is_zero(s: SourmashStr) -> bool {
    let z = s.data.is_null() && s.len == 0 && !s.owned;
    std::mem::forget(s);
    z
}
fn tmpdir() -> tempfile::TempDir {
    std::fs::create_dir_all("/verif/.cache/run").ok();
    tempfile::Builder::new().prefix("c20-").tempdir_in("/verif/.cache/run").unwrap()
}

fn bits(x: f64) -> u64 {
    x.to_bits()
}

/// the 2nd operand of a binary KmerMinHash operation for an argument class; (first params, second params)
fn bin_params(cls: &str) -> (P, P) {
    let a = DNA21;
    match cls {
        "compat" | "empty" => (a, a),
        "self_abund" => (P { track: true, ..a }, P { track: true, ..a }),
        "mismatch_ksize" => (a, P { k: 31, ..a }),
        "mismatch_moltype" => (a, P { hf: 2, ..a }),
        "mismatch_scaled" => (a, P { scaled: 2, ..a }),
        "mismatch_seed" => (a, P { seed: 43, ..a }),
        "num_vs_scaled" => (P { scaled: 0, num: 500, ..a }, a),
        "downsample" => (P { scaled: 2, ..a }, P { scaled: 4, ..a }),
        "downsample_num" => (P { scaled: 0, num: 500, ..a }, P { scaled: 4, ..a }),
        "ignore_abund" => (P { track: true, ..a }, P { track: true, ..a }),
        "abund_overflow" => (P { track: true, ..a }, P { track: true, ..a }),
        _ => (a, a),
    }
}

// ------------------------------------------------------------------------------------------------
// dump
// ------------------------------------------------------------------------------------------------

fn variant_name(e: &SourmashError) -> String {
    format!("{:?}", e).chars().take_while(|c| c.is_alphanumeric() || *c == '_').collect()
}

fn take_last_error() -> Option<SourmashError> {
    LAST_ERROR.with(|e| e.borrow_mut().take())
}

fn dump() {
    use SourmashError as E;
    let mut v: Vec<SourmashError> = vec![
        E::Internal { message: "m".into() },
        E::CannotUpsampleScaled,
        E::MismatchNum { n1: 1, n2: 2 },
        E::MismatchKSizes,
        E::MismatchDNAProt,
        E::MismatchScaled,
        E::MismatchSeed,
        E::MismatchSignatureType,
        E::NeedsAbundanceTracking,
        E::NoMinHashFound,
        E::EmptySignature,
        E::MultipleSketchesFound,
        E::InvalidHashFunction { function: "f".into() },
        E::NonEmptyMinHash { message: "m".into() },
        E::InvalidDNA { message: "m".into() },
        E::InvalidProt { message: "m".into() },
        E::InvalidCodonLength { message: "m".into() },
        E::HLLPrecisionBounds,
        E::ANIEstimationError { message: "m".into() },
        E::ReadDataError(sourmash::errors::ReadDataError::LoadError),
        E::StorageError(sourmash::storage::StorageError::EmptyPathError),
        E::SerdeError(serde_json::from_str::<u32>("x").unwrap_err()),
        E::Utf8Error(std::str::from_utf8(&[0xffu8, 0xfe]).unwrap_err()),
        E::IOError(std::io::Error::other("x")),
        E::RocksDBError({
            let mut o = rocksdb::Options::default();
            o.create_if_missing(false);
            rocksdb::DB::open(&o, "/verif/.cache/run/c20-no-such-db").err().expect("rocksdb error")
        }),
    ];
    // kinds whose payload types are not nameable from here: obtained from the library itself
    unsafe {
        // niffler::Error
        let p = cs("/verif/.cache/run/c20-no-such-file");
        let _ = nodegraph_from_path(p.as_ptr());
        match take_last_error() {
            Some(e) => v.push(e),
            None => panic!("no niffler error"),
        }
        // csv::Error
        match sourmash::manifest::Manifest::from_reader(&b"a,b\n1,2,3\n"[..]) {
            Err(e) => v.push(e),
            Ok(_) => panic!("no csv error"),
        }
        // Panic (private constructor): what the hook stores
        sourmash_init();
        let _: u32 = landingpad(|| -> Result<u32, SourmashError> { panic!("dump") });
        match take_last_error() {
            Some(e) => v.push(e),
            None => panic!("no panic error"),
        }
        let _ = std::panic::take_hook();
    }
    for e in &v {
        println!("kind {} {}", variant_name(e), SourmashErrorCode::from_error(e) as u32);
    }
    for (f, c, _) in scenarios() {
        println!("scenario {} {}", f, c);
    }
    for s in SEQ_FAIL.iter().chain(SEQ_PANIC).chain(SEQ_OK).chain(SEQ_QUERY) {
        println!("seqstep {}", s);
    }
}

// ------------------------------------------------------------------------------------------------
// seqchild
// ------------------------------------------------------------------------------------------------

unsafe fn seq_step(name: &str) -> Option<String> {
    let a = DNA21;
    let hs = [3u64, 5, 8, 13];
    let mut extra = String::new();
    match name {
        "init" => sourmash_init(),
        "clear" => sourmash_err_clear(),
        "code" => {}
        "msg" => {
            let m = str_take(sourmash_err_get_last_message());
            extra = format!("msg={} ", if m.is_empty() { 0 } else { 1 });
        }
        "backtrace" => {
            let m = str_take(sourmash_err_get_backtrace());
            extra = format!("bt={} ", if m.is_empty() { 0 } else { 1 });
        }
        "merge_mismatch_ksize" | "merge_mismatch_moltype" | "merge_mismatch_scaled" | "merge_mismatch_seed" | "ok_merge" => {
            let cls = if name == "ok_merge" { "compat" } else { &name[6..] };
            let (pa, pb) = bin_params(cls);
            let (x, _) = mh_pair(pa, &hs);
            let (y, _) = mh_pair(pb, &[1, 2]);
            kmerminhash_merge(x, y);
            kmerminhash_free(x);
            kmerminhash_free(y);
        }
        "add_seq_invalid" | "ok_add_seq" | "ok_add_seq_force" => {
            let x = mh_new(a);
            let s = if name == "ok_add_seq" { "ACGTACGTACGTACGTACGTACGTACGT" } else { "ACGTACGTACGTNCGTACGTACGTACGTACGT" };
            let c = cs(s);
            kmerminhash_add_sequence(x, c.as_ptr(), name == "ok_add_seq_force");
            kmerminhash_free(x);
        }
        "hll_add_seq_invalid" => {
            let h = hll_with_error_rate(0.05, 5);
            let s = b"ACGTNACGTAC";
            hll_add_sequence(h, s.as_ptr() as *const c_char, s.len(), false);
            hll_free(h);
        }
        "sig_add_seq_invalid" => {
            let cp = computeparams_new();
            let s = signature_from_params(cp);
            let c = cs("ACGTACGTACGTACGTACGTACGTNNNNNACGTACGTACGTACGTACGTACGTACGTACGTACGTACGTACGT");
            signature_add_sequence(s, c.as_ptr(), false);
            signature_free(s);
            computeparams_free(cp);
        }
        "translate_codon_len5" => {
            let c = cs("ACGTA");
            sourmash_translate_codon(c.as_ptr());
        }
        "hash_function_set_nonempty" => {
            let (x, _) = mh_pair(a, &hs);
            kmerminhash_hash_function_set(x, hf(2));
            kmerminhash_free(x);
        }
        "enable_abundance_nonempty" => {
            let (x, _) = mh_pair(a, &hs);
            kmerminhash_enable_abundance(x);
            kmerminhash_free(x);
        }
        "hll_bad_error_rate" => {
            let h = hll_with_error_rate(0.9, 21);
            hll_free(h);
        }
        "hll_merge_mismatch_ksize" | "hll_merge_mismatch_p" => {
            let h1 = hll_with_error_rate(0.05, 21);
            let h2 = if name.ends_with("_p") { hll_with_error_rate(0.01, 21) } else { hll_with_error_rate(0.05, 31) };
            hll_merge(h1, h2);
            hll_free(h1);
            hll_free(h2);
        }
        "angular_needs_abund" => {
            let (x, _) = mh_pair(a, &hs);
            let (y, _) = mh_pair(a, &hs);
            kmerminhash_angular_similarity(x, y);
            kmerminhash_free(x);
            kmerminhash_free(y);
        }
        "count_common_upsample" => {
            // a num sketch reports scaled 0: "downsampling" the scaled sketch to it is an upsample
            let (x, _) = mh_pair(P { scaled: 0, num: 500, ..a }, &hs);
            let (y, _) = mh_pair(P { scaled: 4, ..a }, &hs);
            kmerminhash_count_common(y, x, true);
            kmerminhash_free(x);
            kmerminhash_free(y);
        }
        "load_sigs_bad_json" | "load_sigs_bad_moltype" => {
            let buf: &[u8] = if name.ends_with("json") { b"{not json" } else { b"[]" };
            let mol = cs("rna");
            let mut n = 0usize;
            let p = signatures_load_buffer(
                buf.as_ptr() as *const c_char,
                buf.len(),
                false,
                0,
                if name.ends_with("json") { ptr::null() } else { mol.as_ptr() },
                &mut n,
            );
            if !p.is_null() {
                for s in take_slice(p as *const SIG, n) {
                    signature_free(s);
                }
            }
        }
        "str_from_cstr_bad_utf8" | "ok_str_from_cstr" => {
            let c = if name.starts_with("ok") { csb(b"hello") } else { csb(&[0xff, 0xfe, 0x41]) };
            let s = sourmash_str_from_cstr(c.as_ptr());
            // the returned string points into `c` although it is marked owned: not freed here
            std::mem::forget(s);
        }
        "first_mh_empty_sig" => {
            let s = signature_new();
            let m = signature_first_mh(s);
            if !m.is_null() {
                kmerminhash_free(m);
            }
            signature_free(s);
        }
        "ng_from_path_missing" => {
            let p = cs("/verif/.cache/run/c20-no-such-file");
            let g = nodegraph_from_path(p.as_ptr());
            if !g.is_null() {
                nodegraph_free(g);
            }
        }
        "zip_missing" => {
            let p = b"/verif/.cache/run/c20-no-such-file.zip";
            let z = zipstorage_new(p.as_ptr() as *const c_char, p.len());
            if !z.is_null() {
                zipstorage_free(z);
            }
        }
        "ng_from_buffer_empty" | "ng_from_buffer_garbage" => {
            let b: &[u8] = if name.ends_with("empty") { b"" } else { b"garbage-garbage-garbage-garbage-garbage" };
            let p = if b.is_empty() { ptr::NonNull::<c_char>::dangling().as_ptr() as *const c_char } else { b.as_ptr() as *const c_char };
            let g = nodegraph_from_buffer(p, b.len());
            if !g.is_null() {
                nodegraph_free(g);
            }
        }
        "get_abunds_no_track" => {
            let (x, _) = mh_pair(a, &hs);
            let mut n = 0usize;
            let p = kmerminhash_get_abunds(x, &mut n);
            if !p.is_null() {
                kmerminhash_slice_free(p as *mut u64, n);
            }
            kmerminhash_free(x);
        }
        "hll_update_mh_default" => {
            let h = hll_new();
            let (x, _) = mh_pair(a, &hs);
            hll_update_mh(h, x);
            hll_free(h);
            kmerminhash_free(x);
        }
        "ok_add_hash" => {
            let x = mh_new(a);
            kmerminhash_add_hash(x, 7);
            kmerminhash_free(x);
        }
        "ok_get_mins" => {
            let (x, _) = mh_pair(a, &hs);
            let mut n = 0usize;
            let p = kmerminhash_get_mins(x, &mut n);
            kmerminhash_slice_free(p as *mut u64, n);
            kmerminhash_free(x);
        }
        "ok_md5sum" => {
            let (x, _) = mh_pair(a, &hs);
            str_take(kmerminhash_md5sum(x));
            kmerminhash_free(x);
        }
        "ok_is_compatible_false" => {
            let (x, _) = mh_pair(a, &hs);
            let (y, _) = mh_pair(P { k: 31, ..a }, &hs);
            kmerminhash_is_compatible(x, y);
            kmerminhash_free(x);
            kmerminhash_free(y);
        }
        "ok_isect_union_mismatch" => {
            let (x, _) = mh_pair(a, &hs);
            let (y, _) = mh_pair(P { k: 31, ..a }, &hs);
            let mut u = 0u64;
            kmerminhash_intersection_union_size(x, y, &mut u);
            kmerminhash_free(x);
            kmerminhash_free(y);
        }
        "ok_hll_cardinality" => {
            let h = hll_with_error_rate(0.05, 21);
            hll_add_hash(h, 12345);
            hll_cardinality(h);
            hll_free(h);
        }
        "ok_ng_count" => {
            let g = nodegraph_with_tables(3, 100, 2);
            nodegraph_count(g, 77);
            nodegraph_free(g);
        }
        "ok_sig_json" => {
            let s = signature_new();
            str_take(signature_save_json(s));
            signature_free(s);
        }
        _ => return None,
    }
    Some(extra)
}

fn seqchild() {
    let stdin = std::io::stdin();
    let stdout = std::io::stdout();
    for line in stdin.lock().lines() {
        let line = line.unwrap();
        let name = line.trim();
        let r = unsafe { seq_step(name) };
        let mut o = stdout.lock();
        match r {
            Some(extra) => writeln!(o, "{}code={}", extra, last_code()).unwrap(),
            None => writeln!(o, "unknown-step").unwrap(),
        }
        o.flush().unwrap();
    }
}

// ------------------------------------------------------------------------------------------------
// child: one exported function, in-contract arguments
// ------------------------------------------------------------------------------------------------

include!("c20_calls.in");

fn child(a: &Args) {
    let f = a.rest.first().cloned().unwrap_or_default();
    let cls = a.rest.get(1).cloned().unwrap_or_default();
    let seed: u64 = a.rest.get(2).and_then(|s| s.parse().ok()).unwrap_or(0);
    let mut r = Rng::new(seed ^ 0xC20);
    unsafe {
        sourmash_init();
        let cmp = run_call(&f, &cls, &mut r);
        let cmp = match cmp {
            Cmp::Unknown => {
                println!("unknown-scenario");
                return;
            }
            Cmp::Same => "same",
            Cmp::Diff => "diff",
            Cmp::None => "-",
        };
        let code = last_code();
        let msg = str_take(sourmash_err_get_last_message());
        sourmash_err_clear();
        let code2 = last_code();
        println!("ret {} code={} msg={} cleared={}", cmp, code, if msg.is_empty() { 0 } else { 1 }, code2);
    }
}

fn main() {
    let a = args();
    match a.mode.as_str() {
        "gen" => gen(&a),
        "exec" => exec_loop(ExecState::default, exec_step),
        "child" => child(&a),
        "seqchild" => seqchild(),
        "dump" => dump(),
        _ => panic!("mode"),
    }
}
