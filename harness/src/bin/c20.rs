//! C20: C API calls report failures through the error channel and never abort.
//!
//! Modes
//!   gen --seed S --tier T     request lines
//!   exec                      answers request lines; every `call …` line runs ONE exported function in a
//!                             CHILD process (this binary re-executed in `child` mode) so that an abort is
//!                             observed instead of suffered; the steps of a `case … seq` run in one child
//!                             (`seqchild` mode) that lives as long as the case
//!   child <fn> <cls> <seed>   one in-contract call, prints `ret <same|diff|-> code=<c> msg=<0|1> cleared=<c>`
//!                             (after `sourmash_init`; classes ending in `_noinit`: without it).  Classes
//!                             `[<param>_]long_<kind>_<len>` put 255..1000 bytes of ASCII / 2- / 3- / 4-byte
//!                             characters into one text parameter (see LONG_PARAMS)
//!   seqchild                  reads step names on stdin, prints the last error code after each step
//!   dump                      `kind <Variant> <code>` for one constructed value of every SourmashError
//!                             variant and `scenario <fn> <cls>` for every call scenario (translator input)
use std::ffi::CString;
use std::io::{BufRead, BufReader, Read, Write};
use std::os::raw::c_char;
use std::os::unix::process::ExitStatusExt;
use std::process::{Child, ChildStdin, ChildStdout, Command, Stdio};
use std::ptr;

use sourmash::cmd::ComputeParameters;
use sourmash::errors::{SourmashError, SourmashErrorCode};
use sourmash::ffi::cmd::compute::*;
use sourmash::ffi::hyperloglog::*;
use sourmash::ffi::index::revindex::*;
use sourmash::ffi::index::*;
use sourmash::ffi::minhash::*;
use sourmash::ffi::nodegraph::*;
use sourmash::ffi::signature::*;
use sourmash::ffi::storage::*;
use sourmash::ffi::utils::*;
use sourmash::ffi::{hash_murmur, HashFunctions as FHF};
use sourmash::prelude::*;
use sourmash::signature::{Signature, SigsTrait};
use sourmash::sketch::hyperloglog::HyperLogLog;
use sourmash::sketch::minhash::KmerMinHash;
use sourmash::sketch::nodegraph::Nodegraph;
use sourmash::sketch::Sketch;
use sourmash::storage::ZipStorage;
use verif_harness::*;

const TD: &str = "/repo/tests/test-data";

// ------------------------------------------------------------------------------------------------
// scenario table: (function, argument class, has a native comparison)
// Every function declared in include/sourmash.h appears at least once (theorem
// `harness_covers_header` over the translator's copy of this table).
// ------------------------------------------------------------------------------------------------

/// classes shared by the binary KmerMinHash operations
const MH_BIN: &[&str] = &[
    "compat",
    "empty",
    "self_abund",
    "mismatch_ksize",
    "mismatch_moltype",
    "mismatch_scaled",
    "mismatch_seed",
    "num_vs_scaled",
];

/// Byte classes for every parameter that carries `char` data.  A C `char` is signed on the usual
/// targets: everything >= 0x80 arrives as a negative value, and nothing in the API restricts callers to
/// ASCII.  `b00` exists only where the length travels separately (a NUL ends a C string).
const BYTES_CSTR: &[&str] = &["b7f", "b80", "bff", "utf8"];
const BYTES_BUF: &[&str] = &["b00", "b7f", "b80", "bff", "utf8"];
/// the bytes a byte class puts in the middle of an otherwise ordinary input
fn byte_pat(cls: &str) -> Option<&'static [u8]> {
    let c = cls.strip_suffix("_force").unwrap_or(cls);
    let c = c.rsplit('_').next().unwrap_or(c);
    Some(match c {
        "b00" => &[0x00],
        "b7f" => &[0x7f],
        "b80" => &[0x80],
        "bff" => &[0xff],
        "utf8" => &[0xc3, 0xa9], // U+00E9
        _ => return None,
    })
}
/// `base` with the pattern of the byte class written over its middle (unchanged for other classes)
fn splice(mut base: Vec<u8>, cls: &str) -> Vec<u8> {
    if let Some(p) = byte_pat(cls) {
        let at = base.len() / 2;
        for (i, b) in p.iter().enumerate() {
            if at + i < base.len() {
                base[at + i] = *b;
            } else {
                base.push(*b);
            }
        }
    }
    base
}
fn with_prefix(pre: &str, cls: &[&str]) -> Vec<String> {
    cls.iter().map(|c| if pre.is_empty() { c.to_string() } else { format!("{}_{}", pre, c) }).collect()
}
fn with_suffix(cls: &[&str], suf: &str) -> Vec<String> {
    cls.iter().map(|c| format!("{}_{}", c, suf)).collect()
}

// ---- long text: every string / byte-buffer parameter at 255 / 256 / 257 / 300 / 1000 bytes ------------------
/// what the bytes are: `a` ASCII (valid for the parameter's domain: DNA, residues, path characters);
/// `u2` / `u3` / `u4` whole 2- / 3- / 4-byte UTF-8 characters (U+00E9, U+4E2D, U+1F600); `…o` the same
/// after ONE leading ASCII byte, so that every fixed byte position falls inside a character for at least
/// one of the two phases.  Always valid UTF-8 and exactly the stated number of bytes (ASCII padding).
const LONG_KINDS: &[&str] = &["a", "u2", "u2o", "u3", "u3o", "u4", "u4o"];
const LONG_LENS: &[usize] = &[255, 256, 257, 300, 1000];
/// lengths that are also run WITHOUT `sourmash_init` (default panic hook): class suffix `_noinit`
const LONG_LENS_NOINIT: &[usize] = LONG_LENS;
/// (function, parameter prefix of the class name) for every parameter that carries text or bytes
const LONG_PARAMS: &[(&str, &str)] = &[
    ("hash_murmur", ""),
    ("sourmash_translate_codon", ""),
    ("sourmash_str_from_cstr", ""),
    ("hll_add_sequence", ""),
    ("hll_from_buffer", ""),
    ("hll_from_path", ""),
    ("hll_from_path", "missing_"),
    ("hll_save", ""),
    ("kmerminhash_add_sequence", ""),
    ("kmerminhash_add_protein", ""),
    ("kmerminhash_add_word", ""),
    ("kmerminhash_seq_to_hashes", ""),
    ("nodegraph_count_kmer", ""),
    ("nodegraph_get_kmer", ""),
    ("nodegraph_from_buffer", ""),
    ("nodegraph_from_path", ""),
    ("nodegraph_from_path", "missing_"),
    ("nodegraph_save", ""),
    ("signature_add_sequence", ""),
    ("signature_add_protein", ""),
    ("signature_set_name", ""),
    ("signature_set_filename", ""),
    ("signatures_load_buffer", ""),
    ("signatures_load_buffer", "moltype_"),
    ("signatures_load_path", ""),
    ("signatures_load_path", "missing_"),
    ("signatures_load_path", "moltype_"),
    ("zipstorage_new", ""),
    ("zipstorage_new", "missing_"),
    ("zipstorage_load", ""),
    ("zipstorage_set_subdir", ""),
    ("revindex_new_with_paths", ""),
    ("revindex_new_with_paths", "missing_"),
];
/// `[<prefix>_]long_<kind>_<len>[_noinit]` -> (prefix with its underscore, kind, len)
fn long_cls(cls: &str) -> Option<(&str, &str, usize)> {
    let c = cls.strip_suffix("_noinit").unwrap_or(cls);
    let at = c.find("long_")?;
    if at > 0 && !c[..at].ends_with('_') {
        return None;
    }
    let mut it = c[at + 5..].split('_');
    let kind = it.next()?;
    let len: usize = it.next()?.parse().ok()?;
    if it.next().is_some() || !LONG_KINDS.contains(&kind) {
        return None;
    }
    Some((&c[..at], kind, len))
}
/// is `cls` the long class of the parameter with this prefix ("" = the function's only / first text parameter)
fn is_long(cls: &str, prefix: &str) -> bool {
    long_cls(cls).map(|(p, _, _)| p == prefix).unwrap_or(false)
}
/// the bytes of a long class; `ascii` supplies the ASCII bytes (cycled): the whole text for kind `a`,
/// the leading byte and the padding otherwise
fn long_text(cls: &str, ascii: &[u8]) -> Vec<u8> {
    let (_, kind, len) = long_cls(cls).expect("long class");
    let ch: &[u8] = match &kind[..2.min(kind.len())] {
        "u2" => "\u{e9}".as_bytes(),
        "u3" => "\u{4e2d}".as_bytes(),
        "u4" => "\u{1f600}".as_bytes(),
        _ => &[],
    };
    let fill = |i: usize| ascii[i % ascii.len()];
    let mut v: Vec<u8> = Vec::with_capacity(len);
    if ch.is_empty() {
        return (0..len).map(fill).collect();
    }
    if kind.ends_with('o') {
        v.push(fill(0));
    }
    while v.len() + ch.len() <= len {
        v.extend_from_slice(ch);
    }
    while v.len() < len {
        v.push(fill(v.len()));
    }
    v
}
/// a path under `dir`: the text of the long class cut into components of at most 120 bytes at character
/// boundaries (every component a legal file name), the last one followed by `ext`; directories are created
fn long_path(dir: &std::path::Path, cls: &str, ext: &str) -> std::path::PathBuf {
    let t = String::from_utf8(long_text(cls, b"p")).unwrap();
    let mut comps: Vec<String> = vec![String::new()];
    for ch in t.chars() {
        if comps.last().unwrap().len() + ch.len_utf8() > 120 {
            comps.push(String::new());
        }
        comps.last_mut().unwrap().push(ch);
    }
    let last = comps.pop().unwrap();
    let mut p = dir.to_path_buf();
    for c in comps {
        p.push(c);
    }
    std::fs::create_dir_all(&p).unwrap();
    p.push(format!("{}{}", last, ext));
    p
}
fn long_classes() -> Vec<(String, String)> {
    let mut v = vec![];
    for (f, pre) in LONG_PARAMS {
        for noinit in [false, true] {
            for k in LONG_KINDS {
                for l in if noinit { LONG_LENS_NOINIT } else { LONG_LENS } {
                    v.push((f.to_string(), format!("{}long_{}_{}{}", pre, k, l, if noinit { "_noinit" } else { "" })));
                }
            }
        }
    }
    v
}

fn scenarios() -> Vec<(String, String, bool)> {
    let mut v = scenarios_base();
    for (f, c) in long_classes() {
        // count_kmer / get_kmer have no native counterpart to compare with
        let cmp = !f.ends_with("_kmer");
        v.push((f, c, cmp));
    }
    // sketches loaded from accepted-but-unusual documents, handed to every export that takes a sketch handle
    for (f, c) in loaded_scenarios() {
        v.push((f, c, true));
    }
    let mut addv = |f: &str, cls: Vec<String>, cmp: bool| {
        for c in cls {
            v.push((f.to_string(), c, cmp));
        }
    };
    let strs = |c: &[&str]| -> Vec<String> { c.iter().map(|x| x.to_string()).collect() };
    // ---- every `char` / byte-buffer parameter with non-ASCII bytes, 0x7f, and 0x00 where a length is passed
    for f in ["sourmash_aa_to_dayhoff", "sourmash_aa_to_hp"] {
        addv(f, strs(&["b00", "b7f", "b80", "bff", "all256"]), true);
    }
    addv("sourmash_translate_codon", strs(&["hi1", "hi2", "hi3", "utf8_3", "b7f_3", "lower3", "hi5", "large"]), true);
    addv("hash_murmur", strs(BYTES_CSTR), true);
    addv("hash_murmur", strs(&["len1", "large"]), true);
    addv("sourmash_str_from_cstr", strs(&["utf8", "b7f", "b80", "len1", "large"]), true);
    addv("kmerminhash_add_word", strs(BYTES_CSTR), true);
    addv("kmerminhash_add_word", strs(&["len1", "large", "zero_zero"]), true);
    addv("kmerminhash_add_sequence", strs(BYTES_CSTR), true);
    addv("kmerminhash_add_sequence", with_suffix(BYTES_CSTR, "force"), true);
    addv("kmerminhash_add_sequence", strs(&["len1", "len_k", "large", "k1", "k2", "zero_zero", "num", "abund", "lowercase"]), true);
    for m in ["protein", "dayhoff", "hp"] {
        addv("kmerminhash_add_protein", with_prefix(m, BYTES_CSTR), true);
        addv("kmerminhash_seq_to_hashes", with_prefix(m, BYTES_BUF), true);
    }
    addv("kmerminhash_add_protein", strs(&["len_k", "len_k_minus_1", "large", "k1", "k3", "k20", "dayhoff_k20", "hp_k1", "zero_zero", "lowercase", "stop"]), true);
    addv("kmerminhash_seq_to_hashes", strs(BYTES_BUF), true);
    addv("kmerminhash_seq_to_hashes", with_suffix(BYTES_BUF, "force"), true);
    addv("kmerminhash_seq_to_hashes", with_prefix("translated", BYTES_BUF), true);
    addv("kmerminhash_seq_to_hashes", with_suffix(&with_prefix("translated", BYTES_BUF).iter().map(|s| s.as_str()).collect::<Vec<_>>(), "force"), true);
    addv("kmerminhash_seq_to_hashes", strs(&["len1", "large", "k1", "protein_k1", "protein_k20", "protein_len1", "translated_large"]), true);
    addv("hll_add_sequence", strs(BYTES_BUF), true);
    addv("hll_add_sequence", with_suffix(BYTES_BUF, "force"), true);
    addv("hll_add_sequence", strs(&["len1", "len_k", "large", "k1", "lowercase"]), true);
    for f in ["nodegraph_count_kmer", "nodegraph_get_kmer"] {
        addv(f, strs(BYTES_CSTR), false);
        addv(f, strs(&["len1", "long"]), false);
    }
    addv("signature_add_sequence", strs(BYTES_CSTR), true);
    addv("signature_add_sequence", with_suffix(BYTES_CSTR, "force"), true);
    addv("signature_add_sequence", strs(&["large", "len1"]), true);
    addv("signature_add_protein", strs(BYTES_CSTR), true);
    addv("signature_add_protein", with_prefix("reduced", BYTES_CSTR), true);
    addv("signature_add_protein", strs(&["large", "reduced"]), true);
    for f in ["signature_set_name", "signature_set_filename"] {
        addv(f, strs(&["utf8", "b7f", "b80", "bff", "len1", "large"]), true);
    }
    // ---- paths: valid non-ASCII names work, byte strings that are not UTF-8 give the Utf8Error code
    for f in ["hll_from_path", "nodegraph_from_path", "hll_save", "nodegraph_save"] {
        addv(f, strs(&["utf8", "b7f"]), true);
    }
    addv("hll_save", strs(&["bad_utf8"]), true);
    addv("nodegraph_save", strs(&["bad_utf8"]), true);
    addv("signatures_load_path", strs(&["utf8", "moltype_utf8"]), true);
    addv("zipstorage_new", strs(&["utf8", "b00", "len1"]), true);
    addv("zipstorage_load", strs(&["utf8", "b00", "b80", "len1", "large"]), true);
    addv("zipstorage_set_subdir", strs(&["utf8", "b00", "b80", "len1", "large"]), true);
    // ---- serialized buffers made of bytes no format starts with
    for f in ["hll_from_buffer", "nodegraph_from_buffer", "signatures_load_buffer"] {
        addv(f, strs(&["hi_bytes", "nul_bytes", "len1", "len1_hi"]), true);
    }
    // ---- sizes 0 / 1 / large of the remaining length parameters; k = 1; num = scaled = 0
    addv("kmerminhash_add_many", strs(&["len1", "large", "zero_zero"]), true);
    addv("kmerminhash_remove_many", strs(&["len1", "large"]), true);
    addv("kmerminhash_set_abundances", strs(&["len1", "large"]), true);
    addv("computeparams_set_ksizes", strs(&["len1", "large"]), true);
    addv("signatures_save_buffer", strs(&["one"]), true);
    addv("revindex_new_with_sigs", strs(&["one_sig"]), true);
    addv("kmerminhash_new", strs(&["k1", "num_and_scaled", "num_large"]), true);
    addv("kmerminhash_add_hash", strs(&["zero_zero"]), true);
    addv("kmerminhash_get_mins", strs(&["zero_zero", "large"]), true);
    addv("kmerminhash_md5sum", strs(&["zero_zero"]), true);
    addv("hll_with_error_rate", strs(&["k0", "k1", "k_max"]), true);
    addv("nodegraph_with_tables", strs(&["k1", "k0", "large"]), true);
    for f in ["kmerminhash_merge", "kmerminhash_add_from", "kmerminhash_remove_from", "kmerminhash_intersection", "kmerminhash_intersection_union_size", "kmerminhash_jaccard", "kmerminhash_count_common", "kmerminhash_similarity", "kmerminhash_is_compatible", "kmerminhash_angular_similarity"] {
        addv(f, strs(&["zero_zero", "k1"]), true);
    }
    v
}

fn scenarios_base() -> Vec<(String, String, bool)> {
    let mut v: Vec<(String, String, bool)> = vec![];
    let mut add = |f: &str, cls: &[&str], cmp: bool| {
        for c in cls {
            v.push((f.to_string(), c.to_string(), cmp));
        }
    };
    // ---- compute parameters
    add("computeparams_new", &["default"], true);
    add("computeparams_free", &["valid", "null"], false);
    for g in [
        "computeparams_dayhoff",
        "computeparams_dna",
        "computeparams_hp",
        "computeparams_protein",
        "computeparams_track_abundance",
        "computeparams_num_hashes",
        "computeparams_scaled",
        "computeparams_seed",
    ] {
        add(g, &["default", "set"], true);
    }
    for s in [
        "computeparams_set_dayhoff",
        "computeparams_set_dna",
        "computeparams_set_hp",
        "computeparams_set_protein",
        "computeparams_set_track_abundance",
        "computeparams_set_num_hashes",
        "computeparams_set_scaled",
        "computeparams_set_seed",
    ] {
        add(s, &["valid", "zero", "max"], true);
    }
    add("computeparams_ksizes", &["default", "empty"], true);
    add("computeparams_ksizes_free", &["valid", "empty", "null"], false);
    add("computeparams_set_ksizes", &["valid", "empty", "zero_k"], true);
    // ---- hashing helpers
    add("hash_murmur", &["valid", "empty", "non_acgt"], true);
    add("sourmash_aa_to_dayhoff", &["valid", "unknown"], true);
    add("sourmash_aa_to_hp", &["valid", "unknown"], true);
    add("sourmash_translate_codon", &["valid", "len1", "len2", "unknown3", "empty", "len5"], true);
    // ---- error channel
    add("sourmash_init", &["once", "twice"], false);
    add("sourmash_err_clear", &["no_error", "after_error"], false);
    add("sourmash_err_get_last_code", &["no_error", "after_error"], true);
    add("sourmash_err_get_last_message", &["no_error", "after_error"], true);
    add("sourmash_err_get_backtrace", &["no_error", "after_error"], true);
    add("sourmash_str_from_cstr", &["valid", "empty", "bad_utf8"], true);
    add("sourmash_str_free", &["owned", "borrowed", "null", "twice"], false);
    // ---- HyperLogLog
    add("hll_new", &["default"], true);
    add("hll_free", &["valid", "default", "null"], false);
    add("hll_with_error_rate", &["valid", "zero", "negative", "nan", "too_large", "too_small", "inf"], true);
    add("hll_ksize", &["valid", "default"], true);
    add("hll_cardinality", &["valid", "empty", "p4", "p18", "default"], true);
    for f in ["hll_similarity", "hll_containment", "hll_intersection_size"] {
        add(f, &["valid", "empty", "self", "mismatch_p", "mismatch_p4", "mismatch_ksize", "default"], true);
    }
    add("hll_add_sequence", &["valid", "invalid", "invalid_force", "empty", "short", "default"], true);
    add("hll_add_hash", &["valid", "zero", "max", "default"], true);
    add("hll_merge", &["valid", "mismatch_ksize", "mismatch_p", "default"], true);
    add("hll_update_mh", &["valid", "empty_mh", "default", "default_empty_mh"], true);
    add("hll_matches", &["valid", "empty_mh", "default", "p4"], true);
    add("hll_from_path", &["valid", "missing", "garbage", "directory", "bad_utf8"], true);
    add("hll_from_buffer", &["valid", "gz", "empty", "garbage", "truncated"], true);
    add("hll_save", &["valid", "missing_dir", "default"], true);
    add("hll_to_buffer", &["valid", "default"], true);
    // ---- KmerMinHash
    add("kmerminhash_new", &["scaled", "num", "zero_zero", "k0", "abund", "protein", "dayhoff", "hp", "scaled_max"], true);
    add("kmerminhash_free", &["valid", "null"], false);
    add("kmerminhash_slice_free", &["valid", "empty", "null"], false);
    add("kmerminhash_add_sequence", &["valid", "invalid", "invalid_force", "empty", "short", "protein_mh", "k0"], true);
    add("kmerminhash_add_protein", &["valid", "dna_mh", "short", "empty", "non_aa", "dayhoff", "hp"], true);
    add("kmerminhash_seq_to_hashes", &["valid", "invalid", "invalid_force", "force_zeroes", "empty", "protein", "short", "k0", "k_minus_1", "exactly_k", "protein_short", "protein_k_third", "dayhoff_short", "translated_short"], true);
    add("kmerminhash_clear", &["valid", "empty", "abund"], true);
    add("kmerminhash_add_hash", &["valid", "zero", "max", "above_max_hash", "num_full", "abund", "abund_overflow"], true);
    add("kmerminhash_add_hash_with_abundance", &["valid", "zero_abund", "max_abund", "no_track", "repeat"], true);
    add("kmerminhash_add_word", &["valid", "empty", "non_acgt", "abund_overflow"], true);
    add("kmerminhash_remove_hash", &["present", "absent", "empty", "abund"], true);
    add("kmerminhash_remove_many", &["valid", "absent", "empty_list", "abund"], true);
    add("kmerminhash_get_mins", &["valid", "empty"], true);
    add("kmerminhash_get_mins_size", &["valid", "empty"], true);
    add("kmerminhash_get_abunds", &["valid", "empty", "no_track"], true);
    add("kmerminhash_md5sum", &["valid", "empty"], true);
    add("kmerminhash_add_many", &["valid", "empty_list", "dups"], true);
    add("kmerminhash_set_abundances", &["valid", "clear", "no_track", "empty_list", "zero_abund"], true);
    for g in [
        "kmerminhash_is_protein",
        "kmerminhash_dayhoff",
        "kmerminhash_hp",
        "kmerminhash_seed",
        "kmerminhash_track_abundance",
        "kmerminhash_num",
        "kmerminhash_ksize",
        "kmerminhash_max_hash",
        "kmerminhash_hash_function",
    ] {
        add(g, &["dna", "protein", "dayhoff", "hp", "num", "abund"], true);
    }
    add("kmerminhash_disable_abundance", &["abund", "no_track"], true);
    add("kmerminhash_enable_abundance", &["empty", "nonempty", "already"], true);
    add("kmerminhash_hash_function_set", &["empty", "same", "nonempty"], true);
    for f in [
        "kmerminhash_merge",
        "kmerminhash_is_compatible",
        "kmerminhash_add_from",
        "kmerminhash_remove_from",
        "kmerminhash_intersection",
        "kmerminhash_intersection_union_size",
        "kmerminhash_jaccard",
        "kmerminhash_angular_similarity",
    ] {
        add(f, MH_BIN, true);
    }
    add("kmerminhash_angular_similarity", &["abund_overflow"], true);
    add("kmerminhash_count_common", MH_BIN, true);
    add("kmerminhash_count_common", &["downsample", "downsample_num"], true);
    add("kmerminhash_similarity", MH_BIN, true);
    add("kmerminhash_similarity", &["downsample", "ignore_abund", "downsample_num"], true);
    // ---- Nodegraph
    add("nodegraph_new", &["default"], true);
    add("nodegraph_free", &["valid", "default", "null"], false);
    add("nodegraph_buffer_free", &["valid", "null"], false);
    add("nodegraph_with_tables", &["valid", "one_table", "zero_tables", "size2", "size1", "size0"], true);
    add("nodegraph_count", &["valid", "repeat", "default", "zero_len_table"], true);
    add("nodegraph_get", &["present", "absent", "default", "zero_len_table"], true);
    add("nodegraph_count_kmer", &["valid", "non_acgt", "lowercase", "empty", "default_non_acgt"], false);
    add("nodegraph_get_kmer", &["valid", "non_acgt", "empty"], false);
    add("nodegraph_expected_collisions", &["valid", "filled", "default", "zero_tables"], true);
    add("nodegraph_ksize", &["valid", "default"], true);
    add("nodegraph_hashsizes", &["valid", "default"], true);
    add("nodegraph_ntables", &["valid", "default"], true);
    add("nodegraph_noccupied", &["valid", "default"], true);
    add("nodegraph_matches", &["valid", "empty_mh", "default", "zero_len_table"], true);
    add("nodegraph_update", &["valid", "mismatch_tables", "mismatch_sizes", "default_into_valid", "valid_into_default", "self_sizes", "zero_len_table"], true);
    add("nodegraph_update_mh", &["valid", "empty_mh", "default", "zero_len_table"], true);
    add("nodegraph_from_path", &["valid", "missing", "garbage", "directory", "bad_utf8"], true);
    add("nodegraph_from_buffer", &["valid", "gz", "empty", "garbage", "truncated", "zero_len_table"], true);
    add("nodegraph_save", &["valid", "missing_dir", "default", "size32"], true);
    add("nodegraph_to_buffer", &["raw", "gz1", "gz9", "default", "size32"], true);
    // ---- Signature
    add("signature_new", &["default"], true);
    add("signature_free", &["valid", "null"], false);
    add("signature_from_params", &["default", "protein", "all_moltypes", "no_ksizes", "no_moltypes", "k0", "scaled"], true);
    add("signature_len", &["default", "params"], true);
    add("signature_add_sequence", &["valid", "invalid", "invalid_force", "empty_sig", "empty_seq", "protein_sig"], true);
    add("signature_add_protein", &["valid", "dna_sig", "empty_sig", "short"], true);
    add("signature_set_name", &["valid", "empty", "bad_utf8"], true);
    add("signature_set_filename", &["valid", "empty", "bad_utf8"], true);
    add("signature_get_name", &["unset", "set"], true);
    add("signature_get_filename", &["unset", "set"], true);
    add("signature_get_license", &["default"], true);
    add("signature_push_mh", &["valid", "twice"], true);
    add("signature_set_mh", &["valid", "replace"], true);
    add("signature_first_mh", &["valid", "empty_sig", "large_mh", "hll_sketch"], true);
    add("signature_eq", &["equal", "different", "self", "empty"], true);
    add("signature_save_json", &["valid", "empty_sig"], true);
    add("signature_get_mhs", &["valid", "empty_sig"], true);
    add("signatures_save_buffer", &["valid", "gz", "empty_list"], true);
    add("signatures_load_path", &["valid", "select_k", "select_moltype", "bad_moltype", "missing", "garbage", "gz", "bad_utf8", "moltype_bad_utf8"], true);
    add("signatures_load_buffer", &["valid", "select_k", "select_none", "bad_moltype", "empty", "garbage", "bad_molecule", "gz", "hll_sketch"], true);
    // ---- ZipStorage
    add("zipstorage_new", &["valid", "missing", "not_a_zip", "empty_path", "bad_utf8", "directory"], true);
    add("zipstorage_free", &["valid", "null"], false);
    add("zipstorage_load", &["valid", "missing_entry", "empty_path", "bad_utf8"], true);
    add("zipstorage_list_sbts", &["sbt_zip", "sig_zip"], true);
    add("zipstorage_filenames", &["sbt_zip", "sig_zip"], true);
    add("zipstorage_set_subdir", &["valid", "empty", "bad_utf8"], true);
    add("zipstorage_path", &["valid"], true);
    add("zipstorage_subdir", &["unset", "set"], true);
    // ---- RevIndex / search results
    add("revindex_new_with_sigs", &["valid", "empty_sigs", "with_queries", "empty_queries", "queries_threshold0_mismatch", "template_mismatch"], true);
    add("revindex_new_with_paths", &["valid", "missing", "empty_paths", "garbage", "with_queries"], true);
    add("revindex_free", &["valid", "null"], false);
    add("revindex_len", &["valid"], true);
    add("revindex_scaled", &["valid"], true);
    add("revindex_signatures", &["valid"], true);
    add("revindex_search", &["valid", "empty_sig", "no_match", "containment", "mismatch_ksize", "large_mh"], false);
    add("revindex_gather", &["valid", "empty_sig", "no_match", "mismatch_ksize", "large_mh", "threshold_big"], true);
    add("searchresult_score", &["valid"], true);
    add("searchresult_filename", &["valid"], true);
    add("searchresult_signature", &["valid"], true);
    add("searchresult_free", &["valid"], true);
    add("searchresult_free", &["null"], false);
    v
}

/// scenarios that abort the process on the tree as it is (kept in corpus/C20/aborts.ops, recorded in
/// findings/C20.json; the random generator never emits them a second time)
fn in_corpus_only(f: &str, cls: &str) -> bool {
    let p = format!("/verif/corpus/C20/aborts.ops");
    thread_local! { static SET: std::cell::RefCell<Option<std::collections::HashSet<(String, String)>>> = const { std::cell::RefCell::new(None) }; }
    SET.with(|s| {
        let mut s = s.borrow_mut();
        if s.is_none() {
            let mut set = std::collections::HashSet::new();
            if let Ok(t) = std::fs::read_to_string(&p) {
                for l in t.lines() {
                    let w: Vec<&str> = l.split_whitespace().collect();
                    if w.len() >= 3 && w[0] == "call" {
                        set.insert((w[1].to_string(), w[2].to_string()));
                    }
                }
            }
            *s = Some(set);
        }
        s.as_ref().unwrap().contains(&(f.to_string(), cls.to_string()))
    })
}

// ------------------------------------------------------------------------------------------------
// sequences (T-channel): every step is a concrete call whose outcome is known from its arguments
// ------------------------------------------------------------------------------------------------

const SEQ_FAIL: &[&str] = &[
    "merge_mismatch_ksize",
    "merge_mismatch_moltype",
    "merge_mismatch_scaled",
    "merge_mismatch_seed",
    "add_seq_invalid",
    "hll_add_seq_invalid",
    "sig_add_seq_invalid",
    "translate_codon_len5",
    "hash_function_set_nonempty",
    "enable_abundance_nonempty",
    "hll_bad_error_rate",
    "hll_merge_mismatch_ksize",
    "hll_merge_mismatch_p",
    "angular_needs_abund",
    "count_common_num_vs_scaled",
    "load_sigs_bad_json",
    "str_from_cstr_bad_utf8",
    "first_mh_empty_sig",
    "ng_from_path_missing",
    "zip_missing",
    "ng_from_buffer_empty",
    "add_seq_hi_invalid",
    "hll_save_bad_utf8_path",
    "ng_from_path_missing_long",
];
const SEQ_PANIC: &[&str] = &["get_abunds_no_track", "hll_update_mh_default", "load_sigs_bad_moltype", "ng_from_buffer_garbage", "load_sigs_long_moltype", "load_path_long_moltype"];
const SEQ_OK: &[&str] = &[
    "ok_add_hash",
    "ok_merge",
    "ok_get_mins",
    "ok_md5sum",
    "ok_add_seq",
    "ok_add_seq_force",
    "ok_is_compatible_false",
    "ok_isect_union_mismatch",
    "ok_hll_cardinality",
    "ok_ng_count",
    "ok_sig_json",
    "ok_str_from_cstr",
    "ok_aa_class_hi",
    "ok_add_protein_hi",
    "ok_set_name_hi",
    "ok_set_name_long",
];
const SEQ_QUERY: &[&str] = &["code", "msg", "backtrace"];

fn gen(a: &Args) {
    let mut r = Rng::new(a.seed);
    let mut o = Out::new();
    let thorough = a.tier == "thorough";
    // ---- stream 1: error-channel histories
    let nseq = if thorough { 4000 } else { 300 };
    // fixed shapes first: every failing step alone, after init and without init
    for (i, st) in SEQ_FAIL.iter().chain(SEQ_PANIC.iter()).enumerate() {
        o.case(&format!("seq fixed{}", i));
        if i % 2 == 0 {
            o.op("init");
        }
        o.op("code");
        o.op(st);
        o.op("msg");
        o.op("ok_add_hash");
        o.op("ok_merge");
        o.op("code");
        o.op("init");
        o.op(st);
        o.op("clear");
        o.op("msg");
    }
    // two different failures with no clear in between: the later one must be reported
    let fails: Vec<&str> = SEQ_FAIL.iter().chain(SEQ_PANIC.iter()).copied().collect();
    for (i, a) in fails.iter().enumerate() {
        let b = fails[(i + 7) % fails.len()];
        let c = fails[(i + 13) % fails.len()];
        o.case(&format!("seq pair{}", i));
        o.op("init");
        o.op(a);
        o.op(b);
        o.op("msg");
        o.op("ok_merge");
        o.op(c);
        o.op(a);
        o.op("clear");
        o.op(b);
    }
    for _ in 0..nseq {
        o.case("seq");
        // most histories start with sourmash_init (the precondition of T-channel); some do not
        if !r.chance(1, 6) {
            o.op("init");
        }
        let len = r.range(1, if thorough { 40 } else { 14 });
        for _ in 0..len {
            let k = r.below(100);
            let st: &str = if k < 30 {
                *r.pick(SEQ_FAIL)
            } else if k < 40 {
                *r.pick(SEQ_PANIC)
            } else if k < 65 {
                *r.pick(SEQ_OK)
            } else if k < 85 {
                *r.pick(SEQ_QUERY)
            } else if k < 96 {
                "clear"
            } else {
                "init"
            };
            o.op(st);
        }
    }
    // ---- stream 2: one exported function per child
    let reps = if thorough { 12 } else { 2 };
    let sc = scenarios();
    let mut cur = String::new();
    // long text classes: nothing random in them beyond the ASCII letters; one case per (function, parameter, hook)
    for (f, cls, cmp) in &sc {
        let Some((pre, kind, _)) = long_cls(cls) else { continue };
        if in_corpus_only(f, cls) {
            continue;
        }
        let key = format!("{} {}{}", f, pre, if cls.ends_with("_noinit") { "noinit" } else { "init" });
        if key != cur {
            o.case(&format!("call-long {}", key));
            cur = key;
        }
        let _ = kind;
        for i in 0..(if thorough { 2 } else { 1 }) {
            let seed = if i == 0 { 0 } else { r.bits(32) };
            o.op(&format!("call {} {} {} {}", f, cls, if *cmp { "cmp" } else { "nocmp" }, seed));
        }
    }
    // loaded objects: one case per document class; the seed varies sizes and values, never the class's shape
    cur = String::new();
    for d in LOADED_DOCS {
        for (f, cls, cmp) in &sc {
            let Some(rest) = cls.strip_prefix("loaded_") else { continue };
            if rest.split('_').next() != Some(*d) || in_corpus_only(f, cls) {
                continue;
            }
            if *d != cur {
                o.case(&format!("call-loaded {}", d));
                cur = d.to_string();
            }
            for i in 0..(if thorough { 8 } else { 2 }) {
                let seed = if i == 0 { 0 } else { r.bits(32) };
                o.op(&format!("call {} {} {} {}", f, cls, if *cmp { "cmp" } else { "nocmp" }, seed));
            }
        }
    }
    cur = String::new();
    for (f, cls, cmp) in &sc {
        if in_corpus_only(f, cls) || long_cls(cls).is_some() || cls.starts_with("loaded_") {
            continue;
        }
        if *f != cur {
            o.case(&format!("call {}", f));
            cur = f.clone();
        }
        for i in 0..reps {
            let seed = if i == 0 { 0 } else { r.bits(32) };
            o.op(&format!("call {} {} {} {}", f, cls, if *cmp { "cmp" } else { "nocmp" }, seed));
        }
    }
}

// ------------------------------------------------------------------------------------------------
// exec (parent)
// ------------------------------------------------------------------------------------------------

struct SeqChild {
    child: Child,
    stdin: ChildStdin,
    stdout: BufReader<ChildStdout>,
}
#[derive(Default)]
struct ExecState {
    seq: Option<SeqChild>,
    dead: bool,
}
impl Drop for ExecState {
    fn drop(&mut self) {
        if let Some(mut c) = self.seq.take() {
            drop(c.stdin);
            let _ = c.child.kill();
            let _ = c.child.wait();
        }
    }
}

fn status_class(st: &std::process::ExitStatus) -> String {
    match (st.signal(), st.code()) {
        (Some(6), _) => "abort".into(),
        (Some(s), _) => format!("crash sig={}", s),
        (None, Some(c)) => format!("exit={}", c),
        _ => "exit=?".into(),
    }
}

fn run_call_child(f: &str, cls: &str, seed: &str) -> String {
    let exe = std::env::current_exe().unwrap();
    let mut child = Command::new(exe)
        .args(["child", f, cls, seed])
        .stdin(Stdio::null())
        .stdout(Stdio::piped())
        .stderr(Stdio::null())
        .spawn()
        .unwrap();
    let mut out = String::new();
    // bounded wait: a hang is reported, not suffered
    let t0 = std::time::Instant::now();
    let status = loop {
        match child.try_wait().unwrap() {
            Some(st) => break Some(st),
            None => {
                if t0.elapsed().as_secs() > 120 {
                    let _ = child.kill();
                    let _ = child.wait();
                    break None;
                }
                std::thread::sleep(std::time::Duration::from_millis(1));
            }
        }
    };
    if let Some(mut so) = child.stdout.take() {
        let _ = so.read_to_string(&mut out);
    }
    match status {
        None => "timeout".into(),
        Some(st) if st.success() => out.lines().last().unwrap_or("no-output").to_string(),
        Some(st) => status_class(&st),
    }
}

fn exec_step(st: &mut ExecState, ws: &[&str]) -> String {
    match ws[0] {
        "case" => {
            if let Some(mut c) = st.seq.take() {
                drop(c.stdin);
                let _ = c.child.kill();
                let _ = c.child.wait();
            }
            st.dead = false;
            "ok".into()
        }
        "call" => run_call_child(ws[1], ws[2], ws.get(4).copied().unwrap_or("0")),
        step => {
            if st.dead {
                return "dead".into();
            }
            if st.seq.is_none() {
                let exe = std::env::current_exe().unwrap();
                let mut child = Command::new(exe)
                    .arg("seqchild")
                    .stdin(Stdio::piped())
                    .stdout(Stdio::piped())
                    .stderr(Stdio::null())
                    .spawn()
                    .unwrap();
                let stdin = child.stdin.take().unwrap();
                let stdout = BufReader::new(child.stdout.take().unwrap());
                st.seq = Some(SeqChild { child, stdin, stdout });
            }
            let c = st.seq.as_mut().unwrap();
            let mut line = String::new();
            let ok = writeln!(c.stdin, "{}", step).is_ok() && c.stdin.flush().is_ok();
            if ok {
                let _ = c.stdout.read_line(&mut line);
            }
            if line.is_empty() {
                st.dead = true;
                let status = c.child.wait().unwrap();
                st.seq = None;
                return status_class(&status);
            }
            line.trim_end().to_string()
        }
    }
}

// ------------------------------------------------------------------------------------------------
// helpers shared by the children
// ------------------------------------------------------------------------------------------------

type MH = *mut SourmashKmerMinHash;
type HLL = *mut SourmashHyperLogLog;
type NG = *mut SourmashNodegraph;
type SIG = *mut SourmashSignature;

fn cs(s: &str) -> CString {
    CString::new(s).unwrap()
}
fn csb(b: &[u8]) -> CString {
    CString::new(b.to_vec()).unwrap()
}
fn hf(i: u32) -> FHF {
    match i {
        1 => FHF::Murmur64Dna,
        2 => FHF::Murmur64Protein,
        3 => FHF::Murmur64Dayhoff,
        _ => FHF::Murmur64Hp,
    }
}
fn nhf(i: u32) -> sourmash::encodings::HashFunctions {
    use sourmash::encodings::HashFunctions::*;
    match i {
        1 => Murmur64Dna,
        2 => Murmur64Protein,
        3 => Murmur64Dayhoff,
        _ => Murmur64Hp,
    }
}
fn last_code() -> u32 {
    unsafe { sourmash_err_get_last_code() as u32 }
}
fn dna(r: &mut Rng, n: usize) -> Vec<u8> {
    (0..n).map(|_| *r.pick(b"ACGT")).collect()
}
fn prot(r: &mut Rng, n: usize) -> Vec<u8> {
    (0..n).map(|_| *r.pick(b"ACDEFGHIKLMNPQRSTVWY")).collect()
}
fn hashes(r: &mut Rng, n: usize) -> Vec<u64> {
    let mut v: Vec<u64> = (0..n).map(|_| r.next().max(1)).collect();
    v.sort();
    v.dedup();
    v
}

/// parameters of a sketch, used to build the same object through the C API and natively
#[derive(Clone, Copy)]
struct P {
    scaled: u64,
    k: u32,
    hf: u32,
    seed: u64,
    track: bool,
    num: u32,
}
const DNA21: P = P { scaled: 1, k: 21, hf: 1, seed: 42, track: false, num: 0 };
unsafe fn mh_new(p: P) -> MH {
    kmerminhash_new(p.scaled, p.k, hf(p.hf), p.seed, p.track, p.num)
}
fn mh_native(p: P) -> KmerMinHash {
    KmerMinHash::new(p.scaled, p.k, nhf(p.hf), p.seed, p.track, p.num)
}
/// (through the C API, natively) with the same hashes
unsafe fn mh_pair(p: P, hs: &[u64]) -> (MH, KmerMinHash) {
    let m = mh_new(p);
    let mut n = mh_native(p);
    for h in hs {
        kmerminhash_add_hash(m, *h);
        n.add_hash(*h);
    }
    (m, n)
}
unsafe fn mh_eq(m: *const SourmashKmerMinHash, n: &KmerMinHash) -> bool {
    let r = SourmashKmerMinHash::as_rust(m);
    r == n && r.mins() == n.mins() && r.abunds() == n.abunds() && r.num() == n.num() && r.max_hash() == n.max_hash()
        && r.ksize() == n.ksize() && r.seed() == n.seed() && r.hash_function() == n.hash_function()
}
unsafe fn take_slice<T: Clone>(p: *const T, n: usize) -> Vec<T> {
    // ownership of a boxed slice handed over by the library
    if p.is_null() {
        return vec![];
    }
    let b = Box::from_raw(std::ptr::slice_from_raw_parts_mut(p as *mut T, n));
    b.to_vec()
}
unsafe fn str_take(mut s: SourmashStr) -> String {
    let v = if s.data.is_null() { String::new() } else { s.as_str().to_string() };
    sourmash_str_free(&mut s);
    std::mem::forget(s);
    v
}
unsafe fn str_is_zero(s: SourmashStr) -> bool {
    let z = s.data.is_null() && s.len == 0 && !s.owned;
    std::mem::forget(s);
    z
}
fn tmpdir() -> tempfile::TempDir {
    std::fs::create_dir_all("/verif/.cache/run").ok();
    tempfile::Builder::new().prefix("c20-").tempdir_in("/verif/.cache/run").unwrap()
}

fn bits(x: f64) -> u64 {
    x.to_bits()
}

/// the 2nd operand of a binary KmerMinHash operation for an argument class; (first params, second params)
fn bin_params(cls: &str) -> (P, P) {
    let a = DNA21;
    match cls {
        "compat" | "empty" => (a, a),
        "self_abund" => (P { track: true, ..a }, P { track: true, ..a }),
        "mismatch_ksize" => (a, P { k: 31, ..a }),
        "mismatch_moltype" => (a, P { hf: 2, ..a }),
        "mismatch_scaled" => (a, P { scaled: 2, ..a }),
        "mismatch_seed" => (a, P { seed: 43, ..a }),
        "num_vs_scaled" => (P { scaled: 0, num: 500, ..a }, a),
        "downsample" => (P { scaled: 2, ..a }, P { scaled: 4, ..a }),
        "downsample_num" => (P { scaled: 0, num: 500, ..a }, P { scaled: 4, ..a }),
        "ignore_abund" => (P { track: true, ..a }, P { track: true, ..a }),
        "abund_overflow" => (P { track: true, ..a }, P { track: true, ..a }),
        "zero_zero" => (P { scaled: 0, num: 0, ..a }, P { scaled: 0, num: 0, ..a }),
        "k1" => (P { k: 1, ..a }, P { k: 1, ..a }),
        _ => (a, a),
    }
}

// ------------------------------------------------------------------------------------------------
// dump
// ------------------------------------------------------------------------------------------------

fn variant_name(e: &SourmashError) -> String {
    format!("{:?}", e).chars().take_while(|c| c.is_alphanumeric() || *c == '_').collect()
}

fn take_last_error() -> Option<SourmashError> {
    LAST_ERROR.with(|e| e.borrow_mut().take())
}

fn dump() {
    use SourmashError as E;
    let mut v: Vec<SourmashError> = vec![
        E::Internal { message: "m".into() },
        E::CannotUpsampleScaled,
        E::MismatchNum { n1: 1, n2: 2 },
        E::MismatchKSizes,
        E::MismatchDNAProt,
        E::MismatchScaled,
        E::MismatchSeed,
        E::MismatchSignatureType,
        E::NeedsAbundanceTracking,
        E::NoMinHashFound,
        E::EmptySignature,
        E::MultipleSketchesFound,
        E::InvalidHashFunction { function: "f".into() },
        E::NonEmptyMinHash { message: "m".into() },
        E::InvalidDNA { message: "m".into() },
        E::InvalidProt { message: "m".into() },
        E::InvalidCodonLength { message: "m".into() },
        E::HLLPrecisionBounds,
        E::ANIEstimationError { message: "m".into() },
        E::ReadDataError(sourmash::errors::ReadDataError::LoadError),
        E::StorageError(sourmash::storage::StorageError::EmptyPathError),
        E::SerdeError(serde_json::from_str::<u32>("x").unwrap_err()),
        E::Utf8Error(std::str::from_utf8(&[0xffu8, 0xfe]).unwrap_err()),
        E::IOError(std::io::Error::other("x")),
        E::RocksDBError({
            let mut o = rocksdb::Options::default();
            o.create_if_missing(false);
            rocksdb::DB::open(&o, "/verif/.cache/run/c20-no-such-db").err().expect("rocksdb error")
        }),
    ];
    // kinds whose payload types are not nameable from here: obtained from the library itself
    unsafe {
        // niffler::Error
        let p = cs("/verif/.cache/run/c20-no-such-file");
        let _ = nodegraph_from_path(p.as_ptr());
        match take_last_error() {
            Some(e) => v.push(e),
            None => panic!("no niffler error"),
        }
        // csv::Error
        match sourmash::manifest::Manifest::from_reader(&b"a,b\n1,2,3\n"[..]) {
            Err(e) => v.push(e),
            Ok(_) => panic!("no csv error"),
        }
        // Panic (private constructor): what the hook stores
        sourmash_init();
        let _: u32 = landingpad(|| -> Result<u32, SourmashError> { panic!("dump") });
        match take_last_error() {
            Some(e) => v.push(e),
            None => panic!("no panic error"),
        }
        let _ = std::panic::take_hook();
    }
    for e in &v {
        println!("kind {} {}", variant_name(e), SourmashErrorCode::from_error(e) as u32);
    }
    for (f, c, _) in scenarios() {
        println!("scenario {} {}", f, c);
    }
    for s in SEQ_FAIL.iter().chain(SEQ_PANIC).chain(SEQ_OK).chain(SEQ_QUERY) {
        println!("seqstep {}", s);
    }
}

// ------------------------------------------------------------------------------------------------
// seqchild
// ------------------------------------------------------------------------------------------------

unsafe fn seq_step(name: &str) -> Option<String> {
    let a = DNA21;
    let hs = [3u64, 5, 8, 13];
    let mut extra = String::new();
    match name {
        "init" => sourmash_init(),
        "clear" => sourmash_err_clear(),
        "code" => {}
        "msg" => {
            let m = str_take(sourmash_err_get_last_message());
            extra = format!("msg={} ", if m.is_empty() { 0 } else { 1 });
        }
        "backtrace" => {
            let m = str_take(sourmash_err_get_backtrace());
            extra = format!("bt={} ", if m.is_empty() { 0 } else { 1 });
        }
        "merge_mismatch_ksize" | "merge_mismatch_moltype" | "merge_mismatch_scaled" | "merge_mismatch_seed" | "ok_merge" => {
            let cls = if name == "ok_merge" { "compat" } else { &name[6..] };
            let (pa, pb) = bin_params(cls);
            let (x, _) = mh_pair(pa, &hs);
            let (y, _) = mh_pair(pb, &[1, 2]);
            kmerminhash_merge(x, y);
            kmerminhash_free(x);
            kmerminhash_free(y);
        }
        "add_seq_invalid" | "ok_add_seq" | "ok_add_seq_force" => {
            let x = mh_new(a);
            let s = if name == "ok_add_seq" { "ACGTACGTACGTACGTACGTACGTACGT" } else { "ACGTACGTACGTNCGTACGTACGTACGTACGT" };
            let c = cs(s);
            kmerminhash_add_sequence(x, c.as_ptr(), name == "ok_add_seq_force");
            kmerminhash_free(x);
        }
        "hll_add_seq_invalid" => {
            let h = hll_with_error_rate(0.05, 5);
            let s = b"ACGTNACGTAC";
            hll_add_sequence(h, s.as_ptr() as *const c_char, s.len(), false);
            hll_free(h);
        }
        "sig_add_seq_invalid" => {
            let cp = computeparams_new();
            let s = signature_from_params(cp);
            let c = cs("ACGTACGTACGTACGTACGTACGTNNNNNACGTACGTACGTACGTACGTACGTACGTACGTACGTACGTACGT");
            signature_add_sequence(s, c.as_ptr(), false);
            signature_free(s);
            computeparams_free(cp);
        }
        "translate_codon_len5" => {
            let c = cs("ACGTA");
            sourmash_translate_codon(c.as_ptr());
        }
        "hash_function_set_nonempty" => {
            let (x, _) = mh_pair(a, &hs);
            kmerminhash_hash_function_set(x, hf(2));
            kmerminhash_free(x);
        }
        "enable_abundance_nonempty" => {
            let (x, _) = mh_pair(a, &hs);
            kmerminhash_enable_abundance(x);
            kmerminhash_free(x);
        }
        "hll_bad_error_rate" => {
            let h = hll_with_error_rate(0.9, 21);
            hll_free(h);
        }
        "hll_merge_mismatch_ksize" | "hll_merge_mismatch_p" => {
            let h1 = hll_with_error_rate(0.05, 21);
            let h2 = if name.ends_with("_p") { hll_with_error_rate(0.01, 21) } else { hll_with_error_rate(0.05, 31) };
            hll_merge(h1, h2);
            hll_free(h1);
            hll_free(h2);
        }
        "angular_needs_abund" => {
            let (x, _) = mh_pair(a, &hs);
            let (y, _) = mh_pair(a, &hs);
            kmerminhash_angular_similarity(x, y);
            kmerminhash_free(x);
            kmerminhash_free(y);
        }
        "count_common_num_vs_scaled" => {
            // a num sketch (max_hash 0) against a scaled one: the downsampling path ends in MismatchScaled
            let (x, _) = mh_pair(P { scaled: 0, num: 500, ..a }, &hs);
            let (y, _) = mh_pair(P { scaled: 4, ..a }, &hs);
            kmerminhash_count_common(y, x, true);
            kmerminhash_free(x);
            kmerminhash_free(y);
        }
        "load_sigs_bad_json" | "load_sigs_bad_moltype" => {
            let buf: &[u8] = if name.ends_with("json") { b"{not json" } else { b"[]" };
            let mol = cs("rna");
            let mut n = 0usize;
            let p = signatures_load_buffer(
                buf.as_ptr() as *const c_char,
                buf.len(),
                false,
                0,
                if name.ends_with("json") { ptr::null() } else { mol.as_ptr() },
                &mut n,
            );
            if !p.is_null() {
                for s in take_slice(p as *const SIG, n) {
                    signature_free(s);
                }
            }
        }
        "str_from_cstr_bad_utf8" | "ok_str_from_cstr" => {
            let c = if name.starts_with("ok") { csb(b"hello") } else { csb(&[0xff, 0xfe, 0x41]) };
            let s = sourmash_str_from_cstr(c.as_ptr());
            // the returned string points into `c` although it is marked owned: not freed here
            std::mem::forget(s);
        }
        "first_mh_empty_sig" => {
            let s = signature_new();
            let m = signature_first_mh(s);
            if !m.is_null() {
                kmerminhash_free(m);
            }
            signature_free(s);
        }
        "ng_from_path_missing" => {
            let p = cs("/verif/.cache/run/c20-no-such-file");
            let g = nodegraph_from_path(p.as_ptr());
            if !g.is_null() {
                nodegraph_free(g);
            }
        }
        "zip_missing" => {
            let p = b"/verif/.cache/run/c20-no-such-file.zip";
            let z = zipstorage_new(p.as_ptr() as *const c_char, p.len());
            if !z.is_null() {
                zipstorage_free(z);
            }
        }
        "ng_from_buffer_empty" | "ng_from_buffer_garbage" => {
            let b: &[u8] = if name.ends_with("empty") { b"" } else { b"garbage-garbage-garbage-garbage-garbage" };
            let p = if b.is_empty() { ptr::NonNull::<c_char>::dangling().as_ptr() as *const c_char } else { b.as_ptr() as *const c_char };
            let g = nodegraph_from_buffer(p, b.len());
            if !g.is_null() {
                nodegraph_free(g);
            }
        }
        "get_abunds_no_track" => {
            let (x, _) = mh_pair(a, &hs);
            let mut n = 0usize;
            let p = kmerminhash_get_abunds(x, &mut n);
            if !p.is_null() {
                kmerminhash_slice_free(p as *mut u64, n);
            }
            kmerminhash_free(x);
        }
        "hll_update_mh_default" => {
            let h = hll_new();
            let (x, _) = mh_pair(a, &hs);
            hll_update_mh(h, x);
            hll_free(h);
            kmerminhash_free(x);
        }
        "ok_add_hash" => {
            let x = mh_new(a);
            kmerminhash_add_hash(x, 7);
            kmerminhash_free(x);
        }
        "ok_get_mins" => {
            let (x, _) = mh_pair(a, &hs);
            let mut n = 0usize;
            let p = kmerminhash_get_mins(x, &mut n);
            kmerminhash_slice_free(p as *mut u64, n);
            kmerminhash_free(x);
        }
        "ok_md5sum" => {
            let (x, _) = mh_pair(a, &hs);
            str_take(kmerminhash_md5sum(x));
            kmerminhash_free(x);
        }
        "ok_is_compatible_false" => {
            let (x, _) = mh_pair(a, &hs);
            let (y, _) = mh_pair(P { k: 31, ..a }, &hs);
            kmerminhash_is_compatible(x, y);
            kmerminhash_free(x);
            kmerminhash_free(y);
        }
        "ok_isect_union_mismatch" => {
            let (x, _) = mh_pair(a, &hs);
            let (y, _) = mh_pair(P { k: 31, ..a }, &hs);
            let mut u = 0u64;
            kmerminhash_intersection_union_size(x, y, &mut u);
            kmerminhash_free(x);
            kmerminhash_free(y);
        }
        "ok_hll_cardinality" => {
            let h = hll_with_error_rate(0.05, 21);
            hll_add_hash(h, 12345);
            hll_cardinality(h);
            hll_free(h);
        }
        "ok_ng_count" => {
            let g = nodegraph_with_tables(3, 100, 2);
            nodegraph_count(g, 77);
            nodegraph_free(g);
        }
        "ok_sig_json" => {
            let s = signature_new();
            str_take(signature_save_json(s));
            signature_free(s);
        }
        // ---- non-ASCII bytes (negative C chars) in `char` data
        "add_seq_hi_invalid" => {
            let x = mh_new(a);
            let c = csb(b"ACGTACGTACGTACGTACGTACGT\x80CGTACGTACGTACGTACGTACGTACGT");
            kmerminhash_add_sequence(x, c.as_ptr(), false);
            kmerminhash_free(x);
        }
        "hll_save_bad_utf8_path" => {
            let h = hll_with_error_rate(0.05, 21);
            let c = csb(b"/verif/.cache/run/c20-\xff\xfe.hll");
            hll_save(h, c.as_ptr());
            hll_free(h);
        }
        "ok_aa_class_hi" => {
            // plain exports without a landing pad: every `char` value must come back
            for b in [0x80u8, 0xff, 0xc3, 0x7f, 0x00] {
                sourmash_aa_to_dayhoff(b as c_char);
                sourmash_aa_to_hp(b as c_char);
            }
        }
        "ok_add_protein_hi" => {
            let c = csb(b"MVKVYAPASSANMSVGFDV\xc3\xa9LGAAVTPVDGALLGDVVTVEAAETFSLNNLGRFADKLPSEPRENIVYQCWERFCQELGK");
            for h in [3u32, 4, 2] {
                let x = mh_new(P { hf: h, ..a });
                kmerminhash_add_protein(x, c.as_ptr());
                kmerminhash_free(x);
            }
        }
        // ---- long text: panic / error messages that echo several hundred bytes of caller text, long names
        "load_sigs_long_moltype" | "load_path_long_moltype" => {
            // unknown molecule types of 700 / 701 bytes (2-byte characters from offset 0 / 1) and of 3- and 4-byte characters
            for mol in ["\u{e9}".repeat(350), format!("x{}", "\u{e9}".repeat(350)), "\u{4e2d}".repeat(120), format!("x{}", "\u{1f600}".repeat(90))] {
                let mol = cs(&mol);
                let mut n = 0usize;
                let p = if name.starts_with("load_sigs") {
                    signatures_load_buffer(b"[]".as_ptr() as *const c_char, 2, false, 0, mol.as_ptr(), &mut n)
                } else {
                    let path = cs(&format!("{}/47.fa.sig", TD));
                    signatures_load_path(path.as_ptr(), false, 0, mol.as_ptr(), &mut n)
                };
                if !p.is_null() {
                    for s in take_slice(p as *const SIG, n) {
                        signature_free(s);
                    }
                }
            }
        }
        "ng_from_path_missing_long" => {
            let p = cs(&format!("/verif/.cache/run/c20-no-such-dir/{}/{}.ng", "\u{e9}".repeat(100), "\u{4e2d}".repeat(70)));
            let g = nodegraph_from_path(p.as_ptr());
            if !g.is_null() {
                nodegraph_free(g);
            }
        }
        "ok_set_name_long" => {
            let s = signature_new();
            for t in ["g\u{e9}nome ".repeat(40), "\u{1f600}".repeat(300)] {
                let c = cs(&t);
                signature_set_name(s, c.as_ptr());
                signature_set_filename(s, c.as_ptr());
                str_take(signature_get_name(s));
                str_take(signature_save_json(s));
            }
            signature_free(s);
        }
        "ok_set_name_hi" => {
            let s = signature_new();
            let c = csb("g\u{e9}nome \u{4e2d}".as_bytes());
            signature_set_name(s, c.as_ptr());
            let c2 = csb(b"not utf8 \xff\x80");
            signature_set_filename(s, c2.as_ptr());
            signature_free(s);
        }
        _ => return None,
    }
    Some(extra)
}

fn seqchild() {
    let stdin = std::io::stdin();
    let stdout = std::io::stdout();
    for line in stdin.lock().lines() {
        let line = line.unwrap();
        let name = line.trim();
        let r = unsafe { seq_step(name) };
        let mut o = stdout.lock();
        match r {
            Some(extra) => writeln!(o, "{}code={}", extra, last_code()).unwrap(),
            None => writeln!(o, "unknown-step").unwrap(),
        }
        o.flush().unwrap();
    }
}

// ------------------------------------------------------------------------------------------------
// child: one exported function, in-contract arguments
// ------------------------------------------------------------------------------------------------

#[derive(PartialEq)]
enum Cmp {
    Same,
    Diff,
    None,
    Unknown,
}
fn c(b: bool) -> Cmp {
    if b {
        Cmp::Same
    } else {
        Cmp::Diff
    }
}
/// native evaluation (a panic is an answer too); leaves the error channel clean
fn native<T>(f: impl FnOnce() -> T) -> Option<T> {
    let r = std::panic::catch_unwind(std::panic::AssertUnwindSafe(f)).ok();
    unsafe { sourmash_err_clear() };
    r
}
/// flatten "panicked" and "returned Err" into `None`
fn nat_ok<T>(f: impl FnOnce() -> Result<T, SourmashError>) -> Option<T> {
    native(f).and_then(|r| r.ok())
}
fn dangling<T>() -> *const T {
    ptr::NonNull::<T>::dangling().as_ptr() as *const T
}

unsafe fn run_call(f: &str, cls: &str, r: &mut Rng) -> Cmp {
    for fam in [call_loaded, call_cp, call_misc, call_hll, call_mh, call_mh_bin, call_ng, call_sig, call_zip, call_rev] {
        if let Some(x) = fam(f, cls, r) {
            return x;
        }
    }
    Cmp::Unknown
}

// ---- compute parameters ---------------------------------------------------------------------
unsafe fn call_cp(f: &str, cls: &str, r: &mut Rng) -> Option<Cmp> {
    if !f.starts_with("computeparams_") {
        return None;
    }
    type CP = SourmashComputeParameters;
    let cp = computeparams_new();
    let d = ComputeParameters::default();
    let bools: [(&str, unsafe extern "C" fn(*const CP) -> bool, unsafe extern "C" fn(*mut CP, bool), fn(&ComputeParameters) -> bool, fn(&mut ComputeParameters, bool)); 5] = [
        ("dayhoff", computeparams_dayhoff, computeparams_set_dayhoff, |p| p.dayhoff(), |p, v| { p.set_dayhoff(v); }),
        ("dna", computeparams_dna, computeparams_set_dna, |p| p.dna(), |p, v| { p.set_dna(v); }),
        ("hp", computeparams_hp, computeparams_set_hp, |p| p.hp(), |p, v| { p.set_hp(v); }),
        ("protein", computeparams_protein, computeparams_set_protein, |p| p.protein(), |p, v| { p.set_protein(v); }),
        ("track_abundance", computeparams_track_abundance, computeparams_set_track_abundance, |p| p.track_abundance(), |p, v| { p.set_track_abundance(v); }),
    ];
    let name = &f["computeparams_".len()..];
    let mut res = Cmp::Unknown;
    for (n, get, set, nget, nset) in bools {
        if name == n {
            res = match cls {
                "default" => c(get(cp) == nget(&d)),
                "set" => {
                    let v = r.chance(1, 2);
                    nset(CP::as_rust_mut(cp), v);
                    c(get(cp) == v)
                }
                _ => Cmp::Unknown,
            };
        } else if name.strip_prefix("set_") == Some(n) {
            let v = match cls {
                "valid" => r.chance(1, 2),
                "zero" => false,
                "max" => true,
                _ => return Some(Cmp::Unknown),
            };
            set(cp, v);
            res = c(nget(CP::as_rust(cp)) == v);
        }
    }
    let val = |r: &mut Rng| match cls {
        "valid" => r.bits(64),
        "zero" => 0,
        _ => u64::MAX,
    };
    match name {
        "new" => res = c(!cp.is_null() && CP::as_rust(cp).ksizes() == d.ksizes() && CP::as_rust(cp).seed() == d.seed() && CP::as_rust(cp).scaled() == d.scaled() && CP::as_rust(cp).num_hashes() == d.num_hashes() && CP::as_rust(cp).dna() == d.dna()),
        "free" => {
            if cls == "null" {
                computeparams_free(ptr::null_mut());
            }
            res = Cmp::None
        }
        "num_hashes" | "scaled" | "seed" => {
            if cls == "set" {
                let v = r.bits(64);
                CP::as_rust_mut(cp).set_num_hashes(v as u32);
                CP::as_rust_mut(cp).set_scaled(v);
                CP::as_rust_mut(cp).set_seed(v);
            }
            let n = CP::as_rust(cp);
            res = match name {
                "num_hashes" => c(computeparams_num_hashes(cp) == n.num_hashes()),
                "scaled" => c(computeparams_scaled(cp) == n.scaled()),
                _ => c(computeparams_seed(cp) == n.seed()),
            };
        }
        "set_num_hashes" => {
            let v = val(r) as u32;
            computeparams_set_num_hashes(cp, v);
            res = c(CP::as_rust(cp).num_hashes() == v);
        }
        "set_scaled" => {
            let v = val(r);
            computeparams_set_scaled(cp, v);
            res = c(CP::as_rust(cp).scaled() == v);
        }
        "set_seed" => {
            let v = val(r);
            computeparams_set_seed(cp, v);
            res = c(CP::as_rust(cp).seed() == v);
        }
        "ksizes" | "ksizes_free" => {
            if cls == "empty" {
                CP::as_rust_mut(cp).set_ksizes(vec![]);
            }
            let mut n = 7usize;
            let p = if cls == "null" { ptr::null() } else { computeparams_ksizes(cp, &mut n) };
            if name == "ksizes" {
                let want = CP::as_rust(cp).ksizes().clone();
                let got = std::slice::from_raw_parts(p, n).to_vec();
                res = c(got == want);
                computeparams_ksizes_free(p as *mut u32, n);
            } else {
                computeparams_ksizes_free(p as *mut u32, if p.is_null() { 0 } else { n });
                res = Cmp::None;
            }
        }
        "set_ksizes" => {
            let ks: Vec<u32> = match cls {
                "valid" => (0..r.range(1, 6)).map(|_| r.range(1, 100) as u32).collect(),
                "empty" => vec![],
                "zero_k" => vec![0, 0],
                "len1" => vec![r.range(1, 100) as u32],
                "large" => (0..10_000).map(|_| r.bits(32) as u32).collect(),
                _ => return Some(Cmp::Unknown),
            };
            let p = if ks.is_empty() { dangling::<u32>() } else { ks.as_ptr() };
            computeparams_set_ksizes(cp, p, ks.len());
            res = c(CP::as_rust(cp).ksizes() == &ks);
        }
        _ => {}
    }
    computeparams_free(cp);
    Some(res)
}

// ---- hashing helpers, error channel, strings -------------------------------------------------
/// the documented Dayhoff classes (comment table in encodings.rs); everything else is 'X'
fn dayhoff_ref(aa: u8) -> u8 {
    match aa {
        b'C' => b'a',
        b'A' | b'G' | b'P' | b'S' | b'T' => b'b',
        b'D' | b'E' | b'N' | b'Q' => b'c',
        b'H' | b'K' | b'R' => b'd',
        b'I' | b'L' | b'M' | b'V' => b'e',
        b'F' | b'W' | b'Y' => b'f',
        b'*' => b'*',
        _ => b'X',
    }
}
/// the documented hydrophobic/polar classes
fn hp_ref(aa: u8) -> u8 {
    match aa {
        b'A' | b'F' | b'G' | b'I' | b'L' | b'M' | b'P' | b'V' | b'W' | b'Y' => b'h',
        b'N' | b'C' | b'S' | b'T' | b'D' | b'E' | b'R' | b'H' | b'K' | b'Q' => b'p',
        b'*' => b'*',
        _ => b'X',
    }
}
unsafe fn fail_once() {
    let cdn = cs("ACGTA");
    sourmash_translate_codon(cdn.as_ptr());
}
unsafe fn call_misc(f: &str, cls: &str, r: &mut Rng) -> Option<Cmp> {
    use sourmash::encodings::{aa_to_dayhoff, aa_to_hp, translate_codon};
    Some(match f {
        "hash_murmur" => {
            let k: Vec<u8> = match cls {
                "valid" => dna(r, 21),
                "empty" => vec![],
                "non_acgt" => b"NNNN#xyz".to_vec(),
                "len1" => dna(r, 1),
                "large" => dna(r, 100_000),
                _ if byte_pat(cls).is_some() => splice(dna(r, 21), cls),
                _ if is_long(cls, "") => long_text(cls, &dna(r, 64)),
                _ => return Some(Cmp::Unknown),
            };
            let seed = r.bits(64);
            let ck = csb(&k);
            c(hash_murmur(ck.as_ptr(), seed) == sourmash::_hash_murmur(&k, seed))
        }
        "sourmash_aa_to_dayhoff" | "sourmash_aa_to_hp" => {
            if cls == "all256" {
                // the whole domain of a C `char`, against the native function and the documented classes
                let mut ok = true;
                for b in 0u16..=255 {
                    let aa = b as u8;
                    let (got, want, doc) = if f.ends_with("dayhoff") {
                        (sourmash_aa_to_dayhoff(aa as c_char) as u8, native(|| aa_to_dayhoff(aa)), dayhoff_ref(aa))
                    } else {
                        (sourmash_aa_to_hp(aa as c_char) as u8, native(|| aa_to_hp(aa)), hp_ref(aa))
                    };
                    ok &= want == Some(got) && got == doc;
                }
                return Some(c(ok));
            }
            let aa: u8 = match cls {
                "valid" => *r.pick(b"ACDEFGHIKLMNPQRSTVWY"),
                "unknown" => *r.pick(&[b'#', 0u8, 0x80, 0xff, b'z']),
                "b00" => 0x00,
                "b7f" => 0x7f,
                "b80" => 0x80,
                "bff" => 0xff,
                _ => return Some(Cmp::Unknown),
            };
            if f.ends_with("dayhoff") {
                let want = native(|| aa_to_dayhoff(aa));
                let got = sourmash_aa_to_dayhoff(aa as c_char);
                c(want.map(|w| w as c_char == got).unwrap_or(got == 0))
            } else {
                let want = native(|| aa_to_hp(aa));
                let got = sourmash_aa_to_hp(aa as c_char);
                c(want.map(|w| w as c_char == got).unwrap_or(got == 0))
            }
        }
        "sourmash_translate_codon" => {
            let k: Vec<u8> = match cls {
                "valid" => dna(r, 3),
                "len1" => dna(r, 1),
                "len2" => dna(r, 2),
                "unknown3" => b"N#N".to_vec(),
                "empty" => vec![],
                "len5" => dna(r, 5),
                "hi1" => vec![0x80],
                "hi2" => vec![b'A', 0xff],
                "hi3" => vec![0x80, b'C', 0xff],
                "utf8_3" => vec![b'A', 0xc3, 0xa9],
                "b7f_3" => vec![b'A', 0x7f, b'G'],
                "lower3" => b"acg".to_vec(),
                "hi5" => vec![0x80, 0x81, 0xfe, 0xff, 0xc3],
                "large" => dna(r, 10_000),
                _ if is_long(cls, "") => long_text(cls, &dna(r, 64)),
                _ => return Some(Cmp::Unknown),
            };
            let want = nat_ok(|| translate_codon(&k));
            let ck = csb(&k);
            let got = sourmash_translate_codon(ck.as_ptr());
            c(got == want.map(|w| w as c_char).unwrap_or(0))
        }
        "sourmash_init" => {
            sourmash_init();
            if cls == "twice" {
                sourmash_init();
            }
            Cmp::None
        }
        "sourmash_err_clear" => {
            if cls == "after_error" {
                fail_once();
            }
            sourmash_err_clear();
            Cmp::None
        }
        "sourmash_err_get_last_code" => {
            let want = if cls == "after_error" {
                fail_once();
                SourmashErrorCode::from_error(&SourmashError::InvalidCodonLength { message: "5".into() }) as u32
            } else {
                0
            };
            c(last_code() == want && last_code() == want)
        }
        "sourmash_err_get_last_message" => {
            let want = if cls == "after_error" {
                fail_once();
                SourmashError::InvalidCodonLength { message: "5".into() }.to_string()
            } else {
                String::new()
            };
            let m = sourmash_err_get_last_message();
            let zero_ok = cls == "after_error" || (m.data.is_null() && m.len == 0 && !m.owned);
            c(str_take(m) == want && zero_ok)
        }
        "sourmash_err_get_backtrace" => {
            if cls == "after_error" {
                fail_once();
            }
            c(str_is_zero(sourmash_err_get_backtrace()))
        }
        "sourmash_str_from_cstr" => {
            let b: Vec<u8> = match cls {
                "valid" => dna(r, 12),
                "empty" => vec![],
                "bad_utf8" => vec![0x41, 0xff, 0xfe],
                "len1" => dna(r, 1),
                "large" => dna(r, 100_000),
                "utf8" | "b7f" | "b80" => splice(dna(r, 12), cls),
                _ if is_long(cls, "") => long_text(cls, &dna(r, 64)),
                _ => return Some(Cmp::Unknown),
            };
            let cb = csb(&b);
            let s = sourmash_str_from_cstr(cb.as_ptr());
            let ok = if std::str::from_utf8(&b).is_err() {
                s.data.is_null() && s.len == 0 && !s.owned
            } else {
                s.len == b.len() && s.as_str().as_bytes() == &b[..]
            };
            // marked owned but pointing into the caller's C string: never freed by us
            std::mem::forget(s);
            c(ok)
        }
        "sourmash_str_free" => {
            let (m, _) = mh_pair(DNA21, &[1, 2, 3]);
            match cls {
                "owned" => {
                    let mut s = kmerminhash_md5sum(m);
                    sourmash_str_free(&mut s);
                    std::mem::forget(s);
                }
                "twice" => {
                    let mut s = kmerminhash_md5sum(m);
                    sourmash_str_free(&mut s);
                    sourmash_str_free(&mut s);
                    std::mem::forget(s);
                }
                "borrowed" => {
                    let sg = signature_new();
                    let mut s = signature_get_name(sg);
                    sourmash_str_free(&mut s);
                    std::mem::forget(s);
                    signature_free(sg);
                }
                "null" => sourmash_str_free(ptr::null_mut()),
                _ => return Some(Cmp::Unknown),
            }
            kmerminhash_free(m);
            Cmp::None
        }
        _ => return None,
    })
}

// ---- HyperLogLog -------------------------------------------------------------------------------
/// (through the C API, natively) with the same parameters and hashes; `None` params = default object
unsafe fn hll_pair(e: Option<(f64, usize)>, hs: &[u64]) -> (HLL, HyperLogLog) {
    match e {
        None => (hll_new(), HyperLogLog::default()),
        Some((e, k)) => {
            let h = hll_with_error_rate(e, k);
            let mut n = HyperLogLog::with_error_rate(e, k).unwrap();
            for x in hs {
                hll_add_hash(h, *x);
                n.add_hash(*x);
            }
            (h, n)
        }
    }
}
unsafe fn hll_same(h: *const SourmashHyperLogLog, n: &HyperLogLog) -> bool {
    SourmashHyperLogLog::as_rust(h) == n
}
fn hll_bytes(n: &HyperLogLog) -> Vec<u8> {
    let mut b = vec![];
    n.save_to_writer(&mut b).unwrap();
    b
}
unsafe fn call_hll(f: &str, cls: &str, r: &mut Rng) -> Option<Cmp> {
    if !f.starts_with("hll_") {
        return None;
    }
    let hs = hashes(r, 200);
    let hs2 = hashes(r, 150);
    let e = 0.05;
    let k = 21usize;
    Some(match f {
        "hll_new" => {
            let h = hll_new();
            let ok = !h.is_null() && hll_same(h, &HyperLogLog::default());
            hll_free(h);
            c(ok)
        }
        "hll_free" => {
            match cls {
                "valid" => hll_free(hll_pair(Some((e, k)), &hs).0),
                "default" => hll_free(hll_new()),
                "null" => hll_free(ptr::null_mut()),
                _ => return Some(Cmp::Unknown),
            }
            Cmp::None
        }
        "hll_with_error_rate" => {
            let er = match cls {
                "valid" => 0.003 + (r.below(1000) as f64) * 0.0003,
                "zero" => 0.0,
                "negative" => -0.5,
                "nan" => f64::NAN,
                "too_large" => 0.9,
                "too_small" => 1e-9,
                "inf" => f64::INFINITY,
                "k0" | "k1" | "k_max" => 0.05,
                _ => return Some(Cmp::Unknown),
            };
            let (er, k) = match cls {
                "k0" => (0.05, 0usize),
                "k1" => (0.05, 1),
                "k_max" => (0.05, usize::MAX),
                _ => (er, k),
            };
            let want = nat_ok(|| HyperLogLog::with_error_rate(er, k));
            let h = hll_with_error_rate(er, k);
            let ok = match &want {
                Some(n) => !h.is_null() && hll_same(h, n),
                None => h.is_null(),
            };
            hll_free(h);
            c(ok)
        }
        "hll_ksize" => {
            let (h, n) = hll_pair(if cls == "default" { None } else { Some((e, r.range(1, 60) as usize)) }, &hs);
            let ok = hll_ksize(h) == n.ksize();
            hll_free(h);
            c(ok)
        }
        "hll_cardinality" => {
            let (h, n) = match cls {
                "valid" => hll_pair(Some((e, k)), &hs),
                "empty" => hll_pair(Some((e, k)), &[]),
                "p4" => hll_pair(Some((0.3, k)), &hs),
                "p18" => hll_pair(Some((0.0021, k)), &hs),
                "default" => hll_pair(None, &[]),
                _ => return Some(Cmp::Unknown),
            };
            let want = native(|| n.cardinality());
            let got = hll_cardinality(h);
            hll_free(h);
            c(got == want.unwrap_or(0))
        }
        "hll_similarity" | "hll_containment" | "hll_intersection_size" => {
            let ((a, na), (b, nb)) = match cls {
                "valid" => (hll_pair(Some((e, k)), &hs), hll_pair(Some((e, k)), &hs2)),
                "empty" => (hll_pair(Some((e, k)), &[]), hll_pair(Some((e, k)), &[])),
                "self" => (hll_pair(Some((e, k)), &hs), hll_pair(Some((e, k)), &hs)),
                "mismatch_p" => (hll_pair(Some((e, k)), &hs), hll_pair(Some((0.01, k)), &hs2)),
                "mismatch_p4" => (hll_pair(Some((0.3, k)), &hs), hll_pair(Some((0.01, k)), &hs2)),
                "mismatch_ksize" => (hll_pair(Some((e, k)), &hs), hll_pair(Some((e, 31)), &hs2)),
                "default" => (hll_pair(None, &[]), hll_pair(None, &[])),
                _ => return Some(Cmp::Unknown),
            };
            let ok = match f {
                "hll_similarity" => {
                    let want = native(|| na.similarity(&nb));
                    bits(hll_similarity(a, b)) == bits(want.unwrap_or(0.0))
                }
                "hll_containment" => {
                    let want = native(|| na.containment(&nb));
                    bits(hll_containment(a, b)) == bits(want.unwrap_or(0.0))
                }
                _ => {
                    let want = native(|| na.intersection(&nb));
                    hll_intersection_size(a, b) == want.unwrap_or(0)
                }
            };
            hll_free(a);
            hll_free(b);
            c(ok)
        }
        "hll_add_sequence" => {
            let (h, mut n) = hll_pair(if cls == "default" { None } else if cls == "k1" { Some((e, 1)) } else { Some((e, k)) }, &[]);
            let (s, force): (Vec<u8>, bool) = match cls {
                "valid" | "default" | "k1" => (dna(r, 120), false),
                "len1" => (dna(r, 1), false),
                "len_k" => (dna(r, k), false),
                "large" => (dna(r, 200_000), false),
                "lowercase" => (dna(r, 120).to_ascii_lowercase(), false),
                _ if byte_pat(cls).is_some() => (splice(dna(r, 120), cls), cls.ends_with("_force")),
                _ if is_long(cls, "") => (long_text(cls, &dna(r, 1000)), false),
                "invalid" | "invalid_force" => {
                    let mut s = dna(r, 120);
                    s[60] = b'N';
                    (s, cls == "invalid_force")
                }
                "empty" => (vec![], false),
                "short" => (dna(r, 5), false),
                _ => return Some(Cmp::Unknown),
            };
            let nat = native(|| {
                let _ = n.add_sequence(&s, force);
                n
            });
            let p = if s.is_empty() { dangling::<c_char>() } else { s.as_ptr() as *const c_char };
            hll_add_sequence(h, p, s.len(), force);
            let ok = nat.map(|n| hll_same(h, &n)).unwrap_or(true);
            hll_free(h);
            c(ok)
        }
        "hll_add_hash" => {
            let (h, mut n) = hll_pair(if cls == "default" { None } else { Some((e, k)) }, &hs);
            let x = match cls {
                "zero" => 0,
                "max" => u64::MAX,
                _ => r.bits(64),
            };
            let nat = native(|| {
                n.add_hash(x);
                n
            });
            hll_add_hash(h, x);
            let ok = nat.map(|n| hll_same(h, &n)).unwrap_or(true);
            hll_free(h);
            c(ok)
        }
        "hll_merge" => {
            let ((a, mut na), (b, nb)) = match cls {
                "valid" => (hll_pair(Some((e, k)), &hs), hll_pair(Some((e, k)), &hs2)),
                "mismatch_ksize" => (hll_pair(Some((e, k)), &hs), hll_pair(Some((e, 31)), &hs2)),
                "mismatch_p" => (hll_pair(Some((e, k)), &hs), hll_pair(Some((0.01, k)), &hs2)),
                "default" => (hll_pair(None, &[]), hll_pair(None, &[])),
                _ => return Some(Cmp::Unknown),
            };
            let nat = native(|| {
                let _ = na.merge(&nb);
                na
            });
            hll_merge(a, b);
            let ok = nat.map(|n| hll_same(a, &n)).unwrap_or(true);
            hll_free(a);
            hll_free(b);
            c(ok)
        }
        "hll_update_mh" | "hll_matches" => {
            let dflt = cls.starts_with("default");
            let (h, mut n) = hll_pair(if dflt { None } else if cls == "p4" { Some((0.3, k)) } else { Some((e, k)) }, &hs);
            let (m, nm) = mh_pair(DNA21, if cls.ends_with("empty_mh") { &[] } else { &hs2 });
            let ok = if f == "hll_update_mh" {
                let nat = native(|| {
                    let _ = nm.update(&mut n);
                    n
                });
                hll_update_mh(h, m);
                nat.map(|n| hll_same(h, &n)).unwrap_or(true)
            } else {
                let want = native(|| n.intersection(&nm.as_hll()));
                hll_matches(h, m) == want.unwrap_or(0)
            };
            hll_free(h);
            kmerminhash_free(m);
            c(ok)
        }
        "hll_from_path" | "hll_from_buffer" => {
            let (h0, n) = hll_pair(Some((e, k)), &hs);
            hll_free(h0);
            let raw = hll_bytes(&n);
            let td = tmpdir();
            let h = if f == "hll_from_path" {
                let mut p = td.path().join("x.hll").into_os_string().into_encoded_bytes();
                match cls {
                    "valid" => std::fs::write(td.path().join("x.hll"), &raw).unwrap(),
                    "missing" => {}
                    "garbage" => std::fs::write(td.path().join("x.hll"), b"this is not a hyperloglog file at all, sorry").unwrap(),
                    "directory" => p = td.path().as_os_str().as_encoded_bytes().to_vec(),
                    "bad_utf8" => p.extend_from_slice(&[0xff, 0xfe]),
                    "utf8" | "b7f" => {
                        // a valid file under a name with a non-ASCII / DEL character
                        p = td.path().join(if cls == "utf8" { "x\u{e9}\u{4e2d}.hll" } else { "x\u{7f}.hll" }).into_os_string().into_encoded_bytes();
                        std::fs::write(std::str::from_utf8(&p).unwrap(), &raw).unwrap()
                    }
                    _ if is_long(cls, "") || is_long(cls, "missing_") => {
                        // a valid file at the end of a long path / the same path with nothing there
                        let q = long_path(td.path(), cls, ".hll");
                        if is_long(cls, "") {
                            std::fs::write(&q, &raw).unwrap();
                        }
                        p = q.into_os_string().into_encoded_bytes();
                    }
                    _ => return Some(Cmp::Unknown),
                }
                let cp = csb(&p);
                hll_from_path(cp.as_ptr())
            } else {
                let b: Vec<u8> = match cls {
                    "valid" => raw.clone(),
                    "gz" => {
                        let (h1, _) = hll_pair(Some((e, k)), &hs);
                        let mut sz = 0usize;
                        let p = hll_to_buffer(h1, &mut sz);
                        hll_free(h1);
                        take_slice(p, sz)
                    }
                    "empty" => vec![],
                    "garbage" => b"this is not a hyperloglog file at all, sorry".to_vec(),
                    "truncated" => raw[..raw.len() / 2].to_vec(),
                    "hi_bytes" => (0x80u8..=0xff).cycle().take(300).collect(),
                    "nul_bytes" => vec![0u8; 300],
                    "len1" => vec![b'H'],
                    "len1_hi" => vec![0xff],
                    // text where a serialized sketch is expected
                    _ if is_long(cls, "") => long_text(cls, b"HLL"),
                    _ => return Some(Cmp::Unknown),
                };
                let p = if b.is_empty() { dangling::<c_char>() } else { b.as_ptr() as *const c_char };
                hll_from_buffer(p, b.len())
            };
            let good = ["valid", "gz", "utf8", "b7f"].contains(&cls) || (f == "hll_from_path" && is_long(cls, ""));
            let ok = if good { !h.is_null() && hll_same(h, &n) } else { h.is_null() };
            hll_free(h);
            c(ok)
        }
        "hll_save" | "hll_to_buffer" => {
            let (h, n) = hll_pair(if cls == "default" { None } else { Some((e, k)) }, &hs);
            let td = tmpdir();
            let ok = if f == "hll_save" {
                let path = match cls {
                    "missing_dir" => td.path().join("no/such/dir/x.hll"),
                    "utf8" => td.path().join("x\u{e9}\u{4e2d}.hll"),
                    "b7f" => td.path().join("x\u{7f}.hll"),
                    _ if is_long(cls, "") => long_path(td.path(), cls, ".hll"),
                    _ => td.path().join("x.hll"),
                };
                let mut pb = path.clone().into_os_string().into_encoded_bytes();
                if cls == "bad_utf8" {
                    pb.extend_from_slice(&[0xff, 0xfe]);
                }
                let cp = csb(&pb);
                hll_save(h, cp.as_ptr());
                if cls == "missing_dir" || cls == "bad_utf8" {
                    !path.exists() && std::fs::read_dir(td.path()).unwrap().count() == 0
                } else {
                    std::fs::read(&path).ok() == Some(hll_bytes(&n))
                }
            } else {
                let mut sz = 0usize;
                let p = hll_to_buffer(h, &mut sz);
                let b = take_slice(p, sz);
                !p.is_null() && HyperLogLog::from_reader(&b[..]).ok() == HyperLogLog::from_reader(&hll_bytes(&n)[..]).ok()
            };
            hll_free(h);
            c(ok)
        }
        _ => return Some(Cmp::Unknown),
    })
}

// ---- KmerMinHash, one operand ------------------------------------------------------------------
fn param_class(cls: &str, r: &mut Rng) -> P {
    let a = DNA21;
    match cls {
        "protein" => P { hf: 2, ..a },
        "dayhoff" => P { hf: 3, ..a },
        "hp" => P { hf: 4, ..a },
        "num" => P { scaled: 0, num: r.range(1, 1000) as u32, ..a },
        "abund" => P { track: true, ..a },
        "scaled" => P { scaled: r.range(2, 100_000), ..a },
        "zero_zero" => P { scaled: 0, num: 0, ..a },
        "k0" => P { k: 0, ..a },
        "scaled_max" => P { scaled: u64::MAX, ..a },
        "k1" => P { k: 1, ..a },
        "k2" => P { k: 2, ..a },
        "num_and_scaled" => P { scaled: r.range(2, 1000), num: r.range(1, 1000) as u32, ..a },
        "num_large" => P { scaled: 0, num: 1_000_000, ..a },
        _ => a,
    }
}
unsafe fn call_mh(f: &str, cls: &str, r: &mut Rng) -> Option<Cmp> {
    if !f.starts_with("kmerminhash_") {
        return None;
    }
    let a = DNA21;
    let hs = hashes(r, 40);
    let name = &f["kmerminhash_".len()..];
    // getters over the parameter classes
    let getters = ["is_protein", "dayhoff", "hp", "seed", "track_abundance", "num", "ksize", "max_hash", "hash_function"];
    if getters.contains(&name) {
        let p = P { seed: r.bits(64), k: r.range(1, 90) as u32, ..param_class(cls, r) };
        let (m, n) = mh_pair(p, &hs);
        let ok = match name {
            "is_protein" => kmerminhash_is_protein(m) == n.is_protein(),
            "dayhoff" => kmerminhash_dayhoff(m) == n.dayhoff(),
            "hp" => kmerminhash_hp(m) == n.hp(),
            "seed" => kmerminhash_seed(m) == n.seed(),
            "track_abundance" => kmerminhash_track_abundance(m) == n.track_abundance(),
            "num" => kmerminhash_num(m) == n.num(),
            "ksize" => kmerminhash_ksize(m) as usize == n.ksize(),
            "max_hash" => kmerminhash_max_hash(m) == n.max_hash(),
            _ => kmerminhash_hash_function(m) as u32 == p.hf,
        };
        kmerminhash_free(m);
        return Some(c(ok));
    }
    Some(match name {
        "new" => {
            let p = param_class(cls, r);
            let m = mh_new(p);
            let ok = !m.is_null() && mh_eq(m, &mh_native(p));
            kmerminhash_free(m);
            c(ok)
        }
        "free" => {
            match cls {
                "valid" => kmerminhash_free(mh_pair(a, &hs).0),
                "null" => kmerminhash_free(ptr::null_mut()),
                _ => return Some(Cmp::Unknown),
            }
            Cmp::None
        }
        "slice_free" => {
            let (m, _) = mh_pair(a, if cls == "empty" { &[] } else { &hs });
            let mut n = 0usize;
            let p = if cls == "null" { ptr::null() } else { kmerminhash_get_mins(m, &mut n) };
            kmerminhash_slice_free(p as *mut u64, n);
            kmerminhash_free(m);
            Cmp::None
        }
        "add_sequence" => {
            let p = match cls {
                "protein_mh" => P { hf: 2, ..a },
                "k0" | "k1" | "k2" | "zero_zero" | "abund" => param_class(cls, r),
                "num" => P { scaled: 0, num: 20, ..a },
                _ => a,
            };
            let (m, mut n) = mh_pair(p, &[]);
            let (s, force): (Vec<u8>, bool) = match cls {
                "valid" | "protein_mh" | "k0" | "k1" | "k2" | "zero_zero" | "num" | "abund" => (dna(r, 150), false),
                "len1" => (dna(r, 1), false),
                "len_k" => (dna(r, 21), false),
                "large" => (dna(r, 20_000), false),
                "lowercase" => (dna(r, 150).to_ascii_lowercase(), false),
                _ if byte_pat(cls).is_some() => (splice(dna(r, 150), cls), cls.ends_with("_force")),
                _ if is_long(cls, "") => (long_text(cls, &dna(r, 1000)), false),
                "invalid" | "invalid_force" => {
                    let mut s = dna(r, 150);
                    s[75] = b'N';
                    (s, cls == "invalid_force")
                }
                "empty" => (vec![], false),
                "short" => (dna(r, 7), false),
                _ => return Some(Cmp::Unknown),
            };
            let nat = native(|| {
                let _ = n.add_sequence(&s, force);
                n
            });
            let cseq = csb(&s);
            kmerminhash_add_sequence(m, cseq.as_ptr(), force);
            let ok = nat.map(|n| mh_eq(m, &n)).unwrap_or(true);
            kmerminhash_free(m);
            c(ok)
        }
        "add_protein" => {
            let p = match cls {
                "dna_mh" => a,
                "dayhoff" => P { hf: 3, ..a },
                "hp" => P { hf: 4, ..a },
                "k1" => P { hf: 2, k: 1, ..a },
                "k3" => P { hf: 2, k: 3, ..a },
                "k20" => P { hf: 2, k: 20, ..a },
                "dayhoff_k20" => P { hf: 3, k: 20, ..a },
                "hp_k1" => P { hf: 4, k: 1, ..a },
                "zero_zero" => P { hf: 2, scaled: 0, num: 0, ..a },
                _ if cls.starts_with("dayhoff_") => P { hf: 3, ..a },
                _ if cls.starts_with("hp_") => P { hf: 4, ..a },
                _ => P { hf: 2, ..a },
            };
            let (m, mut n) = mh_pair(p, &[]);
            let s: Vec<u8> = match cls {
                "valid" | "dna_mh" | "dayhoff" | "hp" | "k1" | "k3" | "k20" | "dayhoff_k20" | "hp_k1" | "zero_zero" => prot(r, 60),
                "len_k" => prot(r, 7),
                "len_k_minus_1" => prot(r, 6),
                "large" => prot(r, 20_000),
                "lowercase" => prot(r, 60).to_ascii_lowercase(),
                "stop" => splice(prot(r, 60), "x").iter().enumerate().map(|(i, b)| if i % 9 == 4 { b'*' } else { *b }).collect(),
                _ if byte_pat(cls).is_some() => splice(prot(r, 60), cls),
                _ if is_long(cls, "") => long_text(cls, &prot(r, 1000)),
                "short" => prot(r, 3),
                "empty" => vec![],
                "non_aa" => b"ZZZZ####1234zzzzBBBBJJJJOOOOUUUU".to_vec(),
                _ => return Some(Cmp::Unknown),
            };
            let nat = native(|| {
                let _ = n.add_protein(&s);
                n
            });
            let cseq = csb(&s);
            kmerminhash_add_protein(m, cseq.as_ptr());
            let ok = nat.map(|n| mh_eq(m, &n)).unwrap_or(true);
            kmerminhash_free(m);
            c(ok)
        }
        "seq_to_hashes" => {
            let p = match cls {
                "protein" | "protein_short" | "protein_k_third" | "translated_short" | "protein_len1" | "translated_large" => P { hf: 2, ..a },
                "dayhoff_short" => P { hf: 3, ..a },
                "k0" => P { k: 0, ..a },
                "k1" => P { k: 1, ..a },
                "protein_k1" => P { hf: 2, k: 1, ..a },
                "protein_k20" => P { hf: 2, k: 20, ..a },
                _ if cls.starts_with("protein_") || cls.starts_with("translated_") => P { hf: 2, ..a },
                _ if cls.starts_with("dayhoff_") => P { hf: 3, ..a },
                _ if cls.starts_with("hp_") => P { hf: 4, ..a },
                _ => a,
            };
            let (m, n) = mh_pair(p, &[]);
            let (s, force, zeroes, is_prot): (Vec<u8>, bool, bool, bool) = match cls {
                "len1" => (dna(r, 1), false, false, false),
                "large" => (dna(r, 100_000), false, false, false),
                "k1" => (dna(r, 100), false, false, false),
                "protein_k1" | "protein_k20" => (prot(r, 40), false, false, true),
                "protein_len1" => (prot(r, 1), false, false, true),
                "translated_large" => (dna(r, 60_000), false, false, false),
                // non-ASCII / NUL / DEL bytes: in DNA (checked, forced), in DNA that is translated, in residues
                _ if byte_pat(cls).is_some() && cls.starts_with("translated_") => (splice(dna(r, 100), cls), cls.ends_with("_force"), false, false),
                _ if byte_pat(cls).is_some() && (cls.starts_with("protein_") || cls.starts_with("dayhoff_") || cls.starts_with("hp_")) => {
                    (splice(prot(r, 40), cls), false, false, true)
                }
                _ if byte_pat(cls).is_some() => (splice(dna(r, 100), cls), cls.ends_with("_force"), false, false),
                _ if is_long(cls, "") => (long_text(cls, &dna(r, 1000)), false, false, false),
                // boundary sizes around the k-mer length (21 bases / 7 residues)
                "k_minus_1" => (dna(r, 20), false, false, false),
                "exactly_k" => (dna(r, 21), false, false, false),
                "protein_short" | "dayhoff_short" => {
                    let n = r.range(7, 20) as usize;
                    (prot(r, n), false, false, true)
                }
                "protein_k_third" => (prot(r, 7), false, false, true),
                "translated_short" => {
                    let n = r.range(0, 20) as usize;
                    (dna(r, n), false, false, false)
                }
                "valid" | "k0" => (dna(r, 100), false, false, false),
                "invalid" | "invalid_force" | "force_zeroes" => {
                    let mut s = dna(r, 100);
                    s[50] = b'N';
                    (s, cls != "invalid", cls == "force_zeroes", false)
                }
                "empty" => (vec![], false, false, false),
                "protein" => (prot(r, 40), false, false, true),
                "short" => (dna(r, 4), false, false, false),
                _ => return Some(Cmp::Unknown),
            };
            let want = nat_ok(|| {
                let mut out = vec![];
                for h in sourmash::signature::SeqToHashes::new(&s, n.ksize(), force, is_prot, n.hash_function(), n.seed()) {
                    match h {
                        Ok(0) if !(force && zeroes) => continue,
                        Ok(x) => out.push(x),
                        Err(e) => return Err(e),
                    }
                }
                Ok(out)
            });
            let ptr_s = if s.is_empty() { dangling::<c_char>() } else { s.as_ptr() as *const c_char };
            let mut sz = 0usize;
            let q = kmerminhash_seq_to_hashes(m, ptr_s, s.len(), force, zeroes, is_prot, &mut sz);
            let ok = match want {
                Some(w) => !q.is_null() && take_slice(q, sz) == w,
                None => q.is_null(),
            };
            kmerminhash_free(m);
            c(ok)
        }
        "clear" => {
            let (m, mut n) = mh_pair(if cls == "abund" { P { track: true, ..a } } else { a }, if cls == "empty" { &[] } else { &hs });
            n.md5sum();
            kmerminhash_md5sum(m);
            n.clear();
            kmerminhash_clear(m);
            let ok = mh_eq(m, &n) && str_take(kmerminhash_md5sum(m)) == n.md5sum();
            kmerminhash_free(m);
            c(ok)
        }
        "add_hash" => {
            let p = match cls {
                "above_max_hash" => P { scaled: 1 << 32, ..a },
                "num_full" => P { scaled: 0, num: 3, ..a },
                "abund" | "abund_overflow" => P { track: true, ..a },
                "zero_zero" => P { scaled: 0, num: 0, ..a },
                _ => a,
            };
            let (m, mut n) = mh_pair(p, &hs[..5]);
            let x = match cls {
                "zero" => 0,
                "max" | "above_max_hash" => u64::MAX,
                "abund_overflow" => 77,
                _ => r.bits(64),
            };
            if cls == "abund_overflow" {
                // the hash is already present with the largest abundance
                kmerminhash_add_hash_with_abundance(m, x, u64::MAX);
                n.add_hash_with_abundance(x, u64::MAX);
            }
            let nat = native(|| {
                n.add_hash(x);
                n
            });
            kmerminhash_add_hash(m, x);
            let ok = nat.map(|n| mh_eq(m, &n)).unwrap_or(true);
            kmerminhash_free(m);
            c(ok)
        }
        "add_hash_with_abundance" => {
            let p = if cls == "no_track" { a } else { P { track: true, ..a } };
            let (m, mut n) = mh_pair(p, &hs[..5]);
            let (x, ab) = match cls {
                "valid" => (r.bits(64), r.range(1, 1000)),
                "zero_abund" => (hs[2], 0),
                "max_abund" => (hs[2], u64::MAX),
                "no_track" => (r.bits(64), 5),
                "repeat" => (hs[1], 7),
                _ => return Some(Cmp::Unknown),
            };
            let nat = native(|| {
                n.add_hash_with_abundance(x, ab);
                n
            });
            kmerminhash_add_hash_with_abundance(m, x, ab);
            let ok = nat.map(|n| mh_eq(m, &n)).unwrap_or(true);
            kmerminhash_free(m);
            c(ok)
        }
        "add_word" => {
            let (m, mut n) = mh_pair(if cls == "abund_overflow" { P { track: true, ..a } } else if cls == "zero_zero" { P { scaled: 0, num: 0, ..a } } else { a }, &hs[..5]);
            let w: Vec<u8> = match cls {
                "valid" | "abund_overflow" | "zero_zero" => dna(r, 21),
                "len1" => dna(r, 1),
                "large" => dna(r, 100_000),
                _ if byte_pat(cls).is_some() => splice(dna(r, 21), cls),
                _ if is_long(cls, "") => long_text(cls, &dna(r, 64)),
                "empty" => vec![],
                "non_acgt" => b"NNNN#xyz".to_vec(),
                _ => return Some(Cmp::Unknown),
            };
            if cls == "abund_overflow" {
                let h = sourmash::_hash_murmur(&w, a.seed);
                kmerminhash_add_hash_with_abundance(m, h, u64::MAX);
                n.add_hash_with_abundance(h, u64::MAX);
            }
            let nat = native(|| {
                n.add_word(&w);
                n
            });
            let cw = csb(&w);
            kmerminhash_add_word(m, cw.as_ptr());
            let ok = nat.map(|n| mh_eq(m, &n)).unwrap_or(true);
            kmerminhash_free(m);
            c(ok)
        }
        "remove_hash" | "remove_many" => {
            let p = if cls == "abund" { P { track: true, ..a } } else { a };
            let (m, mut n) = mh_pair(p, if cls == "empty" { &[] } else { &hs });
            let xs: Vec<u64> = match cls {
                "present" | "abund" | "valid" => vec![hs[3], hs[0], hs[hs.len() - 1]],
                "absent" | "empty" => vec![hs[3] ^ 1, 0, u64::MAX],
                "empty_list" => vec![],
                "len1" => vec![hs[7]],
                "large" => {
                    let mut v = hashes(r, 100_000);
                    v.extend_from_slice(&hs[..20]);
                    v
                }
                _ => return Some(Cmp::Unknown),
            };
            if name == "remove_hash" {
                for x in &xs[..1] {
                    n.remove_hash(*x);
                    kmerminhash_remove_hash(m, *x);
                }
            } else {
                let _ = n.remove_many(xs.iter().copied());
                let p = if xs.is_empty() { dangling::<u64>() } else { xs.as_ptr() };
                kmerminhash_remove_many(m, p, xs.len());
            }
            let ok = mh_eq(m, &n);
            kmerminhash_free(m);
            c(ok)
        }
        "get_mins" | "get_mins_size" | "md5sum" => {
            let many = if cls == "large" { hashes(r, 100_000) } else { vec![] };
            let (m, n) = mh_pair(
                if cls == "zero_zero" { P { scaled: 0, num: 0, ..a } } else { a },
                if cls == "empty" { &[] } else if cls == "large" { &many } else { &hs },
            );
            let ok = match name {
                "get_mins" => {
                    let mut sz = 0usize;
                    let p = kmerminhash_get_mins(m, &mut sz);
                    !p.is_null() && take_slice(p, sz) == n.mins()
                }
                "get_mins_size" => kmerminhash_get_mins_size(m) == n.size(),
                _ => str_take(kmerminhash_md5sum(m)) == n.md5sum(),
            };
            kmerminhash_free(m);
            c(ok)
        }
        "get_abunds" => {
            let p = if cls == "no_track" { a } else { P { track: true, ..a } };
            let (m, n) = mh_pair(p, if cls == "empty" { &[] } else { &hs });
            let mut sz = 0usize;
            let q = kmerminhash_get_abunds(m, &mut sz);
            let ok = match n.abunds() {
                Some(w) => !q.is_null() && take_slice(q, sz) == w,
                None => q.is_null(),
            };
            kmerminhash_free(m);
            c(ok)
        }
        "add_many" => {
            let (m, mut n) = mh_pair(if cls == "zero_zero" { P { scaled: 0, num: 0, ..a } } else { a }, &hs[..5]);
            let xs: Vec<u64> = match cls {
                "valid" | "zero_zero" => hashes(r, 30),
                "len1" => vec![r.bits(64)],
                "large" => hashes(r, 100_000),
                "empty_list" => vec![],
                "dups" => vec![hs[1], hs[1], 9, 9, 9, hs[2]],
                _ => return Some(Cmp::Unknown),
            };
            let _ = n.add_many(&xs);
            let p = if xs.is_empty() { dangling::<u64>() } else { xs.as_ptr() };
            kmerminhash_add_many(m, p, xs.len());
            let ok = mh_eq(m, &n);
            kmerminhash_free(m);
            c(ok)
        }
        "set_abundances" => {
            let p = if cls == "no_track" { a } else { P { track: true, ..a } };
            let (m, mut n) = mh_pair(p, &hs[..5]);
            let xs: Vec<u64> = match cls {
                "empty_list" => vec![],
                "len1" => vec![r.bits(64).max(1)],
                "large" => hashes(r, 100_000),
                _ => hashes(r, 20),
            };
            let abs: Vec<u64> = xs.iter().map(|_| if cls == "zero_abund" { 0 } else { r.range(1, 50) }).collect();
            let clear = cls == "clear";
            let nat = native(|| {
                let mut pairs: Vec<(u64, u64)> = xs.iter().cloned().zip(abs.iter().cloned()).collect();
                pairs.sort_unstable();
                if clear {
                    n.clear();
                }
                let _ = n.add_many_with_abund(&pairs);
                n
            });
            let (px, pa) = if xs.is_empty() { (dangling::<u64>(), dangling::<u64>()) } else { (xs.as_ptr(), abs.as_ptr()) };
            kmerminhash_set_abundances(m, px, pa, xs.len(), clear);
            let ok = nat.map(|n| mh_eq(m, &n)).unwrap_or(true);
            kmerminhash_free(m);
            c(ok)
        }
        "disable_abundance" => {
            let (m, mut n) = mh_pair(if cls == "abund" { P { track: true, ..a } } else { a }, &hs);
            n.disable_abundance();
            kmerminhash_disable_abundance(m);
            let ok = mh_eq(m, &n);
            kmerminhash_free(m);
            c(ok)
        }
        "enable_abundance" => {
            let (m, mut n) = mh_pair(if cls == "already" { P { track: true, ..a } } else { a }, if cls == "nonempty" { &hs } else { &[] });
            let _ = n.enable_abundance();
            kmerminhash_enable_abundance(m);
            let ok = mh_eq(m, &n);
            kmerminhash_free(m);
            c(ok)
        }
        "hash_function_set" => {
            let (m, mut n) = mh_pair(a, if cls == "empty" { &[] } else { &hs });
            let to = if cls == "same" { 1 } else { 2 };
            let _ = n.set_hash_function(nhf(to));
            kmerminhash_hash_function_set(m, hf(to));
            let ok = mh_eq(m, &n);
            kmerminhash_free(m);
            c(ok)
        }
        _ => return None,
    })
}

// ---- KmerMinHash, two operands -----------------------------------------------------------------
unsafe fn call_mh_bin(f: &str, cls: &str, r: &mut Rng) -> Option<Cmp> {
    if !f.starts_with("kmerminhash_") {
        return None;
    }
    let name = &f["kmerminhash_".len()..];
    let (pa, pb) = bin_params(cls);
    let mut ha = hashes(r, 40);
    let mut hb = hashes(r, 30);
    hb.extend_from_slice(&ha[..10]);
    if cls == "empty" {
        ha.clear();
        hb.clear();
    }
    let (x, mut nx) = mh_pair(pa, &ha);
    let (y, mut ny) = mh_pair(pb, &hb);
    if cls == "abund_overflow" {
        for (m, n) in [(x, &mut nx), (y, &mut ny)] {
            for h in &ha[..3] {
                kmerminhash_add_hash_with_abundance(m, *h, 1 << 33);
                n.add_hash_with_abundance(*h, 1 << 33);
            }
        }
    }
    let down = cls.starts_with("downsample");
    let ok = match name {
        "merge" | "add_from" | "remove_from" => {
            let nat = native(|| {
                let _ = match name {
                    "merge" => nx.merge(&ny),
                    "add_from" => nx.add_from(&ny),
                    _ => nx.remove_from(&ny),
                };
                nx
            });
            match name {
                "merge" => kmerminhash_merge(x, y),
                "add_from" => kmerminhash_add_from(x, y),
                _ => kmerminhash_remove_from(x, y),
            };
            nat.map(|n| mh_eq(x, &n)).unwrap_or(true)
        }
        "is_compatible" => kmerminhash_is_compatible(x, y) == nx.check_compatible(&ny).is_ok(),
        "intersection" => {
            let want = nat_ok(|| {
                let isect = nx.intersection(&ny)?;
                let mut n = nx.clone();
                n.clear();
                n.add_many(&isect.0)?;
                Ok(n)
            });
            let m = kmerminhash_intersection(x, y);
            let ok = match want {
                Some(w) => !m.is_null() && mh_eq(m, &w),
                None => m.is_null(),
            };
            kmerminhash_free(m);
            ok
        }
        "intersection_union_size" => {
            let want = nat_ok(|| nx.intersection_size(&ny)).unwrap_or((0, 0));
            let mut u = 99u64;
            let got = kmerminhash_intersection_union_size(x, y, &mut u);
            (got, u) == want
        }
        "jaccard" => {
            let want = nat_ok(|| nx.jaccard(&ny)).unwrap_or(0.0);
            bits(kmerminhash_jaccard(x, y)) == bits(want)
        }
        "angular_similarity" => {
            let want = nat_ok(|| nx.angular_similarity(&ny)).unwrap_or(0.0);
            bits(kmerminhash_angular_similarity(x, y)) == bits(want)
        }
        "count_common" => {
            let want = nat_ok(|| nx.count_common(&ny, down)).unwrap_or(0);
            kmerminhash_count_common(x, y, down) == want
        }
        "similarity" => {
            let ign = cls == "ignore_abund";
            let want = nat_ok(|| nx.similarity(&ny, ign, down)).unwrap_or(0.0);
            bits(kmerminhash_similarity(x, y, ign, down)) == bits(want)
        }
        _ => {
            kmerminhash_free(x);
            kmerminhash_free(y);
            return None;
        }
    };
    kmerminhash_free(x);
    kmerminhash_free(y);
    Some(c(ok))
}

// ---- loaded objects: sketches that came out of an accepted-but-unusual serialized document ------------------
/// Documents `signatures_load_buffer` ACCEPTS although no writer produces them.  The sketch objects they
/// yield are then handed to every export that takes a sketch handle.
///   plain            sorted mins, as many abundances (control)
///   shortab          sorted mins, FEWER abundances (1 .. n-1)          shortab0  sorted mins, `"abundances":[]`
///   longab           sorted mins, MORE abundances
///   unsorted         mins out of order, as many abundances             unsortedshortab  out of order and fewer abundances
///   dups / dupsnoab  repeated mins (sorted with abundances / out of order without)
///   noab             mins out of order, no abundances field
///   emptymins        `"mins":[]` next to three abundances
///   numandmax        num = 5 AND max_hash set (more than 5 mins)      numover  num = 3 with more than 3 mins
///   abovemax         max_hash = 1000 with mins up to u64::MAX          hugeab   abundances at and just below u64::MAX
///   bogusmd5         plain, the md5sum field is not an md5                numhuge  num = u32::MAX, max_hash 0
const LOADED_DOCS: &[&str] = &[
    "plain", "shortab", "shortab0", "longab", "unsorted", "unsortedshortab", "dups", "dupsnoab", "noab", "emptymins", "numandmax", "numover",
    "abovemax", "hugeab", "bogusmd5", "numhuge",
];
/// exports taking ONE sketch handle and a hash: variants `first` / `last` (a late position) / `absent`
const LOADED_HASH_FNS: &[&str] = &["kmerminhash_add_hash", "kmerminhash_add_hash_with_abundance", "kmerminhash_remove_hash"];
/// exports taking the sketch handle only (or the handle and fixed extra arguments)
const LOADED_UNARY_FNS: &[&str] = &[
    "kmerminhash_add_many", "kmerminhash_remove_many", "kmerminhash_set_abundances", "kmerminhash_add_word", "kmerminhash_add_sequence",
    "kmerminhash_clear", "kmerminhash_md5sum", "kmerminhash_get_mins", "kmerminhash_get_mins_size", "kmerminhash_get_abunds",
    "kmerminhash_num", "kmerminhash_max_hash", "kmerminhash_track_abundance", "kmerminhash_enable_abundance", "kmerminhash_disable_abundance",
    "kmerminhash_hash_function_set", "hll_update_mh", "hll_matches", "nodegraph_update_mh", "nodegraph_matches", "signature_first_mh",
    "signature_get_mhs", "signature_push_mh", "signature_set_mh", "signature_save_json", "signatures_save_buffer", "signature_eq", "signature_len",
];
/// exports taking two sketch handles: variants `self` (a second copy of the same loaded object) / `other`
/// (a well-formed loaded sketch with the same header that shares the first and the last hash)
const LOADED_BIN_FNS: &[&str] = &[
    "kmerminhash_merge", "kmerminhash_add_from", "kmerminhash_remove_from", "kmerminhash_count_common", "kmerminhash_intersection",
    "kmerminhash_intersection_union_size", "kmerminhash_jaccard", "kmerminhash_similarity", "kmerminhash_angular_similarity", "kmerminhash_is_compatible",
];
fn loaded_scenarios() -> Vec<(String, String)> {
    let mut v = vec![];
    for d in LOADED_DOCS {
        for f in LOADED_HASH_FNS {
            for pos in ["first", "last", "absent"] {
                v.push((f.to_string(), format!("loaded_{}_{}", d, pos)));
            }
        }
        for f in LOADED_UNARY_FNS {
            v.push((f.to_string(), format!("loaded_{}", d)));
        }
        for f in LOADED_BIN_FNS {
            for o in ["self", "other"] {
                v.push((f.to_string(), format!("loaded_{}_{}", d, o)));
            }
        }
    }
    v
}
struct LoadedDoc {
    num: u32,
    max_hash: u64,
    mins: Vec<u64>,
    abunds: Option<Vec<u64>>,
    md5: String,
}
impl LoadedDoc {
    fn json(&self) -> String {
        let list = |v: &[u64]| v.iter().map(|x| x.to_string()).collect::<Vec<_>>().join(",");
        let ab = match &self.abunds {
            Some(a) => format!(",\"abundances\":[{}]", list(a)),
            None => String::new(),
        };
        format!(
            "[{{\"class\":\"sourmash_signature\",\"email\":\"\",\"hash_function\":\"0.murmur64\",\"filename\":\"f.fa\",\"name\":\"loaded\",\"license\":\"CC0\",\"signatures\":[{{\"num\":{},\"ksize\":21,\"seed\":42,\"max_hash\":{},\"mins\":[{}],\"md5sum\":\"{}\"{},\"molecule\":\"DNA\"}}],\"version\":0.4}}]",
            self.num, self.max_hash, list(&self.mins), self.md5, ab
        )
    }
}
fn shuffle(v: &mut Vec<u64>, r: &mut Rng) {
    for i in (1..v.len()).rev() {
        let j = r.below(i as u64 + 1) as usize;
        v.swap(i, j);
    }
    if v.windows(2).all(|w| w[0] <= w[1]) {
        v.reverse();
    }
}
/// (the document of class `doc`, a well-formed companion with the same header sharing its first and last hash)
fn loaded_doc(doc: &str, r: &mut Rng) -> Option<(LoadedDoc, LoadedDoc)> {
    if !LOADED_DOCS.contains(&doc) {
        return None;
    }
    let n = r.range(6, 14) as usize;
    let mut base: Vec<u64> = vec![];
    while base.len() < n {
        let h = if doc == "abovemax" && base.len() < 3 { r.range(1, 1000) } else { r.range(1001, 1 << 40) };
        if !base.contains(&h) {
            base.push(h);
        }
    }
    if doc == "abovemax" {
        base.push(u64::MAX);
        base.push(u64::MAX - 1);
    }
    base.sort();
    let n = base.len();
    let small = |r: &mut Rng, k: usize| -> Vec<u64> { (0..k).map(|_| r.range(1, 50)).collect() };
    let md5 = {
        let mut m = KmerMinHash::new(1, 21, nhf(1), 42, false, 0);
        for h in &base {
            m.add_hash(*h);
        }
        m.md5sum()
    };
    let mut d = LoadedDoc { num: 0, max_hash: u64::MAX, mins: base.clone(), abunds: Some(small(r, n)), md5 };
    match doc {
        "plain" => {}
        "shortab" => {
            let k = *r.pick(&[1, n / 2, n - 1]);
            d.abunds = Some(small(r, k))
        }
        "shortab0" => d.abunds = Some(vec![]),
        "longab" => {
            let k = n + r.range(1, 5) as usize;
            d.abunds = Some(small(r, k))
        }
        "unsorted" => shuffle(&mut d.mins, r),
        "unsortedshortab" => {
            shuffle(&mut d.mins, r);
            d.abunds = Some(small(r, n - 2));
        }
        "dups" | "dupsnoab" => {
            let mut m = vec![];
            for (i, h) in base.iter().enumerate() {
                for _ in 0..(if i == 0 || i == n - 1 { 2 } else { r.range(1, 3) }) {
                    m.push(*h);
                }
            }
            d.abunds = if doc == "dups" { Some(small(r, m.len())) } else { None };
            if doc == "dupsnoab" {
                shuffle(&mut m, r);
            }
            d.mins = m;
        }
        "noab" => {
            shuffle(&mut d.mins, r);
            d.abunds = None;
        }
        "emptymins" => {
            d.mins = vec![];
            d.abunds = Some(vec![1, 2, 3]);
        }
        "numandmax" => d.num = 5,
        "numover" => {
            d.num = 3;
            d.max_hash = 0;
        }
        "abovemax" => d.max_hash = 1000,
        "numhuge" => {
            d.num = u32::MAX;
            d.max_hash = 0;
        }
        "hugeab" => {
            let mut a: Vec<u64> = (0..n).map(|_| u64::MAX - r.below(3)).collect();
            a[0] = u64::MAX;
            a[n - 1] = u64::MAX;
            d.abunds = Some(a);
        }
        "bogusmd5" => d.md5 = "not-an-md5".into(),
        _ => return None,
    }
    // the companion: a document any writer could have produced, same header, same abundance tracking
    let mut om: Vec<u64> = vec![];
    if let (Some(a), Some(b)) = (base.first(), base.last()) {
        om.push(*a);
        om.push(*b);
    }
    for h in base.iter().skip(1).step_by(2) {
        om.push(*h);
    }
    for _ in 0..5 {
        om.push(if doc == "abovemax" { r.range(1, 1000) } else { r.range(1001, 1 << 40) });
    }
    om.sort();
    om.dedup();
    if d.num != 0 && d.max_hash == 0 {
        om.truncate(d.num as usize);
    }
    if doc == "abovemax" {
        om.retain(|h| *h <= 1000);
    }
    let oa = d.abunds.as_ref().map(|_| small(r, om.len()));
    let o = LoadedDoc { num: d.num, max_hash: d.max_hash, mins: om, abunds: oa, md5: "0".repeat(32) };
    Some((d, o))
}
/// the document through the C API: (signature handle, handle of its first sketch)
unsafe fn load_ffi(json: &str) -> Option<(SIG, MH)> {
    let mut sz = 0usize;
    let p = signatures_load_buffer(json.as_ptr() as *const c_char, json.len(), false, 0, ptr::null(), &mut sz);
    if p.is_null() || sz != 1 {
        return None;
    }
    let sigs = take_slice(p as *const SIG, sz);
    let m = signature_first_mh(sigs[0]);
    if m.is_null() {
        return None;
    }
    Some((sigs[0], m))
}
fn load_native(json: &str) -> Option<(Signature, KmerMinHash)> {
    let v = Signature::load_signatures(json.as_bytes(), None, None, None).ok()?;
    let s = v.into_iter().next()?;
    let m = match s.sketches().first() {
        Some(Sketch::MinHash(m)) => m.clone(),
        _ => return None,
    };
    Some((s, m))
}
/// what the C API itself says about the object: the lengths it hands out agree with each other
unsafe fn mh_consistent(m: MH) -> bool {
    let mut a = 0usize;
    let p = kmerminhash_get_mins(m, &mut a);
    let mins = take_slice(p, a);
    let mut ok = !p.is_null() && kmerminhash_get_mins_size(m) == a && mins.windows(2).all(|w| w[0] <= w[1]);
    if kmerminhash_track_abundance(m) {
        let mut b = 0usize;
        let q = kmerminhash_get_abunds(m, &mut b);
        let _ = take_slice(q, b);
        ok &= !q.is_null() && a == b;
    }
    ok
}
unsafe fn call_loaded(f: &str, cls: &str, r: &mut Rng) -> Option<Cmp> {
    let rest = cls.strip_prefix("loaded_")?;
    let (doc, var) = match rest.split_once('_') {
        Some((d, v)) => (d, v),
        None => (rest, ""),
    };
    let (d, o) = loaded_doc(doc, r)?;
    let (dj, oj) = (d.json(), o.json());
    // both routes read the same bytes
    let Some((nsig, mut n)) = load_native(&dj) else { return Some(Cmp::Diff) };
    let Some((sig, m)) = load_ffi(&dj) else { return Some(Cmp::Diff) };
    let mut ok = mh_eq(m, &n) && sig_same(sig, &nsig) && mh_consistent(m);
    // the hash argument
    let distinct: Vec<u64> = n.mins();
    let x = match var {
        "first" => distinct.first().copied().unwrap_or(5),
        "last" => distinct.last().copied().unwrap_or(6),
        _ => {
            let mut h = if doc == "abovemax" { 7 } else { 1 << 41 };
            while distinct.contains(&h) {
                h += 1;
            }
            h
        }
    };
    let three: Vec<u64> = {
        let mut v = vec![distinct.first().copied().unwrap_or(5), distinct.last().copied().unwrap_or(6), 1 << 41, (1 << 41) + 1];
        if doc == "abovemax" {
            v.push(7);
        }
        v
    };
    // the second operand of a binary operation
    let (y, ny): (MH, Option<KmerMinHash>) = if LOADED_BIN_FNS.contains(&f) {
        let j = if var == "self" { &dj } else { &oj };
        match (load_ffi(j), load_native(j)) {
            (Some((s2, y)), Some((_, ny))) => {
                signature_free(s2);
                (y, Some(ny))
            }
            _ => return Some(Cmp::Diff),
        }
    } else {
        (ptr::null_mut(), None)
    };
    // state-changing operations: the same operation natively, then the whole state is compared
    let state = |nat: Option<KmerMinHash>, ok: &mut bool| {
        if let Some(w) = nat {
            *ok &= mh_eq(m, &w) && mh_consistent(m);
        }
    };
    match f {
        "kmerminhash_add_hash" => {
            let nat = native(|| {
                n.add_hash(x);
                n
            });
            kmerminhash_add_hash(m, x);
            state(nat, &mut ok);
        }
        "kmerminhash_add_hash_with_abundance" => {
            let nat = native(|| {
                n.add_hash_with_abundance(x, 3);
                n
            });
            kmerminhash_add_hash_with_abundance(m, x, 3);
            state(nat, &mut ok);
        }
        "kmerminhash_remove_hash" => {
            let nat = native(|| {
                n.remove_hash(x);
                n
            });
            kmerminhash_remove_hash(m, x);
            state(nat, &mut ok);
        }
        "kmerminhash_add_many" => {
            let nat = native(|| {
                let _ = n.add_many(&three);
                n
            });
            kmerminhash_add_many(m, three.as_ptr(), three.len());
            state(nat, &mut ok);
        }
        "kmerminhash_remove_many" => {
            let nat = native(|| {
                let _ = n.remove_many(three.iter().copied());
                n
            });
            kmerminhash_remove_many(m, three.as_ptr(), three.len());
            state(nat, &mut ok);
        }
        "kmerminhash_set_abundances" => {
            let abs: Vec<u64> = three.iter().map(|_| r.range(1, 9)).collect();
            let nat = native(|| {
                let mut pairs: Vec<(u64, u64)> = three.iter().cloned().zip(abs.iter().cloned()).collect();
                pairs.sort_unstable();
                let _ = n.add_many_with_abund(&pairs);
                n
            });
            kmerminhash_set_abundances(m, three.as_ptr(), abs.as_ptr(), three.len(), false);
            state(nat, &mut ok);
        }
        "kmerminhash_add_word" => {
            let w = dna(r, 21);
            let nat = native(|| {
                n.add_word(&w);
                n
            });
            let cw = csb(&w);
            kmerminhash_add_word(m, cw.as_ptr());
            state(nat, &mut ok);
        }
        "kmerminhash_add_sequence" => {
            let s = dna(r, 60);
            let nat = native(|| {
                let _ = n.add_sequence(&s, false);
                n
            });
            let cseq = csb(&s);
            kmerminhash_add_sequence(m, cseq.as_ptr(), false);
            state(nat, &mut ok);
        }
        "kmerminhash_clear" => {
            let nat = native(|| {
                n.clear();
                n
            });
            kmerminhash_clear(m);
            state(nat, &mut ok);
        }
        "kmerminhash_md5sum" => {
            // (the native answer first: `native` leaves the error channel clean)
            let want = native(|| n.md5sum());
            ok &= Some(str_take(kmerminhash_md5sum(m))) == want;
        }
        "kmerminhash_get_mins" => {
            let mut sz = 0usize;
            let p = kmerminhash_get_mins(m, &mut sz);
            ok &= !p.is_null() && take_slice(p, sz) == n.mins();
        }
        "kmerminhash_get_mins_size" => ok &= kmerminhash_get_mins_size(m) == n.size() && n.size() == n.mins().len(),
        "kmerminhash_get_abunds" => {
            let mut sz = 0usize;
            let p = kmerminhash_get_abunds(m, &mut sz);
            ok &= match n.abunds() {
                Some(a) => !p.is_null() && take_slice(p, sz) == a && a.len() == n.mins().len(),
                None => p.is_null(),
            };
        }
        "kmerminhash_num" => ok &= kmerminhash_num(m) == n.num(),
        "kmerminhash_max_hash" => ok &= kmerminhash_max_hash(m) == n.max_hash(),
        "kmerminhash_track_abundance" => ok &= kmerminhash_track_abundance(m) == n.track_abundance(),
        "kmerminhash_enable_abundance" => {
            let nat = native(|| {
                let _ = n.enable_abundance();
                n
            });
            kmerminhash_enable_abundance(m);
            state(nat, &mut ok);
        }
        "kmerminhash_disable_abundance" => {
            let nat = native(|| {
                n.disable_abundance();
                n
            });
            kmerminhash_disable_abundance(m);
            state(nat, &mut ok);
        }
        "kmerminhash_hash_function_set" => {
            let nat = native(|| {
                let _ = n.set_hash_function(nhf(2));
                n
            });
            kmerminhash_hash_function_set(m, hf(2));
            state(nat, &mut ok);
        }
        "kmerminhash_merge" | "kmerminhash_add_from" | "kmerminhash_remove_from" => {
            let ny = ny.unwrap();
            let nat = native(|| {
                let _ = match f {
                    "kmerminhash_merge" => n.merge(&ny),
                    "kmerminhash_add_from" => n.add_from(&ny),
                    _ => n.remove_from(&ny),
                };
                n
            });
            match f {
                "kmerminhash_merge" => kmerminhash_merge(m, y),
                "kmerminhash_add_from" => kmerminhash_add_from(m, y),
                _ => kmerminhash_remove_from(m, y),
            };
            state(nat, &mut ok);
        }
        "kmerminhash_count_common" => {
            let ny = ny.unwrap();
            let want = nat_ok(|| n.count_common(&ny, false)).unwrap_or(0);
            ok &= kmerminhash_count_common(m, y, false) == want;
        }
        "kmerminhash_intersection" => {
            let ny = ny.unwrap();
            let want = nat_ok(|| {
                let isect = n.intersection(&ny)?;
                let mut w = n.clone();
                w.clear();
                w.add_many(&isect.0)?;
                Ok(w)
            });
            let q = kmerminhash_intersection(m, y);
            ok &= match want {
                Some(w) => !q.is_null() && mh_eq(q, &w),
                None => q.is_null(),
            };
            kmerminhash_free(q);
        }
        "kmerminhash_intersection_union_size" => {
            let ny = ny.unwrap();
            let want = nat_ok(|| n.intersection_size(&ny)).unwrap_or((0, 0));
            let mut u = 99u64;
            let got = kmerminhash_intersection_union_size(m, y, &mut u);
            ok &= (got, u) == want;
        }
        "kmerminhash_jaccard" => {
            let ny = ny.unwrap();
            let want = nat_ok(|| n.jaccard(&ny)).unwrap_or(0.0);
            ok &= bits(kmerminhash_jaccard(m, y)) == bits(want);
        }
        "kmerminhash_similarity" => {
            let ny = ny.unwrap();
            let want = nat_ok(|| n.similarity(&ny, false, false)).unwrap_or(0.0);
            ok &= bits(kmerminhash_similarity(m, y, false, false)) == bits(want);
        }
        "kmerminhash_angular_similarity" => {
            let ny = ny.unwrap();
            let want = nat_ok(|| n.angular_similarity(&ny)).unwrap_or(0.0);
            ok &= bits(kmerminhash_angular_similarity(m, y)) == bits(want);
        }
        "kmerminhash_is_compatible" => {
            let ny = ny.unwrap();
            ok &= kmerminhash_is_compatible(m, y) == n.check_compatible(&ny).is_ok();
        }
        "hll_update_mh" | "hll_matches" => {
            let hs = hashes(r, 30);
            let (h, mut nh) = hll_pair(Some((0.05, 21)), &hs);
            if f == "hll_update_mh" {
                let nat = native(|| {
                    let _ = n.update(&mut nh);
                    nh
                });
                hll_update_mh(h, m);
                ok &= nat.map(|w| hll_same(h, &w)).unwrap_or(true);
            } else {
                let want = native(|| nh.intersection(&n.as_hll()));
                ok &= hll_matches(h, m) == want.unwrap_or(0);
            }
            hll_free(h);
        }
        "nodegraph_update_mh" | "nodegraph_matches" => {
            let hs = hashes(r, 30);
            let (g, mut ng) = ng_pair("valid", &hs);
            if f == "nodegraph_matches" {
                let want = native(|| ng.matches(&n));
                ok &= nodegraph_matches(g, m) == want.unwrap_or(0);
            } else {
                let nat = native(|| {
                    let _ = n.update(&mut ng);
                    ng
                });
                nodegraph_update_mh(g, m);
                ok &= nat.map(|w| ng_same(g, &w)).unwrap_or(true);
            }
            nodegraph_free(g);
        }
        "signature_first_mh" => {
            let q = signature_first_mh(sig);
            ok &= !q.is_null() && mh_eq(q, &n) && mh_consistent(q);
            kmerminhash_free(q);
        }
        "signature_get_mhs" => {
            let mut sz = 0usize;
            let p = signature_get_mhs(sig, &mut sz);
            let items = take_slice(p as *const *mut Sketch, sz);
            let mut got = vec![];
            for it in items {
                let b = Box::from_raw(it);
                got.push(serde_json::to_string(&*b).unwrap());
            }
            let want: Vec<String> = nsig.sketches().iter().map(|s| serde_json::to_string(s).unwrap()).collect();
            ok &= !p.is_null() && got == want;
        }
        "signature_push_mh" | "signature_set_mh" => {
            let s2 = signature_new();
            let mut n2 = Signature::default();
            if f.ends_with("push_mh") {
                signature_push_mh(s2, m);
                signature_push_mh(s2, m);
                n2.push(Sketch::MinHash(n.clone()));
                n2.push(Sketch::MinHash(n.clone()));
            } else {
                signature_set_mh(s2, m);
                n2.reset_sketches();
                n2.push(Sketch::MinHash(n.clone()));
            }
            ok &= sig_same(s2, &n2);
            let q = signature_first_mh(s2);
            ok &= !q.is_null() && mh_eq(q, &n) && mh_consistent(q);
            kmerminhash_free(q);
            signature_free(s2);
        }
        "signature_save_json" => ok &= str_take(signature_save_json(sig)) == sig_json(&nsig),
        "signatures_save_buffer" => {
            let list = [sig as *const SourmashSignature];
            let mut sz = 0usize;
            let p = signatures_save_buffer(list.as_ptr(), 1, 0, &mut sz);
            let buf = take_slice(p, sz);
            ok &= !p.is_null() && buf == serde_json::to_vec(&vec![&nsig]).unwrap();
            // what was written is read back as the same object
            if let Ok(text) = std::str::from_utf8(&buf) {
                match load_ffi(text) {
                    Some((s3, m3)) => {
                        ok &= mh_eq(m3, &n) && mh_consistent(m3);
                        kmerminhash_free(m3);
                        signature_free(s3);
                    }
                    None => ok = false,
                }
            }
        }
        "signature_eq" => {
            let want = native(|| nsig == nsig).unwrap_or(false);
            ok &= signature_eq(sig, sig) == want;
        }
        "signature_len" => ok &= signature_len(sig) == nsig.size(),
        _ => {
            kmerminhash_free(m);
            signature_free(sig);
            return Some(Cmp::Unknown);
        }
    }
    if !y.is_null() {
        kmerminhash_free(y);
    }
    kmerminhash_free(m);
    signature_free(sig);
    Some(c(ok))
}

// ---- Nodegraph ---------------------------------------------------------------------------------
fn ng_bytes(n: &Nodegraph) -> Vec<u8> {
    let mut b = vec![];
    n.save_to_writer(&mut b).unwrap();
    b
}
/// serialized nodegraph with the given table sizes and all bits clear (khmer "OXLI" v4 layout)
fn ng_raw(ksize: u32, sizes: &[u64]) -> Vec<u8> {
    let mut b = b"OXLI\x04\x02".to_vec();
    b.extend_from_slice(&ksize.to_le_bytes());
    b.push(sizes.len() as u8);
    b.extend_from_slice(&0u64.to_le_bytes());
    for s in sizes {
        b.extend_from_slice(&s.to_le_bytes());
        b.extend(std::iter::repeat(0u8).take((*s / 8 + 1) as usize));
    }
    b
}
/// (through the C API, natively)
unsafe fn ng_pair(kind: &str, hs: &[u64]) -> (NG, Nodegraph) {
    let (g, mut n) = match kind {
        "default" => (nodegraph_new(), Nodegraph::default()),
        "zero_len_table" | "size32" => {
            let raw = ng_raw(3, if kind == "size32" { &[32, 64] } else { &[0] });
            (nodegraph_from_buffer(raw.as_ptr() as *const c_char, raw.len()), Nodegraph::from_reader(&raw[..]).unwrap())
        }
        "zero_tables" => (nodegraph_with_tables(3, 2, 1), Nodegraph::with_tables(2, 1, 3)),
        "other_sizes" => (nodegraph_with_tables(3, 50, 4), Nodegraph::with_tables(50, 4, 3)),
        "other_tables" => (nodegraph_with_tables(3, 1000, 2), Nodegraph::with_tables(1000, 2, 3)),
        _ => (nodegraph_with_tables(3, 1000, 4), Nodegraph::with_tables(1000, 4, 3)),
    };
    if kind != "zero_len_table" {
        for h in hs {
            nodegraph_count(g, *h);
            n.count(*h);
        }
    }
    (g, n)
}
unsafe fn ng_same(g: *const SourmashNodegraph, n: &Nodegraph) -> bool {
    let x = SourmashNodegraph::as_rust(g);
    x == n && x.tablesizes() == n.tablesizes() && x.noccupied() == n.noccupied()
}
unsafe fn call_ng(f: &str, cls: &str, r: &mut Rng) -> Option<Cmp> {
    if !f.starts_with("nodegraph_") {
        return None;
    }
    let hs = hashes(r, 60);
    let kind = match cls {
        "default" | "zero_len_table" | "zero_tables" | "size32" => cls,
        _ => "valid",
    };
    Some(match f {
        "nodegraph_new" => {
            let g = nodegraph_new();
            let ok = !g.is_null() && ng_same(g, &Nodegraph::default());
            nodegraph_free(g);
            c(ok)
        }
        "nodegraph_free" => {
            match cls {
                "valid" | "default" => nodegraph_free(ng_pair(kind, &hs).0),
                "null" => nodegraph_free(ptr::null_mut()),
                _ => return Some(Cmp::Unknown),
            }
            Cmp::None
        }
        "nodegraph_buffer_free" => {
            if cls == "null" {
                nodegraph_buffer_free(ptr::null_mut(), 0);
            } else {
                let (g, _) = ng_pair("valid", &hs);
                let mut sz = 0usize;
                let p = nodegraph_to_buffer(g, 0, &mut sz);
                nodegraph_buffer_free(p as *mut u8, sz);
                nodegraph_free(g);
            }
            Cmp::None
        }
        "nodegraph_with_tables" => {
            let (k, size, nt) = match cls {
                "valid" => (r.range(1, 32) as usize, r.range(10, 100_000) as usize, r.range(1, 6) as usize),
                "one_table" => (21, 1000, 1),
                "zero_tables" => (21, 1000, 0),
                "size2" => (21, 2, 2),
                "size1" => (21, 1, 2),
                "size0" => (21, 0, 2),
                "k1" => (1, 1000, 2),
                "k0" => (0, 1000, 2),
                "large" => (21, 8_000_000, 3),
                _ => return Some(Cmp::Unknown),
            };
            let want = native(|| Nodegraph::with_tables(size, nt, k));
            let g = nodegraph_with_tables(k, size, nt);
            let ok = match want {
                Some(n) => !g.is_null() && ng_same(g, &n),
                None => g.is_null(),
            };
            nodegraph_free(g);
            c(ok)
        }
        "nodegraph_count" | "nodegraph_get" => {
            let (g, mut n) = ng_pair(kind, &hs);
            let h = match cls {
                "repeat" | "present" => hs[3],
                _ => r.bits(64),
            };
            let ok = if f == "nodegraph_count" {
                let want = native(|| {
                    let b = n.count(h);
                    (b, n)
                });
                let got = nodegraph_count(g, h);
                want.map(|(b, n)| b == got && ng_same(g, &n)).unwrap_or(!got)
            } else {
                let want = native(|| n.get(h));
                nodegraph_get(g, h) == want.unwrap_or(0)
            };
            nodegraph_free(g);
            c(ok)
        }
        "nodegraph_count_kmer" | "nodegraph_get_kmer" => {
            // count_kmer/get_kmer are pub(crate): no native counterpart
            let (g, _) = ng_pair(if cls == "default_non_acgt" { "default" } else { "valid" }, &hs);
            let kmer: Vec<u8> = match cls {
                "valid" => dna(r, 3),
                "non_acgt" | "default_non_acgt" => b"ANG".to_vec(),
                "lowercase" => b"acg".to_vec(),
                "empty" => vec![],
                "len1" => dna(r, 1),
                "long" => dna(r, 40),
                "utf8" => vec![b'A', 0xc3, 0xa9],
                _ if byte_pat(cls).is_some() => splice(dna(r, 3), cls),
                _ if is_long(cls, "") => long_text(cls, &dna(r, 64)),
                _ => return Some(Cmp::Unknown),
            };
            let ck = csb(&kmer);
            if f == "nodegraph_count_kmer" {
                nodegraph_count_kmer(g, ck.as_ptr());
            } else {
                nodegraph_get_kmer(g, ck.as_ptr());
            }
            nodegraph_free(g);
            Cmp::None
        }
        "nodegraph_expected_collisions" | "nodegraph_ksize" | "nodegraph_hashsizes" | "nodegraph_ntables" | "nodegraph_noccupied" => {
            let many = hashes(r, 800);
            let (g, n) = ng_pair(kind, if cls == "filled" { &many } else { &hs });
            let ok = match f {
                "nodegraph_expected_collisions" => {
                    let want = native(|| n.expected_collisions());
                    bits(nodegraph_expected_collisions(g)) == bits(want.unwrap_or(0.0))
                }
                "nodegraph_ksize" => nodegraph_ksize(g) == n.ksize(),
                "nodegraph_ntables" => nodegraph_ntables(g) == n.ntables(),
                "nodegraph_noccupied" => nodegraph_noccupied(g) == n.noccupied(),
                _ => {
                    let mut sz = 0usize;
                    let p = nodegraph_hashsizes(g, &mut sz);
                    take_slice(p, sz) == n.tablesizes()
                }
            };
            nodegraph_free(g);
            c(ok)
        }
        "nodegraph_matches" | "nodegraph_update_mh" => {
            let (g, mut n) = ng_pair(kind, &hs);
            let mut mhs = hashes(r, 20);
            mhs.extend_from_slice(&hs[..10]);
            let (m, nm) = mh_pair(DNA21, if cls == "empty_mh" { &[] } else { &mhs });
            let ok = if f == "nodegraph_matches" {
                let want = native(|| n.matches(&nm));
                nodegraph_matches(g, m) == want.unwrap_or(0)
            } else {
                let nat = native(|| {
                    let _ = nm.update(&mut n);
                    n
                });
                nodegraph_update_mh(g, m);
                nat.map(|n| ng_same(g, &n)).unwrap_or(true)
            };
            nodegraph_free(g);
            kmerminhash_free(m);
            c(ok)
        }
        "nodegraph_update" => {
            let hs2 = hashes(r, 50);
            let (ka, kb) = match cls {
                "valid" | "self_sizes" => ("valid", "valid"),
                "mismatch_tables" => ("valid", "other_tables"),
                "mismatch_sizes" => ("valid", "other_sizes"),
                "default_into_valid" => ("valid", "default"),
                "valid_into_default" => ("default", "valid"),
                "zero_len_table" => ("zero_len_table", "zero_len_table"),
                _ => return Some(Cmp::Unknown),
            };
            let (a, mut na) = ng_pair(ka, &hs);
            let (b, nb) = ng_pair(kb, &hs2);
            let nat = native(|| {
                let _ = nb.update(&mut na);
                na
            });
            nodegraph_update(a, b);
            let ok = nat.map(|n| ng_same(a, &n)).unwrap_or(true);
            nodegraph_free(a);
            nodegraph_free(b);
            c(ok)
        }
        "nodegraph_from_path" | "nodegraph_from_buffer" => {
            let (g0, n) = ng_pair("valid", &hs);
            let raw = ng_bytes(&n);
            let td = tmpdir();
            let mut expect: Option<Nodegraph> = if ["valid", "gz", "utf8", "b7f"].contains(&cls) || (f == "nodegraph_from_path" && is_long(cls, "")) { Some(n) } else { None };
            let g = if f == "nodegraph_from_path" {
                let mut p = td.path().join("x.ng").into_os_string().into_encoded_bytes();
                match cls {
                    "valid" => std::fs::write(td.path().join("x.ng"), &raw).unwrap(),
                    "missing" => {}
                    "garbage" => std::fs::write(td.path().join("x.ng"), b"this is not a nodegraph file at all, sorry").unwrap(),
                    "directory" => p = td.path().as_os_str().as_encoded_bytes().to_vec(),
                    "bad_utf8" => p.extend_from_slice(&[0xff, 0xfe]),
                    "utf8" | "b7f" => {
                        p = td.path().join(if cls == "utf8" { "x\u{e9}\u{4e2d}.ng" } else { "x\u{7f}.ng" }).into_os_string().into_encoded_bytes();
                        std::fs::write(std::str::from_utf8(&p).unwrap(), &raw).unwrap()
                    }
                    _ if is_long(cls, "") || is_long(cls, "missing_") => {
                        let q = long_path(td.path(), cls, ".ng");
                        if is_long(cls, "") {
                            std::fs::write(&q, &raw).unwrap();
                        }
                        p = q.into_os_string().into_encoded_bytes();
                    }
                    _ => return Some(Cmp::Unknown),
                }
                let cp = csb(&p);
                nodegraph_from_path(cp.as_ptr())
            } else {
                let b: Vec<u8> = match cls {
                    "valid" => raw.clone(),
                    "gz" => {
                        let mut sz = 0usize;
                        let p = nodegraph_to_buffer(g0, 5, &mut sz);
                        take_slice(p, sz)
                    }
                    "empty" => vec![],
                    "garbage" => b"this is not a nodegraph file at all, sorry".to_vec(),
                    "truncated" => raw[..raw.len() / 2].to_vec(),
                    "hi_bytes" => (0x80u8..=0xff).cycle().take(300).collect(),
                    "nul_bytes" => vec![0u8; 300],
                    "len1" => vec![b'O'],
                    "len1_hi" => vec![0xff],
                    "zero_len_table" => {
                        let b = ng_raw(3, &[0]);
                        expect = Some(Nodegraph::from_reader(&b[..]).unwrap());
                        b
                    }
                    _ if is_long(cls, "") => long_text(cls, b"OXLI"),
                    _ => return Some(Cmp::Unknown),
                };
                let p = if b.is_empty() { dangling::<c_char>() } else { b.as_ptr() as *const c_char };
                nodegraph_from_buffer(p, b.len())
            };
            nodegraph_free(g0);
            let ok = match expect {
                Some(n) => !g.is_null() && ng_same(g, &n),
                None => g.is_null(),
            };
            nodegraph_free(g);
            c(ok)
        }
        "nodegraph_save" | "nodegraph_to_buffer" => {
            let (g, n) = ng_pair(kind, &hs);
            let td = tmpdir();
            let ok = if f == "nodegraph_save" {
                let path = match cls {
                    "missing_dir" => td.path().join("no/such/dir/x.ng"),
                    "utf8" => td.path().join("x\u{e9}\u{4e2d}.ng"),
                    "b7f" => td.path().join("x\u{7f}.ng"),
                    _ if is_long(cls, "") => long_path(td.path(), cls, ".ng"),
                    _ => td.path().join("x.ng"),
                };
                let mut pb = path.clone().into_os_string().into_encoded_bytes();
                if cls == "bad_utf8" {
                    pb.extend_from_slice(&[0xff, 0xfe]);
                }
                let cp = csb(&pb);
                nodegraph_save(g, cp.as_ptr());
                if cls == "missing_dir" || cls == "bad_utf8" {
                    !path.exists() && std::fs::read_dir(td.path()).unwrap().count() == 0
                } else {
                    Nodegraph::from_path(&path).map(|x| x == n).unwrap_or(false)
                }
            } else {
                let level = match cls {
                    "gz1" => 1,
                    "gz9" => 9,
                    _ => 0,
                };
                let mut sz = 0usize;
                let p = nodegraph_to_buffer(g, level, &mut sz);
                let b = take_slice(p, sz);
                !p.is_null() && (level > 0 || b == ng_bytes(&n)) && Nodegraph::from_reader(&b[..]).map(|x| x == n).unwrap_or(false)
            };
            nodegraph_free(g);
            c(ok)
        }
        _ => return Some(Cmp::Unknown),
    })
}

// ---- Signature ---------------------------------------------------------------------------------
fn sig_json(s: &Signature) -> String {
    serde_json::to_string(s).unwrap()
}
unsafe fn sig_same(s: *const SourmashSignature, n: &Signature) -> bool {
    sig_json(SourmashSignature::as_rust(s)) == sig_json(n)
}
fn params_class(cls: &str) -> ComputeParameters {
    let mut p = ComputeParameters::default();
    p.set_num_hashes(50);
    match cls {
        "protein" | "valid_protein" => {
            p.set_dna(false);
            p.set_protein(true);
        }
        "all_moltypes" => {
            p.set_protein(true);
            p.set_dayhoff(true);
            p.set_hp(true);
            p.set_track_abundance(true);
        }
        "prot_all" => {
            p.set_dna(false);
            p.set_protein(true);
            p.set_dayhoff(true);
            p.set_hp(true);
        }
        "no_ksizes" => {
            p.set_ksizes(vec![]);
        }
        "no_moltypes" => {
            p.set_dna(false);
        }
        "k0" => {
            p.set_ksizes(vec![0, 3]);
        }
        "scaled" => {
            p.set_num_hashes(0);
            p.set_scaled(100);
        }
        _ => {}
    }
    p
}
/// (through the C API, natively) from the same compute parameters
unsafe fn sig_pair(pcls: &str) -> (SIG, Signature) {
    let s = sig_ffi(pcls);
    (s, Signature::from_params(&params_class(pcls)))
}
unsafe fn sig_ffi(pcls: &str) -> SIG {
    let p = params_class(pcls);
    let cp = computeparams_new();
    let q = SourmashComputeParameters::as_rust_mut(cp);
    q.set_num_hashes(p.num_hashes());
    q.set_dna(p.dna());
    q.set_protein(p.protein());
    q.set_dayhoff(p.dayhoff());
    q.set_hp(p.hp());
    q.set_track_abundance(p.track_abundance());
    q.set_ksizes(p.ksizes().clone());
    q.set_scaled(p.scaled());
    let s = signature_from_params(cp);
    computeparams_free(cp);
    s
}
/// a signature holding one flat MinHash sketch
unsafe fn sig_mh_pair(p: P, hs: &[u64], name: &str) -> (SIG, Signature) {
    let (m, nm) = mh_pair(p, hs);
    let s = signature_new();
    let mut n = Signature::default();
    signature_push_mh(s, m);
    n.push(Sketch::MinHash(nm));
    if !name.is_empty() {
        let cn = cs(name);
        signature_set_name(s, cn.as_ptr());
        n.set_name(name);
    }
    kmerminhash_free(m);
    (s, n)
}
unsafe fn free_sig_list(p: *mut *mut SourmashSignature, n: usize) -> Vec<String> {
    let mut out = vec![];
    for s in take_slice(p as *const SIG, n) {
        out.push(sig_json(SourmashSignature::as_rust(s)));
        signature_free(s);
    }
    out
}
unsafe fn call_sig(f: &str, cls: &str, r: &mut Rng) -> Option<Cmp> {
    if !f.starts_with("signature") {
        return None;
    }
    let hs = hashes(r, 30);
    Some(match f {
        "signature_new" => {
            let s = signature_new();
            let ok = !s.is_null() && sig_same(s, &Signature::default());
            signature_free(s);
            c(ok)
        }
        "signature_free" => {
            match cls {
                "valid" => signature_free(sig_pair("default").0),
                "null" => signature_free(ptr::null_mut()),
                _ => return Some(Cmp::Unknown),
            }
            Cmp::None
        }
        "signature_from_params" => {
            let p = params_class(cls);
            let want = native(|| Signature::from_params(&p));
            let s = sig_ffi(cls);
            let ok = match want {
                Some(n) => !s.is_null() && sig_same(s, &n),
                None => s.is_null(),
            };
            signature_free(s);
            c(ok)
        }
        "signature_len" => {
            let (s, n) = if cls == "default" { (signature_new(), Signature::default()) } else { sig_pair("all_moltypes") };
            let ok = signature_len(s) == n.size();
            signature_free(s);
            c(ok)
        }
        "signature_add_sequence" | "signature_add_protein" => {
            let is_prot = f.ends_with("protein");
            let (s, mut n) = match cls {
                "empty_sig" => (signature_new(), Signature::default()),
                "protein_sig" | "valid" if is_prot || cls == "protein_sig" => sig_pair("protein"),
                "short" => sig_pair("protein"),
                _ if is_prot && cls.starts_with("reduced") => sig_pair("prot_all"),
                _ if is_prot && cls != "dna_sig" => sig_pair("protein"),
                _ => sig_pair("default"),
            };
            let seq: Vec<u8> = if is_prot {
                match cls {
                    "short" => prot(r, 2),
                    "large" => prot(r, 30_000),
                    _ if byte_pat(cls).is_some() => splice(prot(r, 80), cls),
                    _ if is_long(cls, "") => long_text(cls, &prot(r, 1000)),
                    _ => prot(r, 80),
                }
            } else {
                match cls {
                    "large" => dna(r, 100_000),
                    "len1" => dna(r, 1),
                    _ if byte_pat(cls).is_some() => splice(dna(r, 200), cls),
                    _ if is_long(cls, "") => long_text(cls, &dna(r, 1000)),
                    "invalid" | "invalid_force" => {
                        let mut q = dna(r, 200);
                        q[100] = b'N';
                        q
                    }
                    "empty_seq" => vec![],
                    _ => dna(r, 200),
                }
            };
            let force = cls.ends_with("_force");
            let nat = native(|| {
                let _ = if is_prot { n.add_protein(&seq) } else { n.add_sequence(&seq, force) };
                n
            });
            let cq = csb(&seq);
            if is_prot {
                signature_add_protein(s, cq.as_ptr());
            } else {
                signature_add_sequence(s, cq.as_ptr(), force);
            }
            // after a failure the sketches hold whatever each (parallel) worker added before the error
            let failed = last_code() != 0;
            let ok = failed || nat.map(|n| sig_same(s, &n)).unwrap_or(true);
            signature_free(s);
            c(ok)
        }
        "signature_set_name" | "signature_set_filename" | "signature_get_name" | "signature_get_filename" | "signature_get_license" => {
            let (s, mut n) = sig_mh_pair(DNA21, &hs, "");
            let v: Vec<u8> = match cls {
                "valid" | "set" => dna(r, 10),
                "empty" | "unset" | "default" => vec![],
                "bad_utf8" => vec![0x41, 0xff, 0xfe],
                "len1" => dna(r, 1),
                "large" => dna(r, 100_000),
                "utf8" | "b7f" | "b80" | "bff" => splice(dna(r, 10), cls),
                _ if is_long(cls, "") => long_text(cls, b"genome name "),
                _ => return Some(Cmp::Unknown),
            };
            let cv = csb(&v);
            let is_name = f.ends_with("_name");
            if f.contains("_set_") || cls == "set" {
                if let Ok(t) = std::str::from_utf8(&v) {
                    if is_name {
                        n.set_name(t)
                    } else {
                        n.set_filename(t)
                    }
                }
                if f.contains("_set_") {
                    if is_name {
                        signature_set_name(s, cv.as_ptr());
                    } else {
                        signature_set_filename(s, cv.as_ptr());
                    }
                } else {
                    let t = std::str::from_utf8(&v).unwrap();
                    if is_name {
                        SourmashSignature::as_rust_mut(s).set_name(t)
                    } else {
                        SourmashSignature::as_rust_mut(s).set_filename(t)
                    }
                }
            }
            let ok = match f {
                "signature_get_name" => str_take(signature_get_name(s)) == if cls == "set" { n.name() } else { String::new() },
                "signature_get_filename" => str_take(signature_get_filename(s)) == n.filename(),
                "signature_get_license" => str_take(signature_get_license(s)) == n.license(),
                _ => sig_same(s, &n),
            };
            signature_free(s);
            c(ok)
        }
        "signature_push_mh" | "signature_set_mh" => {
            let (s, mut n) = if cls == "replace" { sig_pair("default") } else { (signature_new(), Signature::default()) };
            let (m, nm) = mh_pair(DNA21, &hs);
            let times = if cls == "twice" { 2 } else { 1 };
            for _ in 0..times {
                if f.ends_with("push_mh") {
                    signature_push_mh(s, m);
                    n.push(Sketch::MinHash(nm.clone()));
                } else {
                    signature_set_mh(s, m);
                    n.reset_sketches();
                    n.push(Sketch::MinHash(nm.clone()));
                }
            }
            let ok = sig_same(s, &n);
            kmerminhash_free(m);
            signature_free(s);
            c(ok)
        }
        "signature_first_mh" => {
            let (s, n) = match cls {
                "valid" => sig_mh_pair(P { track: true, ..DNA21 }, &hs, "x"),
                "empty_sig" => (signature_new(), Signature::default()),
                "large_mh" => sig_pair("default"),
                "hll_sketch" => {
                    let s = signature_new();
                    let mut n = Signature::default();
                    let h = HyperLogLog::with_error_rate(0.05, 21).unwrap();
                    SourmashSignature::as_rust_mut(s).push(Sketch::HyperLogLog(h.clone()));
                    n.push(Sketch::HyperLogLog(h));
                    (s, n)
                }
                _ => return Some(Cmp::Unknown),
            };
            let want: Option<KmerMinHash> = match n.sketches().first() {
                Some(Sketch::MinHash(m)) => Some(m.clone()),
                Some(Sketch::LargeMinHash(m)) => Some(m.into()),
                _ => None,
            };
            let m = signature_first_mh(s);
            let ok = match want {
                Some(w) => !m.is_null() && mh_eq(m, &w),
                None => m.is_null(),
            };
            kmerminhash_free(m);
            signature_free(s);
            c(ok)
        }
        "signature_eq" => {
            let (a, na) = match cls {
                "empty" => (signature_new(), Signature::default()),
                _ => sig_mh_pair(DNA21, &hs, "a"),
            };
            let (b, nb) = match cls {
                "empty" => (signature_new(), Signature::default()),
                "different" => sig_mh_pair(DNA21, &hs[..5], "b"),
                _ => sig_mh_pair(DNA21, &hs, "a"),
            };
            let want = native(|| na == nb);
            let got = if cls == "self" { signature_eq(a, a) } else { signature_eq(a, b) };
            signature_free(a);
            signature_free(b);
            c(got == want.unwrap_or(false))
        }
        "signature_save_json" => {
            let (s, n) = if cls == "empty_sig" { (signature_new(), Signature::default()) } else { sig_mh_pair(P { track: true, ..DNA21 }, &hs, "nm") };
            let ok = str_take(signature_save_json(s)) == sig_json(&n);
            signature_free(s);
            c(ok)
        }
        "signature_get_mhs" => {
            let (s, n) = if cls == "empty_sig" { (signature_new(), Signature::default()) } else { sig_pair("all_moltypes") };
            let mut sz = 0usize;
            let p = signature_get_mhs(s, &mut sz);
            // the elements are boxed `Sketch` values (not KmerMinHash objects); released as such
            let items = take_slice(p as *const *mut Sketch, sz);
            let mut ks = vec![];
            for it in items {
                let b = Box::from_raw(it);
                ks.push(b.ksize());
            }
            let want: Vec<usize> = n.sketches().iter().map(|s| s.ksize()).collect();
            signature_free(s);
            c(!p.is_null() && ks == want)
        }
        "signatures_save_buffer" => {
            let (a, na) = sig_mh_pair(DNA21, &hs, "a");
            let (b, nb) = sig_mh_pair(P { track: true, ..DNA21 }, &hs[..7], "b");
            let list: Vec<*const SourmashSignature> = if cls == "empty_list" { vec![] } else if cls == "one" { vec![b as *const _] } else { vec![a as *const _, b as *const _] };
            let want: Vec<&Signature> = if cls == "empty_list" { vec![] } else if cls == "one" { vec![&nb] } else { vec![&na, &nb] };
            let mut sz = 0usize;
            let p = signatures_save_buffer(if list.is_empty() { dangling() } else { list.as_ptr() }, list.len(), if cls == "gz" { 5 } else { 0 }, &mut sz);
            let buf = take_slice(p, sz);
            let ok = if cls == "gz" {
                let back = Signature::from_reader(&buf[..]).map(|v| v.iter().map(sig_json).collect::<Vec<_>>());
                !p.is_null() && back.ok() == Some(want.iter().map(|s| sig_json(s)).collect::<Vec<_>>())
            } else {
                !p.is_null() && buf == serde_json::to_vec(&want).unwrap()
            };
            signature_free(a);
            signature_free(b);
            c(ok)
        }
        "signatures_load_path" | "signatures_load_buffer" => {
            let by_path = f.ends_with("path");
            let td = tmpdir();
            let mut path: Vec<u8> = format!("{}/47.fa.sig", TD).into_bytes();
            let mut ksize = 0usize;
            let mut mol: Option<Vec<u8>> = None;
            let mut buf: Option<Vec<u8>> = None;
            match cls {
                "valid" => {}
                "select_k" => ksize = 31,
                "select_none" => ksize = 7,
                "select_moltype" => mol = Some(b"DNA".to_vec()),
                "bad_moltype" => mol = Some(b"rna".to_vec()),
                "moltype_bad_utf8" => mol = Some(vec![0xff, 0xfe]),
                "missing" => path = td.path().join("nope.sig").into_os_string().into_encoded_bytes(),
                "garbage" => {
                    path = format!("{}/short.fa", TD).into_bytes();
                    buf = Some(b"{\"not\": \"a signature list\"".to_vec());
                }
                "gz" => path = format!("{}/genome-s10+s11.sig.gz", TD).into_bytes(),
                "bad_utf8" => path.extend_from_slice(&[0xff, 0xfe]),
                "utf8" => {
                    // the same file under a non-ASCII name
                    let q = td.path().join("47\u{e9}\u{4e2d}.sig");
                    std::fs::copy(std::str::from_utf8(&path).unwrap(), &q).unwrap();
                    path = q.into_os_string().into_encoded_bytes();
                }
                "moltype_utf8" => mol = Some("prot\u{e9}ine".as_bytes().to_vec()),
                // an unknown molecule type of 255 .. 1000 bytes (echoed by the panic message)
                _ if is_long(cls, "moltype_") => mol = Some(long_text(cls, b"rna")),
                // the same file at the end of a long path / nothing at that path
                _ if by_path && (is_long(cls, "") || is_long(cls, "missing_")) => {
                    let q = long_path(td.path(), cls, ".sig");
                    if is_long(cls, "") {
                        std::fs::copy(std::str::from_utf8(&path).unwrap(), &q).unwrap();
                    }
                    path = q.into_os_string().into_encoded_bytes();
                }
                // a serialized signature whose name and filename are long
                _ if !by_path && is_long(cls, "") => {
                    let t = String::from_utf8(long_text(cls, b"genome name ")).unwrap();
                    let (s0, mut n) = sig_mh_pair(DNA21, &hs, "");
                    signature_free(s0);
                    n.set_name(&t);
                    n.set_filename(&t);
                    buf = Some(format!("[{}]", sig_json(&n)).into_bytes());
                }
                "hi_bytes" => buf = Some((0x80u8..=0xff).cycle().take(300).collect()),
                "nul_bytes" => buf = Some(vec![0u8; 300]),
                "len1" => buf = Some(vec![b'[']),
                "len1_hi" => buf = Some(vec![0xff]),
                "empty" => buf = Some(vec![]),
                "bad_molecule" => {
                    buf = Some(br#"[{"class":"sourmash_signature","hash_function":"0.murmur64","signatures":[{"num":0,"ksize":21,"seed":42,"max_hash":100,"mins":[1,2],"md5sum":"x","molecule":"rna"}],"version":0.4}]"#.to_vec())
                }
                "hll_sketch" => {
                    let mut n = Signature::default();
                    n.push(Sketch::HyperLogLog(HyperLogLog::with_error_rate(0.3, 21).unwrap()));
                    buf = Some(format!("[{}]", sig_json(&n)).into_bytes());
                }
                _ => return Some(Cmp::Unknown),
            }
            let data: Vec<u8> = match (&buf, by_path) {
                (Some(b), false) => b.clone(),
                _ => std::fs::read(std::str::from_utf8(&path).unwrap_or("/nonexistent")).unwrap_or_default(),
            };
            let nmol = mol.clone();
            let want = nat_ok(|| {
                let m = match &nmol {
                    None => None,
                    Some(b) => Some(sourmash::encodings::HashFunctions::try_from(std::str::from_utf8(b)?)?),
                };
                if by_path && (cls == "missing" || cls == "bad_utf8" || is_long(cls, "missing_")) {
                    return Err(SourmashError::Internal { message: "no file".into() });
                }
                Signature::load_signatures(&data[..], if ksize == 0 { None } else { Some(ksize) }, m, None)
            })
            .map(|v| v.iter().map(sig_json).collect::<Vec<_>>());
            let cmol = mol.map(|m| csb(&m));
            let pmol = cmol.as_ref().map(|c| c.as_ptr()).unwrap_or(ptr::null());
            let mut sz = 0usize;
            let p = if by_path {
                let cp = csb(&path);
                signatures_load_path(cp.as_ptr(), false, ksize, pmol, &mut sz)
            } else {
                let q = if data.is_empty() { dangling::<c_char>() } else { data.as_ptr() as *const c_char };
                signatures_load_buffer(q, data.len(), false, ksize, pmol, &mut sz)
            };
            let ok = match want {
                Some(w) => !p.is_null() && free_sig_list(p, sz) == w,
                None => p.is_null(),
            };
            c(ok)
        }
        _ => return Some(Cmp::Unknown),
    })
}

// ---- ZipStorage --------------------------------------------------------------------------------
unsafe fn free_str_list(p: *mut *mut SourmashStr, n: usize) -> Vec<String> {
    let mut out = vec![];
    for s in take_slice(p as *const *mut SourmashStr, n) {
        let b = Box::from_raw(s);
        out.push(b.as_str().to_string());
    }
    out
}
unsafe fn call_zip(f: &str, cls: &str, _r: &mut Rng) -> Option<Cmp> {
    if !f.starts_with("zipstorage_") {
        return None;
    }
    let td = tmpdir();
    let sbt = format!("{}/v6.sbt.zip", TD);
    let sigzip = format!("{}/47.fa.sig.zip", TD);
    if f == "zipstorage_new" {
        let p: Vec<u8> = match cls {
            "valid" => sbt.clone().into_bytes(),
            "missing" => td.path().join("nope.zip").into_os_string().into_encoded_bytes(),
            "not_a_zip" => format!("{}/47.fa.sig", TD).into_bytes(),
            "empty_path" => vec![],
            "bad_utf8" => vec![0x2f, 0xff, 0xfe],
            "directory" => td.path().as_os_str().as_encoded_bytes().to_vec(),
            "utf8" => {
                let q = td.path().join("v6\u{e9}\u{4e2d}.sbt.zip");
                std::fs::copy(&sbt, &q).unwrap();
                q.into_os_string().into_encoded_bytes()
            }
            "b00" => {
                let mut q = sbt.clone().into_bytes();
                q[5] = 0;
                q
            }
            "len1" => b"x".to_vec(),
            _ if is_long(cls, "") || is_long(cls, "missing_") => {
                let q = long_path(td.path(), cls, ".sbt.zip");
                if is_long(cls, "") {
                    std::fs::copy(&sbt, &q).unwrap();
                }
                q.into_os_string().into_encoded_bytes()
            }
            _ => return Some(Cmp::Unknown),
        };
        let q = if p.is_empty() { dangling::<c_char>() } else { p.as_ptr() as *const c_char };
        let z = zipstorage_new(q, p.len());
        let ok = if cls == "valid" || cls == "utf8" || is_long(cls, "") {
            !z.is_null() && SourmashZipStorage::as_rust(z).path().map(|x| x.as_str().as_bytes().to_vec()) == Some(p.clone())
        } else {
            z.is_null()
        };
        zipstorage_free(z);
        return Some(c(ok));
    }
    if f == "zipstorage_free" && cls == "null" {
        zipstorage_free(ptr::null_mut());
        return Some(Cmp::None);
    }
    let file = if cls == "sig_zip" { &sigzip } else { &sbt };
    let z = zipstorage_new(file.as_ptr() as *const c_char, file.len());
    let mut n = ZipStorage::from_file(file).unwrap();
    let res = match f {
        "zipstorage_free" => Cmp::None,
        "zipstorage_load" => {
            let names = n.filenames().unwrap();
            let first = names.iter().find(|x| !x.ends_with('/')).cloned().unwrap_or_default();
            let p: Vec<u8> = match cls {
                "valid" => first.into_bytes(),
                "missing_entry" => b"no/such/entry".to_vec(),
                "empty_path" => vec![],
                "bad_utf8" => vec![0x61, 0xff, 0xfe],
                "utf8" => "no/such/\u{e9}\u{4e2d}".as_bytes().to_vec(),
                "b00" => b"no\0such".to_vec(),
                "b80" => vec![0x61, 0x80],
                "len1" => b"x".to_vec(),
                "large" => vec![b'a'; 100_000],
                _ if is_long(cls, "") => long_text(cls, b"no/such/entry/"),
                _ => return Some(Cmp::Unknown),
            };
            let want = nat_ok(|| n.load(std::str::from_utf8(&p)?));
            let q = if p.is_empty() { dangling::<c_char>() } else { p.as_ptr() as *const c_char };
            let mut sz = 0usize;
            let b = zipstorage_load(z, q, p.len(), &mut sz);
            match want {
                Some(w) => c(!b.is_null() && take_slice(b, sz) == w),
                None => c(b.is_null()),
            }
        }
        "zipstorage_list_sbts" | "zipstorage_filenames" => {
            let mut sz = 0usize;
            let (p, want) = if f.ends_with("sbts") { (zipstorage_list_sbts(z, &mut sz), n.list_sbts().unwrap()) } else { (zipstorage_filenames(z, &mut sz), n.filenames().unwrap()) };
            c(!p.is_null() && free_str_list(p, sz) == want)
        }
        "zipstorage_set_subdir" => {
            let p: Vec<u8> = match cls {
                "valid" => b".sbt.v3".to_vec(),
                "empty" => vec![],
                "bad_utf8" => vec![0x61, 0xff, 0xfe],
                "utf8" => "sub\u{e9}\u{4e2d}".as_bytes().to_vec(),
                "b00" => b"su\0b".to_vec(),
                "b80" => vec![0x61, 0x80],
                "len1" => b"x".to_vec(),
                "large" => vec![b'a'; 100_000],
                _ if is_long(cls, "") => long_text(cls, b"sub/dir/"),
                _ => return Some(Cmp::Unknown),
            };
            if let Ok(t) = std::str::from_utf8(&p) {
                n.set_subdir(t.to_string());
            }
            let q = if p.is_empty() { dangling::<c_char>() } else { p.as_ptr() as *const c_char };
            zipstorage_set_subdir(z, q, p.len());
            c(SourmashZipStorage::as_rust(z).subdir() == n.subdir())
        }
        "zipstorage_path" => c(Some(str_take(zipstorage_path(z))) == n.path().map(|x| x.to_string())),
        "zipstorage_subdir" => {
            if cls == "set" {
                n.set_subdir("abc".into());
                zipstorage_set_subdir(z, b"abc".as_ptr() as *const c_char, 3);
            }
            c(str_take(zipstorage_subdir(z)) == n.subdir().unwrap_or_default())
        }
        _ => Cmp::Unknown,
    };
    zipstorage_free(z);
    Some(res)
}

// ---- RevIndex / search results -----------------------------------------------------------------
unsafe fn call_rev(f: &str, cls: &str, r: &mut Rng) -> Option<Cmp> {
    use sourmash::index::revindex::mem_revindex::RevIndex;
    use sourmash::index::Index;
    if !f.starts_with("revindex_") && !f.starts_with("searchresult_") {
        return None;
    }
    let p = DNA21;
    let base = hashes(r, 60);
    let sets: [Vec<u64>; 3] = [base[..40].to_vec(), base[20..].to_vec(), hashes(r, 30)];
    let mut sigs = vec![];
    let mut nsigs = vec![];
    for (i, s) in sets.iter().enumerate() {
        let (a, b) = sig_mh_pair(p, s, &format!("sig{}", i));
        sigs.push(a as *const SourmashSignature);
        nsigs.push(b);
    }
    let free_sigs = |sigs: &Vec<*const SourmashSignature>| {
        for s in sigs {
            signature_free(*s as SIG);
        }
    };
    let sel = |t: &KmerMinHash| Selection::builder().ksize(t.ksize() as u32).num(t.num()).scaled(t.scaled() as u32).build();
    if f == "revindex_free" && cls == "null" {
        revindex_free(ptr::null_mut());
        free_sigs(&sigs);
        return Some(Cmp::None);
    }
    if f == "revindex_new_with_sigs" || f == "revindex_new_with_paths" {
        let tp = if cls == "template_mismatch" { P { k: 31, ..p } } else { p };
        let (t, nt) = mh_pair(tp, &[]);
        let (q1, nq1) = mh_pair(p, &base[..10]);
        let (q2, nq2) = mh_pair(if cls == "queries_threshold0_mismatch" { P { k: 31, ..p } } else { p }, &base[5..15]);
        let (qs, nqs, thr): (Option<Vec<*const SourmashKmerMinHash>>, Option<Vec<KmerMinHash>>, usize) = match cls {
            "with_queries" => (Some(vec![q1 as *const _, q2 as *const _]), Some(vec![nq1, nq2]), 1),
            "queries_threshold0_mismatch" => (Some(vec![q1 as *const _, q2 as *const _]), Some(vec![nq1, nq2]), 0),
            "empty_queries" => (Some(vec![]), Some(vec![]), 0),
            _ => (None, None, 0),
        };
        let (qp, qn) = match &qs {
            None => (ptr::null(), 0),
            Some(v) if v.is_empty() => (dangling(), 0),
            Some(v) => (v.as_ptr(), v.len()),
        };
        let (ri, want_len) = if f == "revindex_new_with_sigs" {
            let list: Vec<*const SourmashSignature> = if cls == "empty_sigs" { vec![] } else if cls == "one_sig" { sigs[..1].to_vec() } else { sigs.clone() };
            let nlist: Vec<Signature> = if cls == "empty_sigs" { vec![] } else if cls == "one_sig" { nsigs[..1].to_vec() } else { nsigs.clone() };
            let want = nat_ok(|| RevIndex::new_with_sigs(nlist, &sel(&nt), thr, nqs.as_deref())).map(|x| x.len());
            (revindex_new_with_sigs(if list.is_empty() { dangling() } else { list.as_ptr() }, list.len(), t, thr, qp, qn), want)
        } else {
            let td = tmpdir();
            let paths: Vec<String> = match cls {
                "valid" | "with_queries" => vec![format!("{}/47.fa.sig", TD), format!("{}/63.fa.sig", TD)],
                "missing" => vec![td.path().join("nope.sig").to_str().unwrap().to_string()],
                "empty_paths" => vec![],
                "garbage" => vec![format!("{}/short.fa", TD)],
                _ if is_long(cls, "") || is_long(cls, "missing_") => {
                    // the two files at the end of long paths / two long paths with nothing there
                    let mut v = vec![];
                    // (one missing path, like `missing`: with several, the panic is raised on a rayon worker
                    // thread and recorded on THAT thread's channel - the documented one-thread assumption)
                    let names: &[&str] = if is_long(cls, "") { &["47.fa.sig", "63.fa.sig"] } else { &["47.fa.sig"] };
                    for name in names {
                        let q = long_path(&td.path().join(&name[..2]), cls, ".sig");
                        if is_long(cls, "") {
                            std::fs::copy(format!("{}/{}", TD, name), &q).unwrap();
                        }
                        v.push(q.to_str().unwrap().to_string());
                    }
                    v
                }
                _ => return Some(Cmp::Unknown),
            };
            // the real files are k=21/31/51 scaled=1000 sketches
            let (t2, nt2) = mh_pair(P { scaled: 1000, k: 31, ..p }, &[]);
            let strs: Vec<SourmashStr> = paths.iter().map(|x| SourmashStr::new(x)).collect();
            let ptrs: Vec<*const SourmashStr> = strs.iter().map(|x| x as *const SourmashStr).collect();
            let pb: Vec<camino::Utf8PathBuf> = paths.iter().map(camino::Utf8PathBuf::from).collect();
            let want = nat_ok(|| RevIndex::new(&pb, &sel(&nt2), thr, nqs.as_deref(), false)).map(|x| x.len());
            let ri = revindex_new_with_paths(if ptrs.is_empty() { dangling() } else { ptrs.as_ptr() }, ptrs.len(), t2, thr, qp, qn, false);
            kmerminhash_free(t2);
            (ri, want)
        };
        let ok = match want_len {
            Some(n) => !ri.is_null() && SourmashRevIndex::as_rust(ri).len() == n,
            None => ri.is_null(),
        };
        revindex_free(ri);
        kmerminhash_free(t);
        kmerminhash_free(q1);
        kmerminhash_free(q2);
        free_sigs(&sigs);
        return Some(c(ok));
    }
    // an index over the three in-memory signatures (or over none)
    let (t, nt) = mh_pair(p, &[]);
    let empty = cls == "empty";
    let ri = revindex_new_with_sigs(if empty { dangling() } else { sigs.as_ptr() }, if empty { 0 } else { sigs.len() }, t, 0, ptr::null(), 0);
    let nri = nat_ok(|| RevIndex::new_with_sigs(if empty { vec![] } else { nsigs.clone() }, &sel(&nt), 0, None));
    if ri.is_null() || nri.is_none() {
        // construction itself failed: report as a difference, the constructor scenarios explain it
        kmerminhash_free(t);
        free_sigs(&sigs);
        return Some(Cmp::Diff);
    }
    let nri = nri.unwrap();
    // queries
    let (q, nq) = match cls {
        "empty_sig" => (signature_new(), Signature::default()),
        "no_match" => sig_mh_pair(p, &hashes(r, 25), "q"),
        "mismatch_ksize" => sig_mh_pair(P { k: 31, ..p }, &sets[0], "q"),
        "large_mh" => sig_pair("default"),
        _ => sig_mh_pair(p, &sets[0], "q"),
    };
    let res = match f {
        "revindex_free" => Cmp::None,
        "revindex_len" => c(revindex_len(ri) == nri.len() as u64),
        "revindex_scaled" => {
            let want = match nri.template() {
                Sketch::MinHash(m) => m.scaled(),
                _ => 0,
            };
            c(revindex_scaled(ri) == want)
        }
        "revindex_signatures" => {
            let mut sz = 0usize;
            let pp = revindex_signatures(ri, &mut sz);
            let mut got = free_sig_list(pp, sz);
            let mut want: Vec<String> = nri.signatures().iter().map(sig_json).collect();
            got.sort();
            want.sort();
            c(!pp.is_null() && got == want)
        }
        "revindex_search" | "revindex_gather" | "searchresult_score" | "searchresult_filename" | "searchresult_signature" | "searchresult_free" => {
            if f == "searchresult_free" && cls == "null" {
                searchresult_free(ptr::null_mut());
                Cmp::None
            } else {
                let mut sz = 0usize;
                let thr = if cls == "threshold_big" { 1e300 } else { 0.0 };
                let gather_want = match nq.sketches().first() {
                    None => Some(vec![]),
                    Some(Sketch::MinHash(m)) => {
                        let t: usize = (thr * (m.size() as f64)) as _;
                        nat_ok(|| nri.gather(nri.counter_for_query(m), t, m)).map(|v| v.iter().map(|g| (bits(g.f_match()), sig_json(&g.get_match()), g.filename().to_owned())).collect::<Vec<_>>())
                    }
                    _ => None,
                };
                let pp = if f == "revindex_gather" { revindex_gather(ri, q, thr, false, false, &mut sz) } else { revindex_search(ri, q, thr, cls == "containment", false, &mut sz) };
                let items = take_slice(pp as *const *mut SourmashSearchResult, sz);
                let mut rows: Vec<(u64, String, String)> = vec![];
                let mut ok = true;
                for it in &items {
                    let sc = searchresult_score(*it);
                    let fnm = str_take(searchresult_filename(*it));
                    let sg = searchresult_signature(*it);
                    let rs = SourmashSearchResult::as_rust(*it);
                    ok &= bits(sc) == bits(rs.0) && fnm == rs.2 && sig_same(sg, &rs.1);
                    rows.push((bits(sc), sig_json(&rs.1), fnm));
                    signature_free(sg);
                    searchresult_free(*it);
                }
                if f == "revindex_gather" {
                    let want = gather_want;
                    match want {
                        Some(w) => c(ok && rows == w),
                        None => c(pp.is_null() && rows.is_empty()),
                    }
                } else if f == "revindex_search" {
                    // find_signatures is crate-private: only the result objects are cross-checked
                    if ok {
                        Cmp::None
                    } else {
                        Cmp::Diff
                    }
                } else {
                    c(ok && !rows.is_empty())
                }
            }
        }
        _ => Cmp::Unknown,
    };
    signature_free(q);
    revindex_free(ri);
    kmerminhash_free(t);
    free_sigs(&sigs);
    Some(res)
}

fn child(a: &Args) {
    let f = a.rest.first().cloned().unwrap_or_default();
    let cls = a.rest.get(1).cloned().unwrap_or_default();
    let seed: u64 = a.rest.get(2).and_then(|s| s.parse().ok()).unwrap_or(0);
    let mut r = Rng::new(seed ^ 0xC20);
    unsafe {
        // C20_NOINIT=1 (debugging aid): keep the default panic hook so that the panic message is printed
        // classes ending in `_noinit` run with the default panic hook (sourmash_init never called)
        let noinit = cls.ends_with("_noinit");
        if std::env::var_os("C20_NOINIT").is_none() && !noinit {
            sourmash_init();
        }
        let cls = cls.strip_suffix("_noinit").unwrap_or(&cls).to_string();
        let cmp = run_call(&f, &cls, &mut r);
        let cmp = match cmp {
            Cmp::Unknown => {
                println!("unknown-scenario");
                return;
            }
            Cmp::Same => "same",
            Cmp::Diff => "diff",
            Cmp::None => "-",
        };
        let code = last_code();
        let msg = str_take(sourmash_err_get_last_message());
        sourmash_err_clear();
        let code2 = last_code();
        println!("ret {} code={} msg={} cleared={}", cmp, code, if msg.is_empty() { 0 } else { 1 }, code2);
    }
}

fn main() {
    let a = args();
    match a.mode.as_str() {
        "gen" => gen(&a),
        "exec" => exec_loop(ExecState::default, exec_step),
        "child" => child(&a),
        "seqchild" => seqchild(),
        "dump" => dump(),
        _ => panic!("mode"),
    }
}
