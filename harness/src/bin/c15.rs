//! C15: the nodegraph is an exact multi-table Bloom filter without false negatives.
//!
//! A case owns three filters 0,1,2.
//!   case <n> new <k> <sizes>            all three: Nodegraph::new(sizes, k)          -> sizes
//!   case <n> wt <tablesize> <nt> <k>    all three: Nodegraph::with_tables            -> sizes
//!   case <n> mixed <k> <sa> <sb>        0,1: new(sa), 2: new(sb) (outside the property; model only)
//!   count <i> <h>        -> <0|1> occ=<noccupied> uniq=<unique_kmers>
//!   kmer <i> <ACGT…>     nodegraph_count_kmer (C API)                      -> same
//!   get <i> <h> / getk <i> <kmer>   (nodegraph_get / nodegraph_get_kmer)   -> 0|1
//!   upd <dst> <src>      src.update(&mut dst) (every third through nodegraph_update) -> ok occ= uniq=
//!   updmh|updbt <i> <hashes>   KmerMinHash / KmerMinHashBTree .update(&mut ng)       -> ok occ= uniq=
//!   matches <i> <hashes> -> count
//!   sim|cont <a> <b>     -> f64 bits | nan
use sourmash::encodings::HashFunctions;
use sourmash::ffi::minhash::SourmashKmerMinHash;
use sourmash::ffi::nodegraph::{
    nodegraph_count, nodegraph_count_kmer, nodegraph_get, nodegraph_get_kmer, nodegraph_matches,
    nodegraph_noccupied, nodegraph_update, nodegraph_update_mh, SourmashNodegraph,
};
use sourmash::prelude::*;
use sourmash::signature::SigsTrait;
use sourmash::sketch::minhash::{KmerMinHash, KmerMinHashBTree};
use sourmash::sketch::nodegraph::Nodegraph;
use std::ffi::CString;
use verif_harness::*;

const PRIMES: [u64; 20] = [2, 3, 5, 7, 11, 13, 17, 19, 23, 29, 31, 37, 61, 67, 127, 131, 251, 257, 293, 299];

fn pick_size(r: &mut Rng) -> u64 {
    match r.below(6) {
        0 => r.range(1, 8),
        1 => *r.pick(&[31u64, 32, 33, 63, 64, 65, 95, 96, 97, 128, 255, 256, 300]),
        2 => *r.pick(&PRIMES),
        _ => r.range(1, 300),
    }
}

fn sizes_vec(r: &mut Rng) -> Vec<u64> {
    let n = match r.below(20) {
        0..=3 => 1,
        4..=13 => r.range(2, 6),
        14..=17 => r.range(7, 40),
        18 => r.range(41, 255),
        _ => 255,
    };
    (0..n).map(|_| pick_size(r)).collect()
}

fn pool(r: &mut Rng, sizes: &[u64]) -> Vec<u64> {
    let mut p = vec![0u64, 1, u64::MAX, u64::MAX - 1, 1 << 63, (1 << 63) - 1, 1 << 32, (1 << 32) - 1];
    for s in sizes.iter().take(6) {
        let m = r.bits(56);
        p.push(s.wrapping_mul(m));
        p.push(s.wrapping_mul(m).wrapping_sub(1));
        p.push(s.wrapping_mul(m).wrapping_add(1));
        p.push(*s);
        p.push(s - 1);
    }
    for _ in 0..10 {
        p.push(r.bits(64));
    }
    // same bit in table 0, different elsewhere
    if let Some(s0) = sizes.first() {
        let base = r.bits(40);
        for j in 0..4 {
            p.push(base + j * s0);
        }
    }
    p
}

fn a_hash(r: &mut Rng, p: &[u64]) -> u64 {
    if r.chance(7, 10) {
        *r.pick(p)
    } else {
        r.bits(64)
    }
}

fn a_kmer(r: &mut Rng, kmin: u64) -> String {
    let k = match r.below(5) {
        0 => 32,
        1 => r.range(kmin, 4),
        2 => 31,
        _ => r.range(kmin, 32),
    };
    let style = r.below(6);
    (0..k)
        .map(|i| match style {
            0 => 'A',
            1 => 'T',
            2 => ['A', 'T'][(i % 2) as usize],
            3 => 'G',
            _ => *r.pick(&['A', 'C', 'G', 'T']),
        })
        .collect()
}

fn revcomp(s: &str) -> String {
    s.chars()
        .rev()
        .map(|c| match c {
            'A' => 'T',
            'T' => 'A',
            'C' => 'G',
            _ => 'C',
        })
        .collect()
}

fn hash_list(r: &mut Rng, p: &[u64]) -> String {
    let n = r.range(0, 12);
    show_nats((0..n).map(|_| a_hash(r, p)))
}

fn history(o: &mut Out, r: &mut Rng, sizes: &[u64], nops: u64, mixed: bool) {
    let p = pool(r, sizes);
    let mut kmers: Vec<String> = vec![];
    for _ in 0..nops {
        let i = r.below(3);
        match r.below(20) {
            0..=6 => o.op(&format!("count {} {}", i, a_hash(r, &p))),
            7..=10 => o.op(&format!("get {} {}", i, a_hash(r, &p))),
            11..=12 => {
                let km = if !kmers.is_empty() && r.chance(1, 3) {
                    let k = r.pick(&kmers).clone();
                    if r.chance(1, 2) {
                        revcomp(&k)
                    } else {
                        k
                    }
                } else {
                    a_kmer(r, 1)
                };
                kmers.push(km.clone());
                o.op(&format!("kmer {} {}", i, km));
            }
            13 => {
                let km = if !kmers.is_empty() && r.chance(2, 3) {
                    let k = r.pick(&kmers).clone();
                    if r.chance(1, 2) {
                        revcomp(&k)
                    } else {
                        k
                    }
                } else {
                    a_kmer(r, 1)
                };
                o.op(&format!("getk {} {}", i, km));
            }
            14..=15 => {
                let j = if mixed { r.below(3) } else { (i + 1 + r.below(2)) % 3 };
                o.op(&format!("upd {} {}", i, j));
            }
            16 => o.op(&format!("{} {} {}", if r.chance(1, 2) { "updmh" } else { "updbt" }, i, hash_list(r, &p))),
            17 => o.op(&format!("matches {} {}", i, hash_list(r, &p))),
            18 => o.op(&format!("sim {} {}", i, r.below(3))),
            _ => o.op(&format!("cont {} {}", i, r.below(3))),
        }
    }
    // every inserted hash is still present at the end: ask again for the whole pool
    for h in p.iter().take(12) {
        o.op(&format!("get {} {}", r.below(3), h));
    }
}

fn gen(a: &Args) {
    let mut r = Rng::new(a.seed);
    let mut o = Out::new();
    let thorough = a.tier == "thorough";
    let ncases = if thorough { 12000 } else { 700 };
    // a few large tables (bit indices beyond 2^16), short histories
    for c in 0..(if thorough { 40 } else { 6 }) {
        let k = r.range(1, 32);
        if c % 2 == 0 {
            let n = r.range(1, 3);
            let sizes: Vec<u64> = (0..n).map(|_| *r.pick(&[65521u64, 65536, 65537, 66000, 70001])).collect();
            o.case(&format!("new {} {}", k, show_nats(sizes.iter().copied())));
            history(&mut o, &mut r, &sizes, 12, false);
        } else {
            let ts = r.range(20000, 70000);
            let nt = r.range(1, 3);
            o.case(&format!("wt {} {} {}", ts, nt, k));
            let sizes = Nodegraph::with_tables(ts as usize, nt as usize, k as usize).tablesizes();
            history(&mut o, &mut r, &sizes, 12, false);
        }
    }
    for c in 0..ncases {
        let k = r.range(1, 32);
        match c % 10 {
            0..=6 => {
                let sizes = sizes_vec(&mut r);
                o.case(&format!("new {} {}", k, show_nats(sizes.iter().copied())));
                let nops = if sizes.len() > 40 { r.range(10, 40) } else { r.range(20, 120) };
                history(&mut o, &mut r, &sizes, nops, false);
            }
            7 | 8 => {
                let ts = if r.chance(1, 4) { r.range(1, 12) } else { r.range(1, 400) };
                let nt = r.range(0, 8);
                o.case(&format!("wt {} {} {}", ts, nt, k));
                let sizes = Nodegraph::with_tables(ts as usize, nt as usize, k as usize).tablesizes();
                let nops = r.range(20, 100);
                history(&mut o, &mut r, &sizes, nops, false);
            }
            _ => {
                let sa = sizes_vec(&mut r);
                let mut sb = sa.clone();
                match r.below(3) {
                    0 => {
                        sb.pop();
                    }
                    1 => sb.push(pick_size(&mut r)),
                    _ => {
                        let i = r.below(sb.len() as u64) as usize;
                        sb[i] = pick_size(&mut r);
                    }
                }
                o.case(&format!("mixed {} {} {}", k, show_nats(sa.iter().copied()), show_nats(sb.iter().copied())));
                let nops = r.range(10, 50);
                history(&mut o, &mut r, &sa, nops, true);
            }
        }
    }
}

fn counters(ng: &Nodegraph) -> String {
    let occ = unsafe { nodegraph_noccupied(ng as *const Nodegraph as *const SourmashNodegraph) };
    assert_eq!(occ, ng.noccupied());
    format!("occ={} uniq={}", occ, ng.unique_kmers())
}

fn mh_of(hs: &[u64]) -> KmerMinHash {
    let mut mh = KmerMinHash::new(1, 21, HashFunctions::Murmur64Dna, 42, false, 0);
    for h in hs {
        mh.add_hash(*h);
    }
    mh
}

fn f64s(x: f64) -> String {
    if x.is_nan() {
        "nan".into()
    } else {
        x.to_bits().to_string()
    }
}

struct St {
    g: Vec<Nodegraph>,
    nops: u64,
}

fn step(st: &mut St, ws: &[&str]) -> String {
    if ws[0] == "case" {
        st.nops = 0;
        return match ws[2] {
            "new" => {
                let sizes: Vec<usize> = parse_nats(ws[4]).into_iter().map(|x| x as usize).collect();
                let g = Nodegraph::new(&sizes, ws[3].parse().unwrap());
                st.g = vec![g.clone(), g.clone(), g.clone()];
                show_nats(g.tablesizes())
            }
            "wt" => {
                let g = Nodegraph::with_tables(ws[3].parse().unwrap(), ws[4].parse().unwrap(), ws[5].parse().unwrap());
                st.g = vec![g.clone(), g.clone(), g.clone()];
                show_nats(g.tablesizes())
            }
            "mixed" => {
                let sa: Vec<usize> = parse_nats(ws[4]).into_iter().map(|x| x as usize).collect();
                let sb: Vec<usize> = parse_nats(ws[5]).into_iter().map(|x| x as usize).collect();
                let k = ws[3].parse().unwrap();
                st.g = vec![Nodegraph::new(&sa, k), Nodegraph::new(&sa, k), Nodegraph::new(&sb, k)];
                "ok".into()
            }
            _ => "ok".into(),
        };
    }
    st.nops += 1;
    let via_ffi = st.nops % 3 == 0;
    let i: usize = ws[1].parse().unwrap();
    match ws[0] {
        "count" => {
            let h: u64 = ws[2].parse().unwrap();
            let g = &mut st.g[i];
            let r = if via_ffi {
                unsafe { nodegraph_count(g as *mut Nodegraph as *mut SourmashNodegraph, h) }
            } else {
                g.count(h)
            };
            format!("{} {}", r as u8, counters(g))
        }
        "kmer" => {
            let c = CString::new(ws[2]).unwrap();
            let g = &mut st.g[i];
            let r = unsafe { nodegraph_count_kmer(g as *mut Nodegraph as *mut SourmashNodegraph, c.as_ptr()) };
            format!("{} {}", r as u8, counters(g))
        }
        "get" => {
            let h: u64 = ws[2].parse().unwrap();
            let g = &st.g[i];
            if via_ffi {
                unsafe { nodegraph_get(g as *const Nodegraph as *const SourmashNodegraph, h) }.to_string()
            } else {
                g.get(h).to_string()
            }
        }
        "getk" => {
            let c = CString::new(ws[2]).unwrap();
            let g = &st.g[i];
            unsafe { nodegraph_get_kmer(g as *const Nodegraph as *const SourmashNodegraph, c.as_ptr()) }.to_string()
        }
        "upd" => {
            let j: usize = ws[2].parse().unwrap();
            let src = st.g[j].clone();
            let g = &mut st.g[i];
            if via_ffi {
                unsafe {
                    nodegraph_update(
                        g as *mut Nodegraph as *mut SourmashNodegraph,
                        &src as *const Nodegraph as *const SourmashNodegraph,
                    )
                }
            } else {
                src.update(g).unwrap();
            }
            format!("ok {}", counters(g))
        }
        "updmh" => {
            let mh = mh_of(&parse_nats(ws[2]));
            let g = &mut st.g[i];
            if via_ffi {
                unsafe {
                    nodegraph_update_mh(
                        g as *mut Nodegraph as *mut SourmashNodegraph,
                        &mh as *const KmerMinHash as *const SourmashKmerMinHash,
                    )
                }
            } else {
                mh.update(g).unwrap();
            }
            format!("ok {}", counters(g))
        }
        "updbt" => {
            let mut mh = KmerMinHashBTree::new(1, 21, HashFunctions::Murmur64Dna, 42, false, 0);
            for h in parse_nats(ws[2]) {
                mh.add_hash(h);
            }
            let g = &mut st.g[i];
            mh.update(g).unwrap();
            format!("ok {}", counters(g))
        }
        "matches" => {
            let mh = mh_of(&parse_nats(ws[2]));
            let g = &st.g[i];
            if via_ffi {
                unsafe {
                    nodegraph_matches(
                        g as *const Nodegraph as *const SourmashNodegraph,
                        &mh as *const KmerMinHash as *const SourmashKmerMinHash,
                    )
                }
                .to_string()
            } else {
                g.matches(&mh).to_string()
            }
        }
        "sim" => {
            let j: usize = ws[2].parse().unwrap();
            f64s(st.g[i].similarity(&st.g[j]))
        }
        "cont" => {
            let j: usize = ws[2].parse().unwrap();
            f64s(st.g[i].containment(&st.g[j]))
        }
        _ => "bad-op".into(),
    }
}

fn main() {
    let a = args();
    match a.mode.as_str() {
        "gen" => gen(&a),
        "exec" => exec_loop(|| St { g: vec![], nops: 0 }, step),
        _ => panic!("mode"),
    }
}
