//! C11: selection keeps exactly the sketches that satisfy the request.
//!
//! Request lines (one case = one collection of signatures, then selections on it):
//!   sig <name hex|~> <filename hex|~>                      start a new signature
//!   sk <ksize> <mol> <num> <scaled> <tracked> <v|t> <mins> <abunds>   add a sketch to it (echo)
//!   ssel i SEL | stsel i SEL        Signature::select / SigStore::select on signature i
//!   msel SEL | msel2 SEL            Manifest::select on the concatenated Record::from_sig rows (once / twice)
//!   csel SEL                        Collection::from_sigs(..).select
//!   cset SEL                        CollectionSet::try_from(collection.select)
//!   lsel SEL                        LinearIndex::select (homogeneous cases)
//!   cload SEL                       collection.select, then sig_from_record(rec).select per surviving row
//!   agree i SEL                     positions retained at manifest level vs. at signature level
//! SEL = <ksize|-> <mol|-> <abund|-> <num|-> <scaled|->
//!
//! Manifests that did NOT come from Record::from_sig (`case … csv`):
//!   mcsv <csv hex> <map>            Manifest::from_reader on a CSV document describing sketches of the
//!                                   case: row p describes the map[p]-th sketch of the case (flat order;
//!                                   999999 = a row with a molecule name the crate does not know).  The
//!                                   document is spelled the way other tools write it - molecule type in
//!                                   any letter case, booleans 0/1/true/False/TRUE, +/0-prefixed integers,
//!                                   permuted and extra columns, quoted fields.  From then on msel / msel2
//!                                   / csel / cset / lsel / cload of the case work on THIS manifest
//!                                   (collections: Collection::new(manifest, MemStorage of the signatures)).
//!
//! `SigStore` in every state (`Select for SigStore` works on the lazily initialised `data` cell):
//!   st <route> <i> <prog> SEL       build a store for signature i (dataset i for the c* / lin routes), run
//!                                   <prog> on it, then `data()`: `ok <sketches>` / `err <Variant>`
//!   stget <route> <i> <prog> SEL    the same, but a REFUSED select is retried the way a caller has to:
//!                                   `data()` first, then select again - what the caller ends up holding
//!                                   after an accepted selection (this is where the property speaks)
//!     routes  from   SigStore::from(sig)                        data filled, no storage
//!             nws    SigStore::new_with_storage(sig, memory)    data filled, storage
//!             lmem | lfs | lzip   InnerStorage::load_sig(path)  data filled (fs / zip: through JSON), storage
//!             bmem | bfs | bzip   SigStore::builder().filename(path).name(..).metadata(..)
//!                                 .storage(Some(storage)).build()        data EMPTY, read on demand
//!             dsi    SigStore::from(DatasetInfo {..})           data empty, no storage
//!             def    SigStore::default()                        data empty, no storage
//!             cfd | cfr   collection.sig_for_dataset(i) / sig_from_record(&manifest[i])
//!             lin    LinearIndex::from_collection(CollectionSet::try_from(collection)?).sig_for_dataset(i)
//!     prog    letters run in order:  r `data()`   k continue with a clone   K `data()` on a clone (the
//!             store itself stays as it was)   s select(SEL)   e select(&Selection::default())
//!
//! Histories (one collection per case, kept between lines; `none` before `hnew` / after a consumed Err):
//!   hnew            the case's collection (`Collection::from_sigs`, or the `mcsv` manifest over memory storage)
//!   hsel SEL        Collection::select / LinearIndex::select in place: the rows kept (positions in the
//!                   manifest `hnew` saw)
//!   hmsel SEL       collection.manifest().clone().select(SEL): rows (state unchanged)
//!   hisect <rows>   collection.intersect_manifest(those rows of the hnew manifest)
//!   hlin | hcoll    LinearIndex::from_collection(CollectionSet::try_from(..)) / back to the collection
//!   hget j SEL      sig_for_dataset(j) on the CURRENT collection / index, then select(SEL), then data()
use sourmash::collection::{Collection, CollectionSet};
use sourmash::encodings::HashFunctions;
use sourmash::index::linear::LinearIndex;
use sourmash::manifest::{Manifest, Record};
use sourmash::prelude::*;
use sourmash::selection::Selection;
use sourmash::signature::{Signature, SigsTrait};
use sourmash::sketch::minhash::{max_hash_for_scaled, KmerMinHash, KmerMinHashBTree};
use sourmash::sketch::Sketch;
use sourmash::storage::{DatasetInfo, FSStorage, InnerStorage, MemStorage, SigStore, Storage, ZipStorage};
use verif_harness::*;

const SEED0: u64 = 1000;
const MOLS: [&str; 4] = ["dna", "protein", "dayhoff", "hp"];

fn hf(m: &str) -> HashFunctions {
    match m {
        "dna" => HashFunctions::Murmur64Dna,
        "protein" => HashFunctions::Murmur64Protein,
        "dayhoff" => HashFunctions::Murmur64Dayhoff,
        "hp" => HashFunctions::Murmur64Hp,
        _ => panic!("mol"),
    }
}
fn mol_name(h: &HashFunctions) -> &'static str {
    match h {
        HashFunctions::Murmur64Dna => "dna",
        HashFunctions::Murmur64Protein => "protein",
        HashFunctions::Murmur64Dayhoff => "dayhoff",
        HashFunctions::Murmur64Hp => "hp",
        _ => "custom",
    }
}

// ------------------------------------------------------------------ generator

#[derive(Clone)]
struct GSk {
    ksize: u64, // stored
    mol: &'static str,
    num: u64,
    scaled: u64,
    tracked: bool,
    cont: char,
    mins: Vec<u64>,
    abunds: Vec<u64>,
}
impl GSk {
    fn residues(&self) -> u64 {
        if self.mol == "dna" {
            self.ksize
        } else {
            self.ksize / 3
        }
    }
    fn line(&self) -> String {
        format!(
            "sk {} {} {} {} {} {} {} {}",
            self.ksize,
            self.mol,
            self.num,
            self.scaled,
            self.tracked as u8,
            self.cont,
            show_nats(self.mins.iter().cloned()),
            show_nats(self.abunds.iter().cloned())
        )
    }
}

const KS: [u64; 4] = [7, 10, 21, 31];
const SCALEDS: [u64; 9] = [1, 2, 3, 100, 1000, 1001, 2000, 1 << 31, (1 << 32) - 1];
const NUMS: [u64; 4] = [1, 3, 5, 500];

fn gen_sketch(r: &mut Rng, res: u64, mol: &'static str, tracked: bool) -> GSk {
    let ksize = if mol == "dna" { res } else { res * 3 };
    let kind = r.below(100);
    let (num, scaled) = if kind < 50 {
        (0, *r.pick(&SCALEDS))
    } else if kind < 88 {
        (*r.pick(&NUMS), 0)
    } else if kind < 94 {
        (*r.pick(&NUMS), *r.pick(&SCALEDS)) // both set
    } else if kind < 97 {
        (0, 0) // accepts nothing
    } else {
        (0, r.range(1u64 << 32, 1u64 << 40)) // scaled beyond any u32 request
    };
    let mh = max_hash_for_scaled(scaled);
    let mut cand: Vec<u64> = vec![];
    let want = r.below(7);
    for _ in 0..want {
        let v = match r.below(4) {
            0 => r.range(0, 20),
            1 => {
                // around the ceiling of some scaled value a request may carry
                let s = *r.pick(&SCALEDS) + r.below(2);
                let c = max_hash_for_scaled(s);
                match r.below(3) {
                    0 => c,
                    1 => c.saturating_sub(1),
                    _ => c.saturating_add(1),
                }
            }
            2 => r.bits(64),
            _ => {
                if mh > 0 {
                    r.range(0, mh.min(u64::MAX - 1))
                } else {
                    r.bits(40)
                }
            }
        };
        cand.push(v);
    }
    cand.sort();
    cand.dedup();
    if scaled != 0 {
        cand.retain(|&h| h <= mh);
    }
    if num != 0 {
        cand.truncate(num as usize);
    }
    if num == 0 && scaled == 0 {
        cand.clear();
    }
    let abunds = if tracked { cand.iter().map(|_| r.range(1, 5)).collect() } else { vec![] };
    GSk {
        ksize,
        mol,
        num,
        scaled,
        tracked,
        cont: if r.chance(1, 2) { 'v' } else { 't' },
        mins: cand,
        abunds,
    }
}

fn opt<T: std::fmt::Display>(o: &Option<T>) -> String {
    match o {
        Some(v) => v.to_string(),
        None => "-".into(),
    }
}

fn gen_sel(r: &mut Rng, mask: u32, sks: &[(u64, GSk)]) -> (String, Option<u64>) {
    // most requests are built around one sketch of the case (so that conjunctions are satisfiable),
    // with single criteria knocked off it
    let pool: Vec<&(u64, GSk)> = if mask & 16 != 0 && !r.chance(1, 5) {
        sks.iter().filter(|s| s.1.scaled != 0).collect()
    } else if mask & 8 != 0 && mask & 16 == 0 && !r.chance(1, 5) {
        sks.iter().filter(|s| s.1.num != 0).collect()
    } else {
        sks.iter().collect()
    };
    let based: Option<(u64, GSk)> = if pool.is_empty() || r.chance(1, 8) { None } else { Some((*r.pick(&pool)).clone()) };
    let base: Option<GSk> = based.as_ref().map(|b| b.1.clone());
    let mut from_case = |r: &mut Rng| -> Option<GSk> {
        match &base {
            Some(b) if !r.chance(1, 8) => Some(b.clone()),
            _ => None,
        }
    };
    let k = if mask & 1 != 0 {
        Some(match from_case(r) {
            Some(s) => {
                if r.chance(1, 8) {
                    s.ksize // the stored value: what a request for a protein sketch must NOT use
                } else {
                    s.residues()
                }
            }
            None => *r.pick(&KS),
        })
    } else {
        None
    };
    let m = if mask & 2 != 0 {
        Some(match from_case(r) {
            Some(s) => s.mol,
            None => *r.pick(&MOLS),
        })
    } else {
        None
    };
    let a = if mask & 4 != 0 {
        Some(match from_case(r) {
            Some(s) => s.tracked as u8,
            None => r.below(2) as u8,
        })
    } else {
        None
    };
    let n = if mask & 8 != 0 {
        Some(match from_case(r) {
            Some(s) => s.num,
            None => *r.pick(&[0u64, 1, 3, 5, 500, 501]),
        })
    } else {
        None
    };
    let s = if mask & 16 != 0 {
        let base = match from_case(r) {
            Some(s) if s.scaled != 0 => s.scaled,
            _ => *r.pick(&SCALEDS),
        };
        let v = match r.below(8) {
            0 => base.saturating_sub(1),
            1 => base + 1,
            2 => base.saturating_mul(2),
            3 => 0,
            4 => *r.pick(&SCALEDS),
            _ => base,
        };
        Some(v.min(u32::MAX as u64))
    } else {
        None
    };
    (format!("{} {} {} {} {}", opt(&k), opt(&m), opt(&a), opt(&n), opt(&s)), based.map(|b| b.0))
}

const HEADER: [&str; 11] = [
    "internal_location", "md5", "md5short", "ksize", "moltype", "num", "scaled", "n_hashes", "with_abundance",
    "name", "filename",
];

fn respell_case(r: &mut Rng, s: &str) -> String {
    match r.below(4) {
        0 => s.to_string(),
        1 => s.to_uppercase(),
        2 => s.to_lowercase(),
        _ => s.chars().map(|c| if r.chance(1, 2) { c.to_ascii_uppercase() } else { c.to_ascii_lowercase() }).collect(),
    }
}

/// the CSV text of `recs` (fields in HEADER order, canonical spelling) in a dialect the reader accepts
fn render_csv(r: &mut Rng, recs: &[Vec<String>]) -> Vec<u8> {
    let term: &[u8] = match r.below(4) {
        0 => b"\r\n",
        _ => b"\n",
    };
    let quote_all = r.chance(1, 4);
    let mut order: Vec<usize> = (0..11).collect();
    if r.chance(1, 2) {
        for i in (1..11).rev() {
            let j = r.below(i as u64 + 1) as usize;
            order.swap(i, j);
        }
    }
    let mut names: Vec<String> = order.iter().map(|&i| HEADER[i].to_string()).collect();
    let extra_pos = if r.chance(1, 3) { Some(r.below(names.len() as u64 + 1) as usize) } else { None };
    if let Some(p) = extra_pos {
        names.insert(p, "seed".into());
    }
    let bool_style = r.below(6);
    let mut out: Vec<u8> = vec![];
    if r.chance(3, 4) {
        out.extend(b"# SOURMASH-MANIFEST-VERSION: 1.0\n");
    }
    let put = |out: &mut Vec<u8>, f: &[u8], force: bool| {
        let special = f.iter().any(|b| b",\"\r\n#".contains(b));
        if special || force {
            out.push(b'"');
            for &b in f {
                if b == b'"' {
                    out.push(b'"');
                }
                out.push(b);
            }
            out.push(b'"');
        } else {
            out.extend(f);
        }
    };
    for (i, n) in names.iter().enumerate() {
        if i > 0 {
            out.push(b',');
        }
        put(&mut out, n.as_bytes(), quote_all);
    }
    out.extend(term);
    for rec in recs {
        let mut fields: Vec<String> = order
            .iter()
            .map(|&i| match i {
                4 => respell_case(r, &rec[4]),
                8 => {
                    let t = rec[8] == "1";
                    match if r.chance(1, 5) { r.below(6) } else { bool_style } {
                        0 | 1 => rec[8].clone(),
                        2 => (if t { "true" } else { "false" }).into(),
                        3 => (if t { "True" } else { "False" }).into(),
                        4 => (if t { "TRUE" } else { "FALSE" }).into(),
                        _ => respell_case(r, if t { "true" } else { "false" }),
                    }
                }
                3 | 5 | 6 | 7 if r.chance(1, 6) => format!("{}{}", *r.pick(&["+", "0", "00", "+0"]), rec[i]),
                _ => rec[i].clone(),
            })
            .collect();
        if let Some(p) = extra_pos {
            fields.insert(p, (*r.pick(&["42", "", "x y", "DNA"])).to_string());
        }
        for (i, f) in fields.iter().enumerate() {
            if i > 0 {
                out.push(b',');
            }
            put(&mut out, f.as_bytes(), quote_all);
        }
        out.extend(term);
    }
    out
}

/// the `mcsv` line of a case: the rows `Record::from_sig` gives for its signatures, written as a
/// respelled CSV document; sometimes permuted / thinned out / with repeated rows, and (`junk`) with
/// rows whose molecule name the crate does not know
fn gen_mcsv(r: &mut Rng, lines: &[String], junk: bool) -> (String, usize) {
    let mut st = St::default();
    for l in lines {
        let ws: Vec<&str> = l.split(' ').collect();
        step(&mut st, &ws);
    }
    let base: Vec<Vec<String>> = all_rows(&st)
        .iter()
        .map(|rec| {
            vec![
                rec.internal_location().to_string(),
                rec.md5().clone(),
                rec.md5()[0..8].to_string(),
                rec.ksize().to_string(),
                rec.moltype().to_string(),
                rec.num().to_string(),
                rec.scaled().to_string(),
                rec.n_hashes().to_string(),
                (rec.with_abundance() as u8).to_string(),
                rec.name().clone(),
                rec.filename().clone(),
            ]
        })
        .collect();
    let n = base.len() as u64;
    let mut map: Vec<u64> = (0..n).collect();
    if n > 0 && r.chance(1, 3) {
        map = (0..r.range(0, n + 2)).map(|_| r.below(n)).collect();
    }
    let mut recs: Vec<Vec<String>> = map.iter().map(|&i| base[i as usize].clone()).collect();
    if junk && n > 0 {
        for _ in 0..r.range(1, 2) {
            let mut row = r.pick(&base).clone();
            row[4] = (*r.pick(&["rna", "", "DNA ", "prot", "dayhof", "hp2", "custom"])).to_string();
            let at = r.below(recs.len() as u64 + 1) as usize;
            recs.insert(at, row);
            map.insert(at, 999_999);
        }
    }
    (format!("mcsv {} {}", hex(&render_csv(r, &recs)), show_nats(map)), recs.len())
}

fn gen(a: &Args) {
    let mut r = Rng::new(a.seed);
    let mut o = Out::new();
    let ncases = if a.cases > 0 {
        a.cases
    } else if a.tier == "thorough" {
        6000
    } else {
        420
    };
    for _ in 0..ncases {
        let kind = match r.below(15) {
            0..=5 => "free",
            6..=8 => "lookup",
            9 => "homog",
            // several scaled sketches of one signature: where the filter, the downsample pass and
            // the order of the sketches inside the signature meet
            10 | 11 => "ladder",
            // the manifest is read from a respelled CSV document (see `mcsv`)
            _ => "csv",
        };
        o.case(kind);
        let csv = kind == "csv";
        // flavour of a csv case: signatures as in `lookup` / `homog` (every row can be loaded), or
        // `free` with rows of unknown molecule names (selection only)
        let kind = if !csv {
            kind
        } else {
            match r.below(6) {
                0..=2 => "lookup",
                3 | 4 => "homog",
                _ => "free",
            }
        };
        let junk = csv && kind == "free";
        let mut case_lines: Vec<String> = vec![];
        let nsig = r.range(1, 4);
        let mut all: Vec<(u64, GSk)> = vec![];
        let mut per_sig: Vec<usize> = vec![];
        let (hres, hmol) = (*r.pick(&KS), *r.pick(&MOLS));
        for i in 0..nsig {
            let name = format!("s{}", i);
            let fname = if r.chance(1, 2) { hex(format!("f{}.sig", i).as_bytes()) } else { "~".into() };
            o.op(&format!("sig {} {}", hex(name.as_bytes()), fname));
            case_lines.push(format!("sig {} {}", hex(name.as_bytes()), fname));
            let mut sks: Vec<GSk> = vec![];
            match kind {
                "free" => {
                    let n = if r.chance(1, 10) { 0 } else { r.range(1, 4) };
                    for _ in 0..n {
                        let res = *r.pick(&KS);
                        let mol = *r.pick(&MOLS);
                        let tr = r.chance(1, 2);
                        sks.push(gen_sketch(&mut r, res, mol, tr));
                    }
                }
                "lookup" => {
                    // pairwise different (residue ksize, molecule, abundance) inside a signature
                    let n = r.range(1, 4);
                    let mut seen: Vec<(u64, &str, bool)> = vec![];
                    for _ in 0..n {
                        let key = (*r.pick(&KS), *r.pick(&MOLS), r.chance(1, 2));
                        if seen.contains(&key) {
                            continue;
                        }
                        seen.push(key);
                        sks.push(gen_sketch(&mut r, key.0, key.1, key.2));
                    }
                }
                "ladder" => {
                    let n = r.range(2, 4);
                    let (res, mol, tr) = (*r.pick(&KS[..2]), *r.pick(&MOLS), r.chance(1, 2));
                    for _ in 0..n {
                        let res = if r.chance(1, 5) { *r.pick(&KS[..2]) } else { res };
                        let mut sk = gen_sketch(&mut r, res, mol, tr);
                        if sk.scaled == 0 || sk.num != 0 {
                            sk = gen_sketch(&mut r, res, mol, tr);
                        }
                        sks.push(sk);
                    }
                }
                _ => {
                    // one ksize / molecule for the whole collection: at most tracked + untracked
                    let both = r.chance(1, 3);
                    let first = r.chance(1, 2);
                    sks.push(gen_sketch(&mut r, hres, hmol, first));
                    if both {
                        sks.push(gen_sketch(&mut r, hres, hmol, !first));
                    }
                }
            }
            for s in &sks {
                o.op(&s.line());
                case_lines.push(s.line());
            }
            per_sig.push(sks.len());
            all.extend(sks.into_iter().map(|s| (i, s)));
        }
        // rows of the manifest the collection-level requests work on
        let mut nrows = all.len();
        if csv {
            let (line, n) = gen_mcsv(&mut r, &case_lines, junk);
            o.op(&line);
            nrows = n;
        }
        // all 2^5 present/absent combinations, values mostly taken from the case
        let mut masks: Vec<u32> = (0..32).collect();
        // a few extra scaled-heavy requests: boundary is where the filter and the downsample meet
        for _ in 0..6 {
            masks.push(16 | (r.below(16) as u32));
        }
        for mask in masks {
            let (sel, home) = gen_sel(&mut r, mask, &all);
            let i = match home {
                Some(h) if !r.chance(1, 4) => h,
                _ => r.below(nsig),
            };
            match r.below(3) {
                0 => o.op(&format!("ssel {} {}", i, sel)),
                1 => o.op(&format!("stsel {} {}", i, sel)),
                _ => {
                    o.op(&format!("ssel {} {}", i, sel));
                    o.op(&format!("agree {} {}", i, sel));
                }
            }
            match r.below(if junk { 3 } else { 4 }) {
                0 => o.op(&format!("msel {}", sel)),
                1 => o.op(&format!("msel2 {}", sel)),
                2 => o.op(&format!("csel {}", sel)),
                _ => o.op(&format!("cset {}", sel)),
            }
            if csv && !junk && r.chance(1, 2) {
                o.op(&format!("msel {}", sel));
            }
            if kind == "lookup" || kind == "homog" {
                o.op(&format!("cload {}", sel));
            }
            // (LinearIndex::from_collection takes its template from dataset 0)
            if kind == "homog" && nrows > 0 {
                o.op(&format!("lsel {}", sel));
            }
        }
        // SigStore in every state: every route, read / not read / cloned before the selection
        let loadable = kind == "lookup" || kind == "homog";
        for _ in 0..r.range(8, 16) {
            let mask = if r.chance(1, 3) { 16 | r.below(16) as u32 } else { r.below(32) as u32 };
            let (sel, home) = gen_sel(&mut r, mask, &all);
            let mut route = *r.pick(&STORE_ROUTES);
            if r.chance(1, 3) {
                route = *r.pick(&["bmem", "bfs", "bzip"]);
            }
            let mut i = match home {
                Some(h) if !r.chance(1, 4) => h,
                _ => r.below(nsig),
            };
            if loadable && nrows > 0 && r.chance(1, 5) {
                route = *r.pick(if kind == "homog" { &["cfd", "cfr", "lin", "lin"][..] } else { &["cfd", "cfr"][..] });
                i = r.below(nrows as u64);
            }
            let prog = *r.pick(&STORE_PROGS);
            if r.chance(1, 3) {
                o.op(&format!("st {} {} {} {}", route, i, prog, sel));
            }
            o.op(&format!("stget {} {} {} {}", route, i, prog, sel));
        }
        // a history on one collection: selections after selections, after intersections, on the index
        // built over it, look-ups in between
        if !junk && r.chance(1, 2) {
            o.op("hnew");
            let mut lin = false;
            let mut n = nrows as u64;
            for _ in 0..r.range(3, 9) {
                let mask = match r.below(4) {
                    0 => 0,
                    1 | 2 => 1 << r.below(5),
                    _ => (1 << r.below(5)) | (1 << r.below(5)),
                } as u32;
                let (sel, _) = gen_sel(&mut r, mask, &all);
                match r.below(10) {
                    0..=2 => o.op(&format!("hsel {}", sel)),
                    3 => o.op(&format!("hmsel {}", sel)),
                    4 if !lin && nrows > 0 => {
                        let keep: Vec<u64> = (0..nrows as u64).filter(|_| !r.chance(1, 3)).collect();
                        o.op(&format!("hisect {}", show_nats(keep)));
                    }
                    5 | 6 if !lin && (kind == "homog" || r.chance(1, 6)) => {
                        o.op("hlin");
                        lin = true;
                    }
                    5 | 6 if lin && r.chance(1, 2) => {
                        o.op("hcoll");
                        lin = false;
                    }
                    _ if loadable => {
                        n = n.max(1);
                        o.op(&format!("hget {} {}", r.below(n), sel));
                    }
                    _ => o.op(&format!("hsel {}", sel)),
                }
            }
        }
    }
}

const STORE_ROUTES: [&str; 10] = ["from", "nws", "lmem", "lfs", "lzip", "bmem", "bfs", "bzip", "dsi", "def"];
const STORE_PROGS: [&str; 14] = ["s", "s", "s", "rs", "rs", "ks", "Ks", "rks", "krs", "ss", "srs", "es", "rse", "r"];

// ------------------------------------------------------------------ exec

#[derive(Default)]
struct St {
    sigs: Vec<Signature>,
    /// the manifest read by `mcsv`, if the case has one
    csv: Option<Manifest>,
    /// bumped by every `sig` / `sk` line: the storages are rebuilt when the signatures changed
    version: u64,
    backing: Option<Backing>,
    /// the collection of `hnew` (its manifest as `hnew` saw it, and what became of it)
    orig: Vec<Record>,
    hist: Option<Hist>,
}

enum Hist {
    Coll(Collection),
    Lin(LinearIndex),
}

/// the case's signatures, signature i under the path `s<i>.sig`, in memory, filesystem and zip storage
struct Backing {
    version: u64,
    _dir: tempfile::TempDir,
    mem: InnerStorage,
    fs: InnerStorage,
    zip: InnerStorage,
}

fn crc32(data: &[u8]) -> u32 {
    let mut c = 0xFFFF_FFFFu32;
    for &b in data {
        c ^= b as u32;
        for _ in 0..8 {
            c = if c & 1 != 0 { (c >> 1) ^ 0xEDB8_8320 } else { c >> 1 };
        }
    }
    !c
}

/// a zip archive with stored (uncompressed) entries - the crate only reads zips (`piz`), it has no writer
fn zip_bytes(entries: &[(String, Vec<u8>)]) -> Vec<u8> {
    let mut out: Vec<u8> = vec![];
    let mut central: Vec<u8> = vec![];
    for (name, data) in entries {
        let off = out.len() as u32;
        let crc = crc32(data);
        let mut common: Vec<u8> = vec![];
        common.extend(20u16.to_le_bytes()); // version needed
        common.extend(0x0800u16.to_le_bytes()); // flags: UTF-8 names
        common.extend(0u16.to_le_bytes()); // method: stored
        common.extend(0u16.to_le_bytes()); // time
        common.extend(0x21u16.to_le_bytes()); // date 1980-01-01
        common.extend(crc.to_le_bytes());
        common.extend((data.len() as u32).to_le_bytes());
        common.extend((data.len() as u32).to_le_bytes());
        common.extend((name.len() as u16).to_le_bytes());
        common.extend(0u16.to_le_bytes()); // extra length
        out.extend(0x0403_4b50u32.to_le_bytes());
        out.extend(&common);
        out.extend(name.as_bytes());
        out.extend(data);
        central.extend(0x0201_4b50u32.to_le_bytes());
        central.extend(20u16.to_le_bytes()); // version made by
        central.extend(&common);
        central.extend(0u16.to_le_bytes()); // comment length
        central.extend(0u16.to_le_bytes()); // disk number
        central.extend(0u16.to_le_bytes()); // internal attributes
        central.extend(0u32.to_le_bytes()); // external attributes
        central.extend(off.to_le_bytes());
        central.extend(name.as_bytes());
    }
    let cd_off = out.len() as u32;
    out.extend(&central);
    out.extend(0x0605_4b50u32.to_le_bytes());
    out.extend(0u16.to_le_bytes());
    out.extend(0u16.to_le_bytes());
    out.extend((entries.len() as u16).to_le_bytes());
    out.extend((entries.len() as u16).to_le_bytes());
    out.extend((central.len() as u32).to_le_bytes());
    out.extend(cd_off.to_le_bytes());
    out.extend(0u16.to_le_bytes());
    out
}

fn backing(st: &mut St) -> &Backing {
    if st.backing.as_ref().map(|b| b.version) != Some(st.version) {
        let dir = verif_harness::index_util::scratch_dir();
        let mem = MemStorage::new();
        let fs = FSStorage::new(dir.path().join("fs").to_str().unwrap(), "");
        let mut entries: Vec<(String, Vec<u8>)> = vec![];
        for (i, sig) in st.sigs.iter().enumerate() {
            let path = format!("s{}.sig", i);
            mem.save_sig(&path, sig.clone()).unwrap();
            fs.save_sig(&path, sig.clone()).unwrap();
            entries.push((path, serde_json::to_vec(&vec![sig]).unwrap()));
        }
        let zp = dir.path().join("c.zip");
        std::fs::write(&zp, zip_bytes(&entries)).unwrap();
        let zip = ZipStorage::from_file(camino::Utf8PathBuf::from_path_buf(zp).unwrap()).unwrap();
        st.backing = Some(Backing {
            version: st.version,
            _dir: dir,
            mem: InnerStorage::new(mem),
            fs: InnerStorage::new(fs),
            zip: InnerStorage::new(zip),
        });
    }
    st.backing.as_ref().unwrap()
}

fn err_name<E: std::fmt::Debug>(e: E) -> String {
    let s = format!("{:?}", e);
    format!("err {}", s.chars().take_while(|c| c.is_alphanumeric()).collect::<String>())
}

/// the store of a `st` / `stget` line before its program runs
fn make_store(st: &mut St, route: &str, i: usize) -> Result<SigStore, String> {
    let path = format!("s{}.sig", i);
    let lazy = |storage: &InnerStorage, sig: &Signature| -> SigStore {
        SigStore::builder()
            .filename(path.clone())
            .name(sig.name())
            .metadata("")
            .storage(Some(storage.clone()))
            .build()
    };
    Ok(match route {
        "from" => SigStore::from(st.sigs[i].clone()),
        "nws" => {
            let sig = st.sigs[i].clone();
            SigStore::new_with_storage(sig, backing(st).mem.clone())
        }
        "lmem" | "lfs" | "lzip" | "bmem" | "bfs" | "bzip" => {
            let sig = st.sigs[i].clone();
            let b = backing(st);
            let storage = match &route[1..] {
                "mem" => &b.mem,
                "fs" => &b.fs,
                _ => &b.zip,
            };
            if route.starts_with('l') {
                storage.load_sig(&path).map_err(err_name)?
            } else {
                lazy(storage, &sig)
            }
        }
        "dsi" => {
            let sig = &st.sigs[i];
            SigStore::from(DatasetInfo { filename: path.clone(), name: sig.name(), metadata: "".into() })
        }
        "def" => {
            let _ = &st.sigs[i];
            SigStore::default()
        }
        "cfd" => collection(st).sig_for_dataset(i as u32).map_err(err_name)?,
        "cfr" => {
            let c = collection(st);
            let rec = c.manifest()[i].clone();
            c.sig_from_record(&rec).map_err(err_name)?
        }
        "lin" => {
            let cs = CollectionSet::try_from(collection(st)).map_err(err_name)?;
            LinearIndex::from_collection(cs).sig_for_dataset(i as u32).map_err(err_name)?
        }
        _ => return Err("bad-op".into()),
    })
}

/// run the letters of `prog` on the store; `retry`: a refused select is answered by `data()` + select
fn run_prog(mut s: SigStore, prog: &str, sel: &Selection, retry: bool) -> String {
    for c in prog.chars() {
        match c {
            'r' => {
                let _ = s.data();
            }
            'k' => s = s.clone(),
            'K' => {
                let c = s.clone();
                let _ = c.data();
            }
            's' | 'e' => {
                let empty = Selection::default();
                let x = if c == 's' { sel } else { &empty };
                let spare = if retry { Some(s.clone()) } else { None };
                s = match s.select(x) {
                    Ok(s) => s,
                    Err(e) => match spare {
                        None => return err_name(e),
                        Some(spare) => {
                            if let Err(e) = spare.data() {
                                return err_name(e);
                            }
                            match spare.select(x) {
                                Ok(s) => s,
                                Err(e) => return err_name(e),
                            }
                        }
                    },
                };
            }
            _ => return "bad-op".into(),
        }
    }
    match s.data() {
        Ok(sig) => format!("ok {}", descr_sig(sig)),
        Err(e) => err_name(e),
    }
}

fn build_sketch(ws: &[&str], j: usize) -> Sketch {
    let n = |i: usize| -> u64 { ws[i].parse().unwrap() };
    let (ksize, mol, num, scaled, tracked, cont) = (n(1), ws[2], n(3), n(4), ws[5] == "1", ws[6]);
    let mins = parse_nats(ws[7]);
    let abunds = parse_nats(ws[8]);
    let seed = SEED0 + j as u64;
    if cont == "v" {
        let mut mh = KmerMinHash::new(scaled, ksize as u32, hf(mol), seed, tracked, num as u32);
        for (i, h) in mins.iter().enumerate() {
            mh.add_hash_with_abundance(*h, if tracked { abunds[i] } else { 1 });
        }
        Sketch::MinHash(mh)
    } else {
        let mut mh = KmerMinHashBTree::new(scaled, ksize as u32, hf(mol), seed, tracked, num as u32);
        for (i, h) in mins.iter().enumerate() {
            mh.add_hash_with_abundance(*h, if tracked { abunds[i] } else { 1 });
        }
        Sketch::LargeMinHash(mh)
    }
}

fn descr(s: &Sketch) -> String {
    let (seed, ksize, h, num, scaled, tracked, c, mins, abunds) = match s {
        Sketch::MinHash(mh) => (
            mh.seed(),
            mh.ksize(),
            mh.hash_function(),
            mh.num(),
            mh.scaled(),
            mh.track_abundance(),
            'v',
            mh.mins(),
            mh.abunds(),
        ),
        Sketch::LargeMinHash(mh) => (
            mh.seed(),
            mh.ksize(),
            mh.hash_function(),
            mh.num(),
            mh.scaled(),
            mh.track_abundance(),
            't',
            mh.mins(),
            mh.abunds(),
        ),
        _ => panic!("sketch type"),
    };
    format!(
        "{}/{}/{}/{}/{}/{}/{}/{}/{}/{}",
        seed - SEED0,
        ksize,
        mol_name(&h),
        num,
        scaled,
        tracked as u8,
        c,
        mins.len(),
        show_nats(mins),
        show_nats(abunds.unwrap_or_default())
    )
}

fn descr_sig(sig: &Signature) -> String {
    let v: Vec<String> = sig.iter().map(descr).collect();
    if v.is_empty() {
        "-".into()
    } else {
        v.join(";")
    }
}

fn parse_sel(ws: &[&str]) -> Selection {
    let mut sel = Selection::default();
    if ws[0] != "-" {
        sel.set_ksize(ws[0].parse().unwrap());
    }
    if ws[1] != "-" {
        sel.set_moltype(hf(ws[1]));
    }
    if ws[2] != "-" {
        sel.set_abund(ws[2] == "1");
    }
    if ws[3] != "-" {
        sel.set_num(ws[3].parse().unwrap());
    }
    if ws[4] != "-" {
        sel.set_scaled(ws[4].parse().unwrap());
    }
    sel
}

fn same_row(a: &Record, b: &Record) -> bool {
    a == b && a.internal_location() == b.internal_location()
}

/// rows of `kept` printed with their position in `orig` (leftmost order-preserving embedding)
fn rows(orig: &[Record], kept: &[Record]) -> String {
    let mut p = 0usize;
    let mut out = vec![];
    for r in kept {
        while p < orig.len() && !same_row(&orig[p], r) {
            p += 1;
        }
        let g = if p < orig.len() { p.to_string() } else { "?".into() };
        p += 1;
        out.push(format!(
            "{}:{}:{}:{}:{}:{}:{}:{}",
            g,
            r.internal_location(),
            r.ksize(),
            raw_mol(r),
            r.num(),
            r.scaled(),
            r.with_abundance() as u8,
            r.n_hashes()
        ));
    }
    if out.is_empty() {
        "-".into()
    } else {
        out.join(";")
    }
}

/// the molecule type a row names, without `Record::moltype()`'s panic on an unknown name (the raw
/// column has no getter; serde is the way to it)
fn raw_mol(r: &Record) -> &'static str {
    let v = serde_json::to_value(r).unwrap();
    match v["moltype"].as_str().unwrap().to_lowercase().as_str() {
        "dna" => "dna",
        "protein" => "protein",
        "dayhoff" => "dayhoff",
        "hp" => "hp",
        _ => "custom",
    }
}

fn all_rows(st: &St) -> Vec<Record> {
    if let Some(m) = &st.csv {
        return m.iter().cloned().collect();
    }
    st.sigs
        .iter()
        .enumerate()
        .flat_map(|(i, s)| Record::from_sig(s, &i.to_string()))
        .collect()
}

/// the collection of the case: `Collection::from_sigs`, or the manifest read by `mcsv` over a memory
/// storage holding the signatures under their positions
fn collection(st: &St) -> Collection {
    match &st.csv {
        None => Collection::from_sigs(st.sigs.clone()).unwrap(),
        Some(m) => {
            let storage = MemStorage::new();
            for (i, sig) in st.sigs.iter().enumerate() {
                storage.save_sig(&i.to_string(), sig.clone()).unwrap();
            }
            Collection::new(m.clone(), InnerStorage::new(storage))
        }
    }
}

fn step(st: &mut St, ws: &[&str]) -> String {
    match ws[0] {
        "case" => "ok".into(),
        "sig" => {
            let mut sig = Signature::default();
            if ws[1] != "~" {
                sig.set_name(std::str::from_utf8(&unhex(ws[1])).unwrap());
            }
            if ws[2] != "~" {
                sig.set_filename(std::str::from_utf8(&unhex(ws[2])).unwrap());
            }
            st.sigs.push(sig);
            st.version += 1;
            "ok".into()
        }
        "sk" => {
            let sig = st.sigs.last_mut().unwrap();
            let sk = build_sketch(ws, sig.size());
            let d = descr(&sk);
            sig.push(sk);
            st.version += 1;
            d
        }
        "mcsv" => match Manifest::from_reader(&unhex(ws[1])[..]) {
            Ok(m) => {
                let v: Vec<String> = m
                    .iter()
                    .map(|r| {
                        let raw = serde_json::to_value(r).unwrap()["moltype"].as_str().unwrap().to_string();
                        format!(
                            "{}:{}:{}:{}:{}:{}:{}",
                            r.internal_location(),
                            r.ksize(),
                            hex(raw.as_bytes()),
                            r.num(),
                            r.scaled(),
                            r.with_abundance() as u8,
                            r.n_hashes()
                        )
                    })
                    .collect();
                st.csv = Some(m);
                if v.is_empty() {
                    "-".into()
                } else {
                    v.join(";")
                }
            }
            Err(_) => "err CsvError".into(),
        },
        "ssel" => {
            let sig = st.sigs[ws[1].parse::<usize>().unwrap()].clone();
            match sig.select(&parse_sel(&ws[2..])) {
                Ok(s) => descr_sig(&s),
                Err(e) => format!("err {:?}", e),
            }
        }
        "stsel" => {
            let sig: SigStore = st.sigs[ws[1].parse::<usize>().unwrap()].clone().into();
            match sig.select(&parse_sel(&ws[2..])) {
                Ok(s) => descr_sig(&Signature::from(s)),
                Err(e) => format!("err {:?}", e),
            }
        }
        "msel" | "msel2" => {
            let orig = all_rows(st);
            let sel = parse_sel(&ws[1..]);
            let mut m = Manifest::from(orig.clone()).select(&sel).unwrap();
            if ws[0] == "msel2" {
                m = m.select(&sel).unwrap();
            }
            let kept: Vec<Record> = m.iter().cloned().collect();
            rows(&orig, &kept)
        }
        "csel" => {
            let c = collection(st);
            let orig: Vec<Record> = c.manifest().iter().cloned().collect();
            let c = c.select(&parse_sel(&ws[1..])).unwrap();
            let kept: Vec<Record> = c.manifest().iter().cloned().collect();
            rows(&orig, &kept)
        }
        "cset" => {
            let c = collection(st);
            let c = c.select(&parse_sel(&ws[1..])).unwrap();
            match CollectionSet::try_from(c) {
                Ok(cs) => format!("ok {}", cs.len()),
                Err(e) => format!("err {:?}", e),
            }
        }
        "lsel" => {
            let c = collection(st);
            let orig: Vec<Record> = c.manifest().iter().cloned().collect();
            let idx = LinearIndex::from_collection(CollectionSet::try_from(c).unwrap());
            match idx.select(&parse_sel(&ws[1..])) {
                Ok(idx) => {
                    let kept: Vec<Record> = idx.collection().manifest().iter().cloned().collect();
                    rows(&orig, &kept)
                }
                Err(e) => format!("err {:?}", e),
            }
        }
        "cload" => {
            let sel = parse_sel(&ws[1..]);
            let c = collection(st).select(&sel).unwrap();
            let mut out = vec![];
            for (_, rec) in c.iter() {
                let loaded = c.sig_from_record(rec).and_then(|s| s.select(&sel));
                out.push(match loaded {
                    Ok(s) => format!("{}={}", rec.internal_location(), descr_sig(&Signature::from(s))),
                    Err(e) => format!("err {:?}", e),
                });
            }
            if out.is_empty() {
                "-".into()
            } else {
                out.join("|")
            }
        }
        "agree" => {
            let i = ws[1].parse::<usize>().unwrap();
            let sel = parse_sel(&ws[2..]);
            let sig = st.sigs[i].clone();
            let recs = Record::from_sig(&sig, "x");
            let kept_rows: Vec<Record> =
                Manifest::from(recs.clone()).select(&sel).unwrap().iter().cloned().collect();
            // positions: rows of one signature are told apart by their position, so embed leftmost
            let mut p = 0usize;
            let mut mpos = vec![];
            for r in &kept_rows {
                while p < recs.len() && !same_row(&recs[p], r) {
                    p += 1;
                }
                mpos.push(p as u64);
                p += 1;
            }
            let kept = sig.clone().select(&sel).unwrap();
            let spos: Vec<u64> = kept
                .iter()
                .map(|s| match s {
                    Sketch::MinHash(mh) => mh.seed() - SEED0,
                    Sketch::LargeMinHash(mh) => mh.seed() - SEED0,
                    _ => panic!(),
                })
                .collect();
            format!("m={} s={}", show_nats(mpos), show_nats(spos))
        }
        "st" | "stget" => {
            let sel = parse_sel(&ws[4..]);
            match make_store(st, ws[1], ws[2].parse().unwrap()) {
                Ok(s) => run_prog(s, ws[3], &sel, ws[0] == "stget"),
                Err(e) => e,
            }
        }
        "hnew" => {
            let c = collection(st);
            st.orig = c.manifest().iter().cloned().collect();
            let out = rows(&st.orig, &st.orig);
            st.hist = Some(Hist::Coll(c));
            out
        }
        "hsel" => {
            let sel = parse_sel(&ws[1..]);
            match st.hist.take() {
                None => "none".into(),
                Some(Hist::Coll(c)) => match c.select(&sel) {
                    Ok(c) => {
                        let kept: Vec<Record> = c.manifest().iter().cloned().collect();
                        st.hist = Some(Hist::Coll(c));
                        rows(&st.orig, &kept)
                    }
                    Err(e) => err_name(e),
                },
                Some(Hist::Lin(l)) => match l.select(&sel) {
                    Ok(l) => {
                        let kept: Vec<Record> = l.collection().manifest().iter().cloned().collect();
                        st.hist = Some(Hist::Lin(l));
                        rows(&st.orig, &kept)
                    }
                    Err(e) => err_name(e),
                },
            }
        }
        "hmsel" => {
            let sel = parse_sel(&ws[1..]);
            let m: Manifest = match &st.hist {
                None => return "none".into(),
                Some(Hist::Coll(c)) => c.manifest().clone(),
                Some(Hist::Lin(l)) => l.collection().manifest().clone(),
            };
            let kept: Vec<Record> = m.select(&sel).unwrap().iter().cloned().collect();
            rows(&st.orig, &kept)
        }
        "hisect" => {
            let other: Vec<Record> = parse_nats(ws[1]).into_iter().map(|i| st.orig[i as usize].clone()).collect();
            match &mut st.hist {
                None => "none".into(),
                Some(Hist::Lin(_)) => "bad-state".into(),
                Some(Hist::Coll(c)) => {
                    c.intersect_manifest(&Manifest::from(other));
                    let kept: Vec<Record> = c.manifest().iter().cloned().collect();
                    rows(&st.orig, &kept)
                }
            }
        }
        "hlin" => match st.hist.take() {
            None => "none".into(),
            Some(Hist::Lin(l)) => {
                st.hist = Some(Hist::Lin(l));
                "bad-state".into()
            }
            Some(Hist::Coll(c)) => match CollectionSet::try_from(c) {
                Err(e) => err_name(e),
                Ok(cs) if cs.is_empty() => {
                    // (LinearIndex::from_collection takes its template from dataset 0)
                    st.hist = Some(Hist::Coll(cs.into_inner()));
                    "empty".into()
                }
                Ok(cs) => {
                    let l = LinearIndex::from_collection(cs);
                    let n = l.collection().len();
                    st.hist = Some(Hist::Lin(l));
                    format!("ok {}", n)
                }
            },
        },
        "hcoll" => match st.hist.take() {
            None => "none".into(),
            Some(Hist::Coll(c)) => {
                st.hist = Some(Hist::Coll(c));
                "bad-state".into()
            }
            Some(Hist::Lin(l)) => {
                let c = l.collection().clone().into_inner();
                let n = c.len();
                st.hist = Some(Hist::Coll(c));
                format!("ok {}", n)
            }
        },
        "hget" => {
            let j: u32 = ws[1].parse().unwrap();
            let sel = parse_sel(&ws[2..]);
            let (loaded, loc) = match &st.hist {
                None => return "none".into(),
                Some(Hist::Coll(c)) => (c.sig_for_dataset(j), c.manifest()[j as usize].internal_location().to_string()),
                Some(Hist::Lin(l)) => {
                    (l.sig_for_dataset(j), l.collection().manifest()[j as usize].internal_location().to_string())
                }
            };
            match loaded.and_then(|s| s.select(&sel)) {
                Ok(s) => match s.data() {
                    Ok(sig) => format!("{}={}", loc, descr_sig(sig)),
                    Err(e) => err_name(e),
                },
                Err(e) => err_name(e),
            }
        }
        _ => "bad-op".into(),
    }
}

fn main() {
    let a = args();
    match a.mode.as_str() {
        "gen" => gen(&a),
        "exec" => exec_loop(St::default, step),
        _ => panic!("mode"),
    }
}
