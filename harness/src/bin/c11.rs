//! C11: selection keeps exactly the sketches that satisfy the request.
//!
//! Request lines (one case = one collection of signatures, then selections on it):
//!   sig <name hex|~> <filename hex|~>                      start a new signature
//!   sk <ksize> <mol> <num> <scaled> <tracked> <v|t> <mins> <abunds>   add a sketch to it (echo)
//!   ssel i SEL | stsel i SEL        Signature::select / SigStore::select on signature i
//!   msel SEL | msel2 SEL            Manifest::select on the concatenated Record::from_sig rows (once / twice)
//!   csel SEL                        Collection::from_sigs(..).select
//!   cset SEL                        CollectionSet::try_from(collection.select)
//!   lsel SEL                        LinearIndex::select (homogeneous cases)
//!   cload SEL                       collection.select, then sig_from_record(rec).select per surviving row
//!   agree i SEL                     positions retained at manifest level vs. at signature level
//! SEL = <ksize|-> <mol|-> <abund|-> <num|-> <scaled|->
use sourmash::collection::{Collection, CollectionSet};
use sourmash::encodings::HashFunctions;
use sourmash::index::linear::LinearIndex;
use sourmash::manifest::{Manifest, Record};
use sourmash::prelude::*;
use sourmash::selection::Selection;
use sourmash::signature::{Signature, SigsTrait};
use sourmash::sketch::minhash::{max_hash_for_scaled, KmerMinHash, KmerMinHashBTree};
use sourmash::sketch::Sketch;
use sourmash::storage::SigStore;
use verif_harness::*;

const SEED0: u64 = 1000;
const MOLS: [&str; 4] = ["dna", "protein", "dayhoff", "hp"];

fn hf(m: &str) -> HashFunctions {
    match m {
        "dna" => HashFunctions::Murmur64Dna,
        "protein" => HashFunctions::Murmur64Protein,
        "dayhoff" => HashFunctions::Murmur64Dayhoff,
        "hp" => HashFunctions::Murmur64Hp,
        _ => panic!("mol"),
    }
}
fn mol_name(h: &HashFunctions) -> &'static str {
    match h {
        HashFunctions::Murmur64Dna => "dna",
        HashFunctions::Murmur64Protein => "protein",
        HashFunctions::Murmur64Dayhoff => "dayhoff",
        HashFunctions::Murmur64Hp => "hp",
        _ => "custom",
    }
}

// ------------------------------------------------------------------ generator

#[derive(Clone)]
struct GSk {
    ksize: u64, // stored
    mol: &'static str,
    num: u64,
    scaled: u64,
    tracked: bool,
    cont: char,
    mins: Vec<u64>,
    abunds: Vec<u64>,
}
impl GSk {
    fn residues(&self) -> u64 {
        if self.mol == "dna" {
            self.ksize
        } else {
            self.ksize / 3
        }
    }
    fn line(&self) -> String {
        format!(
            "sk {} {} {} {} {} {} {} {}",
            self.ksize,
            self.mol,
            self.num,
            self.scaled,
            self.tracked as u8,
            self.cont,
            show_nats(self.mins.iter().cloned()),
            show_nats(self.abunds.iter().cloned())
        )
    }
}

const KS: [u64; 4] = [7, 10, 21, 31];
const SCALEDS: [u64; 9] = [1, 2, 3, 100, 1000, 1001, 2000, 1 << 31, (1 << 32) - 1];
const NUMS: [u64; 4] = [1, 3, 5, 500];

fn gen_sketch(r: &mut Rng, res: u64, mol: &'static str, tracked: bool) -> GSk {
    let ksize = if mol == "dna" { res } else { res * 3 };
    let kind = r.below(100);
    let (num, scaled) = if kind < 50 {
        (0, *r.pick(&SCALEDS))
    } else if kind < 88 {
        (*r.pick(&NUMS), 0)
    } else if kind < 94 {
        (*r.pick(&NUMS), *r.pick(&SCALEDS)) // both set
    } else if kind < 97 {
        (0, 0) // accepts nothing
    } else {
        (0, r.range(1u64 << 32, 1u64 << 40)) // scaled beyond any u32 request
    };
    let mh = max_hash_for_scaled(scaled);
    let mut cand: Vec<u64> = vec![];
    let want = r.below(7);
    for _ in 0..want {
        let v = match r.below(4) {
            0 => r.range(0, 20),
            1 => {
                // around the ceiling of some scaled value a request may carry
                let s = *r.pick(&SCALEDS) + r.below(2);
                let c = max_hash_for_scaled(s);
                match r.below(3) {
                    0 => c,
                    1 => c.saturating_sub(1),
                    _ => c.saturating_add(1),
                }
            }
            2 => r.bits(64),
            _ => {
                if mh > 0 {
                    r.range(0, mh.min(u64::MAX - 1))
                } else {
                    r.bits(40)
                }
            }
        };
        cand.push(v);
    }
    cand.sort();
    cand.dedup();
    if scaled != 0 {
        cand.retain(|&h| h <= mh);
    }
    if num != 0 {
        cand.truncate(num as usize);
    }
    if num == 0 && scaled == 0 {
        cand.clear();
    }
    let abunds = if tracked { cand.iter().map(|_| r.range(1, 5)).collect() } else { vec![] };
    GSk {
        ksize,
        mol,
        num,
        scaled,
        tracked,
        cont: if r.chance(1, 2) { 'v' } else { 't' },
        mins: cand,
        abunds,
    }
}

fn opt<T: std::fmt::Display>(o: &Option<T>) -> String {
    match o {
        Some(v) => v.to_string(),
        None => "-".into(),
    }
}

fn gen_sel(r: &mut Rng, mask: u32, sks: &[(u64, GSk)]) -> (String, Option<u64>) {
    // most requests are built around one sketch of the case (so that conjunctions are satisfiable),
    // with single criteria knocked off it
    let pool: Vec<&(u64, GSk)> = if mask & 16 != 0 && !r.chance(1, 5) {
        sks.iter().filter(|s| s.1.scaled != 0).collect()
    } else if mask & 8 != 0 && mask & 16 == 0 && !r.chance(1, 5) {
        sks.iter().filter(|s| s.1.num != 0).collect()
    } else {
        sks.iter().collect()
    };
    let based: Option<(u64, GSk)> = if pool.is_empty() || r.chance(1, 8) { None } else { Some((*r.pick(&pool)).clone()) };
    let base: Option<GSk> = based.as_ref().map(|b| b.1.clone());
    let mut from_case = |r: &mut Rng| -> Option<GSk> {
        match &base {
            Some(b) if !r.chance(1, 8) => Some(b.clone()),
            _ => None,
        }
    };
    let k = if mask & 1 != 0 {
        Some(match from_case(r) {
            Some(s) => {
                if r.chance(1, 8) {
                    s.ksize // the stored value: what a request for a protein sketch must NOT use
                } else {
                    s.residues()
                }
            }
            None => *r.pick(&KS),
        })
    } else {
        None
    };
    let m = if mask & 2 != 0 {
        Some(match from_case(r) {
            Some(s) => s.mol,
            None => *r.pick(&MOLS),
        })
    } else {
        None
    };
    let a = if mask & 4 != 0 {
        Some(match from_case(r) {
            Some(s) => s.tracked as u8,
            None => r.below(2) as u8,
        })
    } else {
        None
    };
    let n = if mask & 8 != 0 {
        Some(match from_case(r) {
            Some(s) => s.num,
            None => *r.pick(&[0u64, 1, 3, 5, 500, 501]),
        })
    } else {
        None
    };
    let s = if mask & 16 != 0 {
        let base = match from_case(r) {
            Some(s) if s.scaled != 0 => s.scaled,
            _ => *r.pick(&SCALEDS),
        };
        let v = match r.below(8) {
            0 => base.saturating_sub(1),
            1 => base + 1,
            2 => base.saturating_mul(2),
            3 => 0,
            4 => *r.pick(&SCALEDS),
            _ => base,
        };
        Some(v.min(u32::MAX as u64))
    } else {
        None
    };
    (format!("{} {} {} {} {}", opt(&k), opt(&m), opt(&a), opt(&n), opt(&s)), based.map(|b| b.0))
}

fn gen(a: &Args) {
    let mut r = Rng::new(a.seed);
    let mut o = Out::new();
    let ncases = if a.cases > 0 {
        a.cases
    } else if a.tier == "thorough" {
        6000
    } else {
        420
    };
    for _ in 0..ncases {
        let kind = match r.below(12) {
            0..=5 => "free",
            6..=8 => "lookup",
            9 => "homog",
            // several scaled sketches of one signature: where the filter, the downsample pass and
            // the order of the sketches inside the signature meet
            _ => "ladder",
        };
        o.case(kind);
        let nsig = r.range(1, 4);
        let mut all: Vec<(u64, GSk)> = vec![];
        let mut per_sig: Vec<usize> = vec![];
        let (hres, hmol) = (*r.pick(&KS), *r.pick(&MOLS));
        for i in 0..nsig {
            let name = format!("s{}", i);
            let fname = if r.chance(1, 2) { hex(format!("f{}.sig", i).as_bytes()) } else { "~".into() };
            o.op(&format!("sig {} {}", hex(name.as_bytes()), fname));
            let mut sks: Vec<GSk> = vec![];
            match kind {
                "free" => {
                    let n = if r.chance(1, 10) { 0 } else { r.range(1, 4) };
                    for _ in 0..n {
                        let res = *r.pick(&KS);
                        let mol = *r.pick(&MOLS);
                        let tr = r.chance(1, 2);
                        sks.push(gen_sketch(&mut r, res, mol, tr));
                    }
                }
                "lookup" => {
                    // pairwise different (residue ksize, molecule, abundance) inside a signature
                    let n = r.range(1, 4);
                    let mut seen: Vec<(u64, &str, bool)> = vec![];
                    for _ in 0..n {
                        let key = (*r.pick(&KS), *r.pick(&MOLS), r.chance(1, 2));
                        if seen.contains(&key) {
                            continue;
                        }
                        seen.push(key);
                        sks.push(gen_sketch(&mut r, key.0, key.1, key.2));
                    }
                }
                "ladder" => {
                    let n = r.range(2, 4);
                    let (res, mol, tr) = (*r.pick(&KS[..2]), *r.pick(&MOLS), r.chance(1, 2));
                    for _ in 0..n {
                        let res = if r.chance(1, 5) { *r.pick(&KS[..2]) } else { res };
                        let mut sk = gen_sketch(&mut r, res, mol, tr);
                        if sk.scaled == 0 || sk.num != 0 {
                            sk = gen_sketch(&mut r, res, mol, tr);
                        }
                        sks.push(sk);
                    }
                }
                _ => {
                    // one ksize / molecule for the whole collection: at most tracked + untracked
                    let both = r.chance(1, 3);
                    let first = r.chance(1, 2);
                    sks.push(gen_sketch(&mut r, hres, hmol, first));
                    if both {
                        sks.push(gen_sketch(&mut r, hres, hmol, !first));
                    }
                }
            }
            for s in &sks {
                o.op(&s.line());
            }
            per_sig.push(sks.len());
            all.extend(sks.into_iter().map(|s| (i, s)));
        }
        // all 2^5 present/absent combinations, values mostly taken from the case
        let mut masks: Vec<u32> = (0..32).collect();
        // a few extra scaled-heavy requests: boundary is where the filter and the downsample meet
        for _ in 0..6 {
            masks.push(16 | (r.below(16) as u32));
        }
        for mask in masks {
            let (sel, home) = gen_sel(&mut r, mask, &all);
            let i = match home {
                Some(h) if !r.chance(1, 4) => h,
                _ => r.below(nsig),
            };
            match r.below(3) {
                0 => o.op(&format!("ssel {} {}", i, sel)),
                1 => o.op(&format!("stsel {} {}", i, sel)),
                _ => {
                    o.op(&format!("ssel {} {}", i, sel));
                    o.op(&format!("agree {} {}", i, sel));
                }
            }
            match r.below(4) {
                0 => o.op(&format!("msel {}", sel)),
                1 => o.op(&format!("msel2 {}", sel)),
                2 => o.op(&format!("csel {}", sel)),
                _ => o.op(&format!("cset {}", sel)),
            }
            if kind == "lookup" || kind == "homog" {
                o.op(&format!("cload {}", sel));
            }
            if kind == "homog" && !all.is_empty() {
                o.op(&format!("lsel {}", sel));
            }
        }
    }
}

// ------------------------------------------------------------------ exec

#[derive(Default)]
struct St {
    sigs: Vec<Signature>,
}

fn build_sketch(ws: &[&str], j: usize) -> Sketch {
    let n = |i: usize| -> u64 { ws[i].parse().unwrap() };
    let (ksize, mol, num, scaled, tracked, cont) = (n(1), ws[2], n(3), n(4), ws[5] == "1", ws[6]);
    let mins = parse_nats(ws[7]);
    let abunds = parse_nats(ws[8]);
    let seed = SEED0 + j as u64;
    if cont == "v" {
        let mut mh = KmerMinHash::new(scaled, ksize as u32, hf(mol), seed, tracked, num as u32);
        for (i, h) in mins.iter().enumerate() {
            mh.add_hash_with_abundance(*h, if tracked { abunds[i] } else { 1 });
        }
        Sketch::MinHash(mh)
    } else {
        let mut mh = KmerMinHashBTree::new(scaled, ksize as u32, hf(mol), seed, tracked, num as u32);
        for (i, h) in mins.iter().enumerate() {
            mh.add_hash_with_abundance(*h, if tracked { abunds[i] } else { 1 });
        }
        Sketch::LargeMinHash(mh)
    }
}

fn descr(s: &Sketch) -> String {
    let (seed, ksize, h, num, scaled, tracked, c, mins, abunds) = match s {
        Sketch::MinHash(mh) => (
            mh.seed(),
            mh.ksize(),
            mh.hash_function(),
            mh.num(),
            mh.scaled(),
            mh.track_abundance(),
            'v',
            mh.mins(),
            mh.abunds(),
        ),
        Sketch::LargeMinHash(mh) => (
            mh.seed(),
            mh.ksize(),
            mh.hash_function(),
            mh.num(),
            mh.scaled(),
            mh.track_abundance(),
            't',
            mh.mins(),
            mh.abunds(),
        ),
        _ => panic!("sketch type"),
    };
    format!(
        "{}/{}/{}/{}/{}/{}/{}/{}/{}/{}",
        seed - SEED0,
        ksize,
        mol_name(&h),
        num,
        scaled,
        tracked as u8,
        c,
        mins.len(),
        show_nats(mins),
        show_nats(abunds.unwrap_or_default())
    )
}

fn descr_sig(sig: &Signature) -> String {
    let v: Vec<String> = sig.iter().map(descr).collect();
    if v.is_empty() {
        "-".into()
    } else {
        v.join(";")
    }
}

fn parse_sel(ws: &[&str]) -> Selection {
    let mut sel = Selection::default();
    if ws[0] != "-" {
        sel.set_ksize(ws[0].parse().unwrap());
    }
    if ws[1] != "-" {
        sel.set_moltype(hf(ws[1]));
    }
    if ws[2] != "-" {
        sel.set_abund(ws[2] == "1");
    }
    if ws[3] != "-" {
        sel.set_num(ws[3].parse().unwrap());
    }
    if ws[4] != "-" {
        sel.set_scaled(ws[4].parse().unwrap());
    }
    sel
}

fn same_row(a: &Record, b: &Record) -> bool {
    a == b && a.internal_location() == b.internal_location()
}

/// rows of `kept` printed with their position in `orig` (leftmost order-preserving embedding)
fn rows(orig: &[Record], kept: &[Record]) -> String {
    let mut p = 0usize;
    let mut out = vec![];
    for r in kept {
        while p < orig.len() && !same_row(&orig[p], r) {
            p += 1;
        }
        let g = if p < orig.len() { p.to_string() } else { "?".into() };
        p += 1;
        out.push(format!(
            "{}:{}:{}:{}:{}:{}:{}:{}",
            g,
            r.internal_location(),
            r.ksize(),
            mol_name(&r.moltype()),
            r.num(),
            r.scaled(),
            r.with_abundance() as u8,
            r.n_hashes()
        ));
    }
    if out.is_empty() {
        "-".into()
    } else {
        out.join(";")
    }
}

fn all_rows(st: &St) -> Vec<Record> {
    st.sigs
        .iter()
        .enumerate()
        .flat_map(|(i, s)| Record::from_sig(s, &i.to_string()))
        .collect()
}

fn step(st: &mut St, ws: &[&str]) -> String {
    match ws[0] {
        "case" => "ok".into(),
        "sig" => {
            let mut sig = Signature::default();
            if ws[1] != "~" {
                sig.set_name(std::str::from_utf8(&unhex(ws[1])).unwrap());
            }
            if ws[2] != "~" {
                sig.set_filename(std::str::from_utf8(&unhex(ws[2])).unwrap());
            }
            st.sigs.push(sig);
            "ok".into()
        }
        "sk" => {
            let sig = st.sigs.last_mut().unwrap();
            let sk = build_sketch(ws, sig.size());
            let d = descr(&sk);
            sig.push(sk);
            d
        }
        "ssel" => {
            let sig = st.sigs[ws[1].parse::<usize>().unwrap()].clone();
            match sig.select(&parse_sel(&ws[2..])) {
                Ok(s) => descr_sig(&s),
                Err(e) => format!("err {:?}", e),
            }
        }
        "stsel" => {
            let sig: SigStore = st.sigs[ws[1].parse::<usize>().unwrap()].clone().into();
            match sig.select(&parse_sel(&ws[2..])) {
                Ok(s) => descr_sig(&Signature::from(s)),
                Err(e) => format!("err {:?}", e),
            }
        }
        "msel" | "msel2" => {
            let orig = all_rows(st);
            let sel = parse_sel(&ws[1..]);
            let mut m = Manifest::from(orig.clone()).select(&sel).unwrap();
            if ws[0] == "msel2" {
                m = m.select(&sel).unwrap();
            }
            let kept: Vec<Record> = m.iter().cloned().collect();
            rows(&orig, &kept)
        }
        "csel" => {
            let c = Collection::from_sigs(st.sigs.clone()).unwrap();
            let orig: Vec<Record> = c.manifest().iter().cloned().collect();
            let c = c.select(&parse_sel(&ws[1..])).unwrap();
            let kept: Vec<Record> = c.manifest().iter().cloned().collect();
            rows(&orig, &kept)
        }
        "cset" => {
            let c = Collection::from_sigs(st.sigs.clone()).unwrap();
            let c = c.select(&parse_sel(&ws[1..])).unwrap();
            match CollectionSet::try_from(c) {
                Ok(cs) => format!("ok {}", cs.len()),
                Err(e) => format!("err {:?}", e),
            }
        }
        "lsel" => {
            let c = Collection::from_sigs(st.sigs.clone()).unwrap();
            let orig: Vec<Record> = c.manifest().iter().cloned().collect();
            let idx = LinearIndex::from_collection(CollectionSet::try_from(c).unwrap());
            match idx.select(&parse_sel(&ws[1..])) {
                Ok(idx) => {
                    let kept: Vec<Record> = idx.collection().manifest().iter().cloned().collect();
                    rows(&orig, &kept)
                }
                Err(e) => format!("err {:?}", e),
            }
        }
        "cload" => {
            let sel = parse_sel(&ws[1..]);
            let c = Collection::from_sigs(st.sigs.clone()).unwrap().select(&sel).unwrap();
            let mut out = vec![];
            for (_, rec) in c.iter() {
                let loaded = c.sig_from_record(rec).and_then(|s| s.select(&sel));
                out.push(match loaded {
                    Ok(s) => format!("{}={}", rec.internal_location(), descr_sig(&Signature::from(s))),
                    Err(e) => format!("err {:?}", e),
                });
            }
            if out.is_empty() {
                "-".into()
            } else {
                out.join("|")
            }
        }
        "agree" => {
            let i = ws[1].parse::<usize>().unwrap();
            let sel = parse_sel(&ws[2..]);
            let sig = st.sigs[i].clone();
            let recs = Record::from_sig(&sig, "x");
            let kept_rows: Vec<Record> =
                Manifest::from(recs.clone()).select(&sel).unwrap().iter().cloned().collect();
            // positions: rows of one signature are told apart by their position, so embed leftmost
            let mut p = 0usize;
            let mut mpos = vec![];
            for r in &kept_rows {
                while p < recs.len() && !same_row(&recs[p], r) {
                    p += 1;
                }
                mpos.push(p as u64);
                p += 1;
            }
            let kept = sig.clone().select(&sel).unwrap();
            let spos: Vec<u64> = kept
                .iter()
                .map(|s| match s {
                    Sketch::MinHash(mh) => mh.seed() - SEED0,
                    Sketch::LargeMinHash(mh) => mh.seed() - SEED0,
                    _ => panic!(),
                })
                .collect();
            format!("m={} s={}", show_nats(mpos), show_nats(spos))
        }
        _ => "bad-op".into(),
    }
}

fn main() {
    let a = args();
    match a.mode.as_str() {
        "gen" => gen(&a),
        "exec" => exec_loop(St::default, step),
        _ => panic!("mode"),
    }
}
