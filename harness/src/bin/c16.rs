//! C16: nodegraph files are khmer-compatible and round-trip for every table size.
//!
//! Request lines
//!   case <n> new <k> <sizes>     Nodegraph::new(sizes, k)
//!   case <n> raw                 no graph yet (a `load` follows)
//!   count <h>                    -> 0/1
//!   load <hex>                   Nodegraph::from_reader(bytes) -> dump | fail
//!   dump                         k=.. occ=.. n=.. size:blocks;..   (raw 32-bit blocks of every table)
//!   save                         hex of save_to_writer
//!   rt                           save_to_writer -> from_reader -> ==      same|diff|fail
//!   gz <level>                   nodegraph_to_buffer(level) (gzip when level > 0) -> from_reader -> save
//!   ffi <level>                  nodegraph_to_buffer(level) -> nodegraph_from_buffer -> nodegraph_to_buffer(0)
//!   file <level>                 level 0: save(path) -> from_path; else gz buffer on disk -> nodegraph_from_path; -> save
//!
//! huge sparse tables (2..8 MB of table data holding 0, 1 or a handful of bits: gzip ratios of 1000:1
//! and more).  Neither side prints the megabytes; answers are digests, and the Lean driver computes the
//! reference digest directly from the request lines (sizes and `h mod size` positions), see lean/Driver/C16.lean.
//!   case <n> sparse <k> <sizes>  Nodegraph::new(sizes, k); only `count`, `spd`, `sp` follow
//!   spd                          digest of the graph: k=.. occ=.. n=.. t=<size>:<popcount>:<set bits>;.. len=<length of
//!                                save_to_writer's bytes> nz=<offset>:<byte>,.. (every non-zero byte of those bytes)
//!   sp <route> <level>           nodegraph_to_buffer(level) -> load through <route> -> digest of what was loaded + same=<loaded == graph>
//!                                routes: ffi = nodegraph_from_buffer, rd = Nodegraph::from_reader(&[u8]),
//!                                path = bytes on disk + Nodegraph::from_path, ffipath = bytes on disk + nodegraph_from_path
//!
//! large dense tables (256 KiB .. 4 MiB per table, 1..3 tables, about every second / fourth / three of four bits
//! set at random: incompressible, so a gzip encoder takes such a table in many partial writes).  The content is a
//! seeded pattern both sides regenerate: 64-bit word w of table t = mix(base(seed, t) + (w + 1) * GAMMA)
//! (splitmix64 finaliser; d = 25: AND with a second draw, d = 75: OR), bits >= size cleared; bit b of the table is
//! bit b % 64 of word b / 64.  Answers are digests; the Lean driver computes the reference from the case line.
//!   case <n> dense <k> <occ> <seed> <d> <sizes>   the khmer file of that pattern, loaded with Nodegraph::from_reader
//!   dd                           k=.. occ=.. n=.. t=<size>:<popcount>:<xor of word*(2w+1)>:<sum of mix(word ^ w*GAMMA)>;..
//!                                len=<length of save_to_writer's bytes> fh=<FNV-1a 64 of those bytes>
//!   dn <writer> <loader>         save through <writer>, load through <loader> -> digest of what was loaded
//!                                + same=<loaded == graph> wl=<bytes written | gz>
//!                                writers: buf<level> = nodegraph_to_buffer(level); nif<1|6|9> = save_to_writer into a
//!                                niffler gzip writer over a Vec; w<max> = save_to_writer into a writer that accepts
//!                                at most <max> bytes per write() call; gzw<max> = niffler gzip (level 6) over such a
//!                                writer; file = Nodegraph::save(path); fbuf = BufWriter over a File
//!                                loaders: ffi, rd, path, ffipath (as for `sp`), r<max> = from_reader over a reader that
//!                                hands out at most <max> bytes per read() call, br = BufReader of capacity 16
//!   count <h>                    as everywhere (the driver keeps the changed words)
use sourmash::ffi::nodegraph::{
    nodegraph_buffer_free, nodegraph_free, nodegraph_from_buffer, nodegraph_from_path,
    nodegraph_to_buffer, SourmashNodegraph,
};
use sourmash::ffi::utils::{sourmash_err_clear, sourmash_err_get_last_code, ForeignObject};
use sourmash::sketch::nodegraph::Nodegraph;
use std::ffi::CString;
use std::io::{Read, Write};
use std::os::raw::c_char;
use verif_harness::*;

const DENSE_QUICK: u64 = 8;
const TESTDATA: &str = "/repo/tests/test-data";

fn header(k: u32, n: u8, occ: u64) -> Vec<u8> {
    let mut v = b"OXLI\x04\x02".to_vec();
    v.extend_from_slice(&k.to_le_bytes());
    v.push(n);
    v.extend_from_slice(&occ.to_le_bytes());
    v
}

/// data bytes of one table in khmer layout, several fill styles (garbage above `size` included)
fn table_record(r: &mut Rng, size: u64) -> Vec<u8> {
    let nbytes = (size / 8 + 1) as usize;
    let mut v = size.to_le_bytes().to_vec();
    let style = r.below(7);
    for i in 0..nbytes {
        let b = match style {
            0 => 0u8,
            1 => 0xff,
            2 => r.next() as u8,
            3 => (r.next() & r.next()) as u8,
            4 => (r.next() & r.next() & r.next() & r.next()) as u8,
            5 => {
                // only the last two bytes
                if i + 2 >= nbytes {
                    r.next() as u8 | 0x81
                } else {
                    0
                }
            }
            _ => {
                if r.chance(1, 6) {
                    r.next() as u8
                } else {
                    0
                }
            }
        };
        v.push(b);
    }
    v
}

fn some_k(r: &mut Rng) -> u32 {
    match r.below(6) {
        0 => 0,
        1 => u32::MAX,
        2 => r.bits(32) as u32,
        _ => r.range(1, 64) as u32,
    }
}
fn some_occ(r: &mut Rng) -> u64 {
    match r.below(5) {
        0 => 0,
        1 => u64::MAX,
        2 => r.bits(64),
        _ => r.range(0, 5000),
    }
}

fn boundary_bits(size: u64) -> Vec<u64> {
    let mut v = vec![0, size - 1];
    for d in [1u64, 2, 7, 8, 9, 31, 32, 33] {
        if size > d {
            v.push(size - 1 - d);
        }
    }
    v.push(size / 32 * 32);
    v.push(size / 8 * 8);
    v.push((size / 32 * 32).saturating_sub(1));
    v.retain(|b| *b < size);
    v.sort();
    v.dedup();
    v
}

fn path_ops(o: &mut Out, r: &mut Rng, heavy: bool) {
    o.op("save");
    o.op("rt");
    o.op("dump");
    if heavy || r.chance(1, 3) {
        o.op(&format!("gz {}", r.range(0, 9)));
    }
    if heavy || r.chance(1, 6) {
        o.op(&format!("ffi {}", r.range(0, 9)));
    }
    if heavy || r.chance(1, 12) {
        o.op(&format!("file {}", r.range(0, 9)));
    }
}

fn single_size_cases(o: &mut Out, r: &mut Rng, size: u64, heavy: bool) {
    // (a) built through the API
    o.case(&format!("new {} {}", some_k(r), size));
    let style = r.below(4);
    if style != 0 {
        let bb = boundary_bits(size);
        for b in &bb {
            if style == 1 || r.chance(1, 2) {
                // any hash congruent to the bit
                let m = if r.chance(1, 2) { 0 } else { r.below((u64::MAX - b) / size) };
                o.op(&format!("count {}", b + m * size));
            }
        }
        for _ in 0..r.range(0, 24) {
            o.op(&format!("count {}", r.bits(64)));
        }
    }
    path_ops(o, r, heavy);
    // (b) a khmer-layout byte string with arbitrary data bytes
    o.case("raw");
    let occ = some_occ(r);
    let mut f = header(some_k(r), 1, occ);
    f.extend(table_record(r, size));
    if r.chance(1, 10) {
        // trailing bytes are ignored
        for _ in 0..r.range(1, 9) {
            f.push(r.next() as u8);
        }
    }
    o.op(&format!("load {}", hex(&f)));
    path_ops(o, r, false);
    // (the occupied counter is a usize: no insertions next to its overflow)
    if occ < (1 << 63) && r.chance(1, 3) {
        for _ in 0..r.range(1, 6) {
            o.op(&format!("count {}", r.bits(64)));
        }
        o.op("save");
        o.op("rt");
    }
}

fn pick_size(r: &mut Rng, max: u64) -> u64 {
    match r.below(6) {
        0 => 32 * r.range(1, max / 32),
        1 => 32 * r.range(0, max / 32 - 1) + r.range(24, 31),
        2 => 8 * r.range(1, max / 8),
        3 => r.range(1, 40),
        _ => r.range(1, max),
    }
}

fn multi_case(o: &mut Out, r: &mut Rng, n: usize, max: u64) {
    let sizes: Vec<u64> = (0..n).map(|_| pick_size(r, max)).collect();
    if r.chance(1, 2) {
        o.case(&format!("new {} {}", some_k(r), show_nats(sizes.iter().copied())));
        for _ in 0..r.range(0, 40) {
            o.op(&format!("count {}", r.bits(64)));
        }
    } else {
        o.case("raw");
        let mut f = header(some_k(r), n as u8, some_occ(r));
        for s in &sizes {
            f.extend(table_record(r, *s));
        }
        o.op(&format!("load {}", hex(&f)));
    }
    path_ops(o, r, false);
}

/// a table size of about `mbit` Mbit: arbitrary, a multiple of 32 / of 8, or just below / above one
fn huge_size(r: &mut Rng, lo: u64, hi: u64) -> u64 {
    let mbit = r.range(lo, hi);
    let base = mbit * 1_000_000 + r.below(1_000_000);
    match r.below(5) {
        0 => base / 32 * 32,
        1 => base / 32 * 32 + r.range(24, 31),
        2 => base / 8 * 8,
        3 => (mbit << 20) + r.below(3) - 1,
        _ => base | 1,
    }
}

fn sparse_cases(o: &mut Out, r: &mut Rng, ncases: u64) {
    const LEVELS: [u64; 5] = [2, 9, 6, 1, 0];
    const ROUTES: [&str; 3] = ["rd", "path", "ffipath"];
    let rot = r.below(15);
    for c in 0..ncases {
        let i = c + rot;
        // shape: one table of 32..64 Mbit, two of 16..32 Mbit, four of 8..16 Mbit (4..8 MB in total)
        let sizes: Vec<u64> = match i % 3 {
            0 => vec![huge_size(r, 32, 64)],
            1 => (0..2).map(|_| huge_size(r, 16, 32)).collect(),
            _ => (0..4).map(|_| huge_size(r, 8, 16)).collect(),
        };
        // content: nothing, one hash, a handful
        let nbits = match (i / 3 + i) % 3 {
            0 => 0,
            1 => 1,
            _ => r.range(2, 6),
        };
        o.case(&format!("sparse {} {}", r.range(1, 64), show_nats(sizes.iter().copied())));
        for j in 0..nbits {
            let h = match r.below(4) {
                0 => sizes[0] - 1,                 // last bit of the first table
                1 => r.below(64),                  // first bytes
                2 => sizes[0] * r.range(1, 1000),  // bit 0 of the first table
                _ => r.bits(64),
            };
            o.op(&format!("count {}", h));
            if j == 0 && r.chance(1, 2) {
                o.op(&format!("count {}", h)); // seen before
            }
        }
        o.op("spd");
        // the C loader at every level, the other loaders at one or two
        for j in 0..5 {
            o.op(&format!("sp ffi {}", LEVELS[((i + j) % 5) as usize]));
        }
        o.op(&format!("sp {} {}", ROUTES[(i % 3) as usize], LEVELS[((i + 1) % 5) as usize]));
        o.op(&format!("sp {} {}", ROUTES[((i + 1) % 3) as usize], r.range(0, 9)));
        // a loaded-and-kept-in-use filter: one more bit, save again
        o.op(&format!("count {}", r.bits(64)));
        o.op(&format!("sp ffi {}", r.range(2, 9)));
    }
}

/// a table size of `lo`..`hi` KiB of data: arbitrary, a multiple of 64 / 32 / 8, 24..31 mod 32, next to a power of two
fn dense_size(r: &mut Rng, lo: u64, hi: u64) -> u64 {
    let base = r.range(lo * 8192, hi * 8192);
    match r.below(7) {
        0 => base / 64 * 64,
        1 => base / 32 * 32,
        2 => base / 32 * 32 + r.range(24, 31),
        3 => base / 8 * 8,
        4 => {
            // 2^21 .. 2^25 bits, clamped into the range, one below / at / one above
            let mut p = 1u64 << 21;
            while p * 2 <= hi * 8192 && (p < lo * 8192 || r.chance(1, 2)) {
                p *= 2;
            }
            p + r.below(3) - 1
        }
        _ => base | 1,
    }
}

fn dense_cases(o: &mut Out, r: &mut Rng, ncases: u64, small: bool) {
    const LOADERS: [&str; 7] = ["ffi", "rd", "path", "ffipath", "r7", "r4096", "br"];
    const LEVELS: [u64; 4] = [1, 6, 9, 0];
    let rot = r.below(28);
    for c in 0..ncases {
        let i = c + rot;
        // shape: one table of 2..4 MiB, two of 1..2 MiB, three of 256 KiB..1 MiB, one of 256..512 KiB
        let sizes: Vec<u64> = if small {
            match i % 3 {
                0 => vec![dense_size(r, 256, 512)],
                1 => (0..2).map(|_| dense_size(r, 256, 384)).collect(),
                _ => (0..3).map(|_| dense_size(r, 256, 300)).collect(),
            }
        } else {
            match i % 4 {
                0 => vec![dense_size(r, 2048, 4096)],
                1 => (0..2).map(|_| dense_size(r, 1024, 2048)).collect(),
                2 => (0..3).map(|_| dense_size(r, 256, 1024)).collect(),
                _ => vec![dense_size(r, 256, 512)],
            }
        };
        let d = [50, 50, 25, 50, 75][(i % 5) as usize];
        o.case(&format!(
            "dense {} {} {} {} {}",
            some_k(r),
            r.bits(40),
            r.next(),
            d,
            show_nats(sizes.iter().copied())
        ));
        o.op("dd");
        // the C writer plain and at levels 1, 6, 9, each through another loader
        for j in 0..4u64 {
            o.op(&format!("dn buf{} {}", LEVELS[((i + j) % 4) as usize], LOADERS[((i + 2 * j) % 7) as usize]));
        }
        o.op(&format!("dn buf{} ffi", r.range(2, 8)));
        o.op(&format!("dn nif{} {}", [1, 6, 9][(i % 3) as usize], LOADERS[((i + 3) % 7) as usize]));
        o.op(&format!("dn nif{} rd", [6, 9, 1][(i % 3) as usize]));
        // writers that take a few bytes per call, plain and under the gzip encoder
        o.op(&format!("dn w{} {}", r.range(1, 5), LOADERS[((i + 4) % 7) as usize]));
        o.op(&format!("dn w{} {}", r.range(1000, 4096), LOADERS[((i + 5) % 7) as usize]));
        o.op(&format!("dn gzw{} {}", r.range(1, 5), LOADERS[((i + 6) % 7) as usize]));
        o.op(&format!("dn gzw{} rd", r.range(1000, 4096)));
        o.op(&format!("dn {} {}", if i % 2 == 0 { "file" } else { "fbuf" }, if i % 4 < 2 { "path" } else { "ffipath" }));
        // kept in use: further hashes (new bits and bits already there), save again
        for _ in 0..r.range(1, 4) {
            let h = match r.below(4) {
                0 => sizes[0] - 1,
                1 => r.below(64),
                2 => sizes[0] * r.range(1, 1000) + sizes[0] / 64 * 64,
                _ => r.bits(64),
            };
            o.op(&format!("count {}", h));
        }
        o.op("dd");
        o.op(&format!("dn buf{} {}", r.range(1, 9), LOADERS[(i % 7) as usize]));
        o.op(&format!("dn gzw{} ffi", r.range(1, 4096)));
    }
}

fn oxli_files(dir: &str) -> Vec<String> {
    let mut v = vec![];
    if let Ok(rd) = std::fs::read_dir(format!("{}/{}", TESTDATA, dir)) {
        for e in rd.flatten() {
            let p = e.path();
            if let Ok(d) = std::fs::read(&p) {
                if d.starts_with(b"OXLI") {
                    v.push(p.to_string_lossy().to_string());
                }
            }
        }
    }
    v.sort();
    v
}

fn gen(a: &Args) {
    let mut r = Rng::new(a.seed);
    let mut o = Out::new();
    let thorough = a.tier == "thorough";
    // 1. every single-table size
    let mut sizes: Vec<u64> = vec![];
    if thorough {
        sizes.extend(1..=4096);
        for _ in 0..1500 {
            sizes.push(pick_size(&mut r, 65536));
        }
    } else {
        sizes.extend(1..=600);
        let mut s = 600;
        while s <= 5000 {
            s += 1;
            if s % 8 == 0 || s % 32 >= 24 {
                sizes.push(s);
            }
        }
    }
    for (i, s) in sizes.iter().enumerate() {
        single_size_cases(&mut o, &mut r, *s, i % 97 == 0);
    }
    // 1b. large tables, sampled around the powers of two (where buffered / chunked I/O changes regime)
    let kmax = if thorough { 20 } else { 18 };
    for k in 13..=kmax {
        let p = 1u64 << k;
        let mut big = vec![p - 8, p - 1, p, p + 23, p + r.range(1, p - 1)];
        if thorough {
            big.extend([p - 9, p + 1, p + 24, p + 31, p + 32, 3 * p]);
        }
        for size in big {
            o.case("raw");
            let mut f = header(some_k(&mut r), 1, some_occ(&mut r) >> 1);
            f.extend(table_record(&mut r, size));
            o.op(&format!("load {}", hex(&f)));
            o.op("save");
            o.op("rt");
            if r.chance(1, 4) {
                o.op(&format!("gz {}", r.range(1, 9)));
            }
            o.case(&format!("new {} {}", some_k(&mut r), size));
            for b in boundary_bits(size) {
                o.op(&format!("count {}", b));
            }
            for _ in 0..8 {
                o.op(&format!("count {}", r.bits(64)));
            }
            o.op("save");
            o.op("rt");
            o.op("dump");
        }
    }
    // two large tables in one file: the second must start at the right offset
    for _ in 0..(if thorough { 12 } else { 3 }) {
        let k = r.range(13, 17);
        let sizes = [(1u64 << k) - r.range(0, 9), (1u64 << k) + r.range(0, 40)];
        o.case("raw");
        let mut f = header(some_k(&mut r), 2, some_occ(&mut r) >> 1);
        for s in sizes {
            f.extend(table_record(&mut r, s));
        }
        o.op(&format!("load {}", hex(&f)));
        o.op("save");
        o.op("rt");
    }
    // 1c. huge sparse tables: 2..8 MB of table data with 0, 1 or a handful of bits, every compression
    // level of nodegraph_to_buffer (1, 2, 6, 9 and plain), every loader
    sparse_cases(&mut o, &mut r, if thorough { 30 } else { 6 });
    // 1d. large dense tables: 256 KiB..4 MiB of incompressible table data, 1..3 tables, every writer
    // (nodegraph_to_buffer plain and gzip, niffler gzip writers, short-write wrappers, files), every loader
    dense_cases(&mut o, &mut r, if thorough { 40 } else { DENSE_QUICK }, false);
    dense_cases(&mut o, &mut r, if thorough { 24 } else { 3 }, true);
    // 2. multi-table graphs, table counts up to 255
    let mut counts: Vec<usize> = vec![1, 2, 3, 4, 5, 6, 7, 8, 16, 31, 32, 33, 64, 127, 128, 200, 254, 255, 255];
    let extra = if thorough { 3000 } else { 300 };
    for _ in 0..extra {
        counts.push(if r.chance(3, 4) { r.range(2, 12) as usize } else { r.range(2, 255) as usize });
    }
    for n in counts {
        let max = if n > 64 { 100 } else { 300 };
        multi_case(&mut o, &mut r, n, max);
    }
    // more than 255 tables: outside the property (the count is written `as u8`); model only
    for n in [256usize, 257, 300] {
        let sizes: Vec<u64> = (0..n).map(|_| r.range(1, 40)).collect();
        o.case(&format!("new 21 {}", show_nats(sizes.iter().copied())));
        o.op("count 12345");
        o.op("save");
        o.op("rt");
    }
    // 3. files written by khmer (bundled SBT internal nodes)
    let mut files = oxli_files(".sbt.v3");
    files.extend(oxli_files(".sbt.v2"));
    let subset = oxli_files(".sbt.subset");
    if thorough {
        files.extend(subset);
    } else {
        for _ in 0..6 {
            if !subset.is_empty() {
                files.push(r.pick(&subset).clone());
            }
        }
    }
    for f in files {
        let d = std::fs::read(&f).unwrap();
        o.case("raw");
        o.op(&format!("load {}", hex(&d)));
        o.op("save");
        o.op("rt");
        if r.chance(1, 3) {
            o.op(&format!("gz {}", r.range(1, 9)));
        }
    }
    // 4. damaged files: both sides refuse
    for _ in 0..(if thorough { 400 } else { 60 }) {
        let size = pick_size(&mut r, 300);
        let mut f = header(some_k(&mut r), 1, some_occ(&mut r));
        f.extend(table_record(&mut r, size));
        o.case("raw");
        match r.below(3) {
            0 => {
                let cut = r.below(f.len() as u64) as usize;
                f.truncate(cut);
            }
            1 => {
                let i = r.below(6) as usize;
                f[i] ^= 1 << r.below(8);
            }
            _ => {
                f[10] = r.range(2, 5) as u8; // promises more tables than there are
            }
        }
        o.op(&format!("load {}", hex(&f)));
    }
}

fn save_bytes(ng: &Nodegraph) -> Vec<u8> {
    let mut buf = vec![];
    ng.save_to_writer(&mut buf).unwrap();
    buf
}

fn dump(ng: &Nodegraph) -> String {
    let sizes = ng.tablesizes();
    let bs = ng.clone().into_bitsets();
    let t: Vec<String> = bs
        .iter()
        .zip(sizes.iter())
        .map(|(b, s)| format!("{}:{}", s, show_nats(b.as_slice().iter().map(|x| *x as u64))))
        .collect();
    format!("k={} occ={} n={} {}", ng.ksize(), ng.noccupied(), ng.ntables(), t.join(";"))
}

/// digest of a graph with huge, nearly empty tables (nothing here is proportional to the table size)
fn sparse_digest(ng: &Nodegraph) -> String {
    let sizes = ng.tablesizes();
    let bs = ng.clone().into_bitsets();
    let t: Vec<String> = bs
        .iter()
        .zip(sizes.iter())
        .map(|(b, s)| {
            let n = b.count_ones(..);
            let ones: Vec<u64> = b.ones().take(200).map(|x| x as u64).collect();
            format!("{}:{}:{}", s, n, show_nats(ones))
        })
        .collect();
    let bytes = save_bytes(ng);
    let mut nz = String::new();
    let mut n_nz = 0;
    for (i, b) in bytes.iter().enumerate() {
        if *b != 0 {
            n_nz += 1;
            if n_nz <= 2000 {
                if !nz.is_empty() {
                    nz.push(',');
                }
                nz.push_str(&format!("{}:{:02x}", i, b));
            }
        }
    }
    format!("k={} occ={} n={} t={} len={} nz={}", ng.ksize(), ng.noccupied(), ng.ntables(), t.join(";"), bytes.len(), nz)
}

/* ---- large dense tables: the seeded pattern and the digests ---- */

const GAMMA: u64 = 0x9E37_79B9_7F4A_7C15;

fn mix(z: u64) -> u64 {
    let z = (z ^ (z >> 30)).wrapping_mul(0xBF58_476D_1CE4_E5B9);
    let z = (z ^ (z >> 27)).wrapping_mul(0x94D0_49BB_1331_11EB);
    z ^ (z >> 31)
}

/// the 64-bit words of table `t` (bit b of the table = bit b % 64 of word b / 64), bits >= size cleared
fn dense_words(seed: u64, t: u64, d: u64, size: u64) -> Vec<u64> {
    let base = mix(seed.wrapping_add((t + 1).wrapping_mul(GAMMA)));
    let nwords = (size + 63) / 64;
    let mut v: Vec<u64> = (0..nwords)
        .map(|w| {
            let a = mix(base.wrapping_add((w + 1).wrapping_mul(GAMMA)));
            match d {
                25 => a & mix(a),
                75 => a | mix(a),
                _ => a,
            }
        })
        .collect();
    if size % 64 != 0 {
        if let Some(last) = v.last_mut() {
            *last &= (1u64 << (size % 64)) - 1;
        }
    }
    v
}

/// the khmer file of the pattern
fn dense_file(k: u32, occ: u64, seed: u64, d: u64, sizes: &[u64]) -> Vec<u8> {
    let mut f = header(k, sizes.len() as u8, occ);
    for (t, size) in sizes.iter().enumerate() {
        f.extend_from_slice(&size.to_le_bytes());
        let nbytes = (size / 8 + 1) as usize;
        let mut data: Vec<u8> = Vec::with_capacity(nbytes + 8);
        for w in dense_words(seed, t as u64, d, *size) {
            data.extend_from_slice(&w.to_le_bytes());
        }
        data.resize(nbytes, 0);
        f.extend(data);
    }
    f
}

fn fnv1a(bytes: &[u8]) -> u64 {
    let mut h: u64 = 0xcbf2_9ce4_8422_2325;
    for b in bytes {
        h = (h ^ *b as u64).wrapping_mul(0x0000_0100_0000_01b3);
    }
    h
}

/// digest of a graph with large dense tables, from its bit sets and from the bytes it saves
fn dense_digest(ng: &Nodegraph) -> String {
    let sizes = ng.tablesizes();
    let bs = ng.clone().into_bitsets();
    let t: Vec<String> = bs
        .iter()
        .zip(sizes.iter())
        .map(|(b, s)| {
            let blocks = b.as_slice();
            let nwords = ((*s + 63) / 64) as usize;
            let (mut x, mut sm) = (0u64, 0u64);
            for w in 0..nwords {
                let lo = blocks.get(2 * w).copied().unwrap_or(0) as u64;
                let hi = blocks.get(2 * w + 1).copied().unwrap_or(0) as u64;
                let word = lo | hi << 32;
                x ^= word.wrapping_mul(2 * w as u64 + 1);
                sm = sm.wrapping_add(mix(word ^ (w as u64).wrapping_mul(GAMMA)));
            }
            format!("{}:{}:{:016x}:{:016x}", s, b.count_ones(..), x, sm)
        })
        .collect();
    let bytes = save_bytes(ng);
    format!(
        "k={} occ={} n={} t={} len={} fh={:016x}",
        ng.ksize(),
        ng.noccupied(),
        ng.ntables(),
        t.join(";"),
        bytes.len(),
        fnv1a(&bytes)
    )
}

/// hands out at most `max` bytes per read() call (sizes cycle through 1..=max)
struct ShortReader<'a> {
    data: &'a [u8],
    pos: usize,
    max: usize,
    tick: usize,
}
impl Read for ShortReader<'_> {
    fn read(&mut self, buf: &mut [u8]) -> std::io::Result<usize> {
        self.tick += 1;
        let want = 1 + (self.tick * 5) % self.max;
        let n = want.min(buf.len()).min(self.data.len() - self.pos);
        buf[..n].copy_from_slice(&self.data[self.pos..self.pos + n]);
        self.pos += n;
        Ok(n)
    }
}

/// accepts at most `max` bytes per write() call (sizes cycle through 1..=max)
struct ShortWriter {
    data: Vec<u8>,
    max: usize,
    tick: usize,
}
impl Write for ShortWriter {
    fn write(&mut self, buf: &[u8]) -> std::io::Result<usize> {
        self.tick += 1;
        let want = 1 + (self.tick * 3) % self.max;
        let n = want.min(buf.len());
        self.data.extend_from_slice(&buf[..n]);
        Ok(n)
    }
    fn flush(&mut self) -> std::io::Result<()> {
        Ok(())
    }
}

fn gz_level(n: u64) -> niffler::compression::Level {
    use niffler::compression::Level::*;
    match n {
        1 => One,
        2 => Two,
        3 => Three,
        4 => Four,
        5 => Five,
        6 => Six,
        7 => Seven,
        8 => Eight,
        _ => Nine,
    }
}

/// save `ng` through the named writer: the bytes that arrived, and whether they must be gzip
fn dense_write(ng: &Nodegraph, wr: &str, dir: &std::path::Path) -> Result<(Vec<u8>, bool), String> {
    let sv = |r: Result<(), sourmash::Error>| r.map_err(|_| "savefail".to_string());
    if let Some(l) = wr.strip_prefix("buf") {
        let level: u8 = l.parse().unwrap();
        return unsafe { to_buffer(ng, level) }.map(|b| (b, level > 0));
    }
    if let Some(l) = wr.strip_prefix("nif") {
        let mut buf: Vec<u8> = vec![];
        {
            let mut w = niffler::get_writer(Box::new(&mut buf), niffler::compression::Format::Gzip, gz_level(l.parse().unwrap()))
                .map_err(|_| "nowriter".to_string())?;
            sv(ng.save_to_writer(&mut w))?;
        }
        return Ok((buf, true));
    }
    if let Some(m) = wr.strip_prefix("gzw") {
        let mut sw = ShortWriter { data: vec![], max: m.parse().unwrap(), tick: 0 };
        {
            let mut w = niffler::get_writer(Box::new(&mut sw), niffler::compression::Format::Gzip, gz_level(6))
                .map_err(|_| "nowriter".to_string())?;
            sv(ng.save_to_writer(&mut w))?;
        }
        return Ok((sw.data, true));
    }
    if let Some(m) = wr.strip_prefix('w') {
        let mut sw = ShortWriter { data: vec![], max: m.parse().unwrap(), tick: 0 };
        sv(ng.save_to_writer(&mut sw))?;
        return Ok((sw.data, false));
    }
    let p = dir.join("w.ng");
    match wr {
        "file" => sv(ng.save(&p))?,
        "fbuf" => {
            let mut w = std::io::BufWriter::with_capacity(8192, std::fs::File::create(&p).unwrap());
            sv(ng.save_to_writer(&mut w))?;
            w.flush().map_err(|_| "flushfail".to_string())?;
        }
        _ => return Err("bad-op".into()),
    }
    Ok((std::fs::read(&p).unwrap(), false))
}

/// The name a byte string gets on disk: what a file holds is decided by its first bytes (compression
/// sniffing), never by its name, so the name varies independently of the content — gzip streams under
/// names without `.gz` (khmer / SBT internal nodes), plain files under `.gz` names, no extension at all.
fn disk_name(b: &[u8]) -> &'static str {
    const NAMES: [&str; 8] = ["g.ng", "g.ng.gz", "internal.3", "filter.ng", "node.gz", "GRAPH.GZ", "g.gz.bak", "noext"];
    let mut h: u64 = 0xcbf2_9ce4_8422_2325 ^ b.len() as u64;
    for x in b.iter().take(96).chain(b.iter().rev().take(32)) {
        h = (h ^ *x as u64).wrapping_mul(0x0000_0100_0000_01b3);
    }
    NAMES[((h >> 29) % 8) as usize]
}

/// load `b` through the named loader and answer with `answer(loaded graph)`
fn dense_load(b: &[u8], gz: bool, loader: &str, dir: &std::path::Path, answer: &dyn Fn(&Nodegraph) -> String) -> String {
    let _ = gz;
    let p = dir.join(disk_name(b));
    match loader {
        "ffi" | "ffipath" => unsafe {
            sourmash_err_clear();
            let q = if loader == "ffi" {
                nodegraph_from_buffer(b.as_ptr() as *const c_char, b.len())
            } else {
                std::fs::write(&p, b).unwrap();
                let c = CString::new(p.to_str().unwrap()).unwrap();
                nodegraph_from_path(c.as_ptr())
            };
            if q.is_null() {
                return format!("err code{}", sourmash_err_get_last_code() as u32);
            }
            let out = answer(SourmashNodegraph::as_rust(q));
            nodegraph_free(q);
            out
        },
        _ => {
            let r = if loader == "rd" {
                Nodegraph::from_reader(b)
            } else if loader == "path" {
                std::fs::write(&p, b).unwrap();
                Nodegraph::from_path(&p)
            } else if loader == "br" {
                Nodegraph::from_reader(std::io::BufReader::with_capacity(16, b))
            } else if let Some(m) = loader.strip_prefix('r') {
                Nodegraph::from_reader(ShortReader { data: b, pos: 0, max: m.parse().unwrap(), tick: 0 })
            } else {
                return "bad-op".into();
            };
            match r {
                Ok(g2) => answer(&g2),
                Err(_) => "fail".into(),
            }
        }
    }
}

unsafe fn to_buffer(ng: &Nodegraph, level: u8) -> Result<Vec<u8>, String> {
    sourmash_err_clear();
    let mut size: usize = 0;
    let p = nodegraph_to_buffer(ng as *const Nodegraph as *const SourmashNodegraph, level, &mut size);
    if p.is_null() || sourmash_err_get_last_code() as u32 != 0 {
        return Err(format!("err code{}", sourmash_err_get_last_code() as u32));
    }
    let v = std::slice::from_raw_parts(p, size).to_vec();
    nodegraph_buffer_free(p as *mut u8, size);
    Ok(v)
}

fn step(st: &mut Option<Nodegraph>, ws: &[&str]) -> String {
    match ws[0] {
        "case" => {
            *st = None;
            if ws.len() >= 5 && (ws[2] == "new" || ws[2] == "sparse") {
                let sizes: Vec<usize> = parse_nats(ws[4]).into_iter().map(|x| x as usize).collect();
                *st = Some(Nodegraph::new(&sizes, ws[3].parse().unwrap()));
            } else if ws.len() >= 8 && ws[2] == "dense" {
                let f = dense_file(
                    ws[3].parse().unwrap(),
                    ws[4].parse().unwrap(),
                    ws[5].parse().unwrap(),
                    ws[6].parse().unwrap(),
                    &parse_nats(ws[7]),
                );
                match Nodegraph::from_reader(&f[..]) {
                    Ok(g) => *st = Some(g),
                    Err(_) => return "fail".into(),
                }
            }
            "ok".into()
        }
        "load" => {
            *st = None;
            let bytes = unhex(ws[1]);
            let r = std::panic::catch_unwind(|| Nodegraph::from_reader(&bytes[..]));
            match r {
                Ok(Ok(ng)) => {
                    let d = dump(&ng);
                    *st = Some(ng);
                    d
                }
                _ => "fail".into(),
            }
        }
        _ => {
            let ng = match st.as_mut() {
                Some(g) => g,
                None => return "nograph".into(),
            };
            match ws[0] {
                "count" => (ng.count(ws[1].parse().unwrap()) as u8).to_string(),
                "dump" => dump(ng),
                "save" => hex(&save_bytes(ng)),
                "rt" => {
                    let b = save_bytes(ng);
                    match Nodegraph::from_reader(&b[..]) {
                        Ok(g2) => {
                            if g2 == *ng && g2.tablesizes() == ng.tablesizes() {
                                "same".into()
                            } else {
                                "diff".into()
                            }
                        }
                        Err(_) => "fail".into(),
                    }
                }
                "gz" => unsafe {
                    let level: u8 = ws[1].parse().unwrap();
                    let b = match to_buffer(ng, level) {
                        Ok(b) => b,
                        Err(e) => return e,
                    };
                    let is_gz = b.starts_with(&[0x1f, 0x8b]);
                    if is_gz != (level > 0) {
                        return "badmagic".into();
                    }
                    match Nodegraph::from_reader(&b[..]) {
                        Ok(g2) => hex(&save_bytes(&g2)),
                        Err(_) => "fail".into(),
                    }
                },
                "ffi" => unsafe {
                    let level: u8 = ws[1].parse().unwrap();
                    let b = match to_buffer(ng, level) {
                        Ok(b) => b,
                        Err(e) => return e,
                    };
                    sourmash_err_clear();
                    let p = nodegraph_from_buffer(b.as_ptr() as *const c_char, b.len());
                    if p.is_null() {
                        return format!("err code{}", sourmash_err_get_last_code() as u32);
                    }
                    let out = to_buffer(SourmashNodegraph::as_rust(p), 0);
                    nodegraph_free(p);
                    match out {
                        Ok(b) => hex(&b),
                        Err(e) => e,
                    }
                },
                "spd" => sparse_digest(ng),
                "dd" => dense_digest(ng),
                "dn" => {
                    let dir = tempfile::tempdir().unwrap();
                    let (b, gz) = match dense_write(ng, ws[1], dir.path()) {
                        Ok(x) => x,
                        Err(e) => return e,
                    };
                    if b.starts_with(&[0x1f, 0x8b]) != gz {
                        return "badmagic".into();
                    }
                    let wl = if gz { "gz".to_string() } else { b.len().to_string() };
                    let answer = |g2: &Nodegraph| {
                        format!("{} same={} wl={}", dense_digest(g2), g2 == ng && g2.tablesizes() == ng.tablesizes(), wl)
                    };
                    dense_load(&b, gz, ws[2], dir.path(), &answer)
                }
                "sp" => unsafe {
                    let level: u8 = ws[2].parse().unwrap();
                    let b = match to_buffer(ng, level) {
                        Ok(b) => b,
                        Err(e) => return e,
                    };
                    if b.starts_with(&[0x1f, 0x8b]) != (level > 0) {
                        return "badmagic".into();
                    }
                    let dir = tempfile::tempdir().unwrap();
                    let p = dir.path().join(disk_name(&b));
                    let answer = |g2: &Nodegraph| format!("{} same={}", sparse_digest(g2), g2 == ng && g2.tablesizes() == ng.tablesizes());
                    match ws[1] {
                        "ffi" | "ffipath" => {
                            sourmash_err_clear();
                            let q = if ws[1] == "ffi" {
                                nodegraph_from_buffer(b.as_ptr() as *const c_char, b.len())
                            } else {
                                std::fs::write(&p, &b).unwrap();
                                let c = CString::new(p.to_str().unwrap()).unwrap();
                                nodegraph_from_path(c.as_ptr())
                            };
                            if q.is_null() {
                                return format!("err code{}", sourmash_err_get_last_code() as u32);
                            }
                            let out = answer(SourmashNodegraph::as_rust(q));
                            nodegraph_free(q);
                            out
                        }
                        "rd" | "path" => {
                            let r = if ws[1] == "rd" {
                                Nodegraph::from_reader(&b[..])
                            } else {
                                std::fs::write(&p, &b).unwrap();
                                Nodegraph::from_path(&p)
                            };
                            match r {
                                Ok(g2) => answer(&g2),
                                Err(_) => "fail".into(),
                            }
                        }
                        _ => "bad-op".into(),
                    }
                },
                "file" => unsafe {
                    let level: u8 = ws[1].parse().unwrap();
                    let dir = tempfile::tempdir().unwrap();
                    if level == 0 {
                        let p = dir.path().join("g.ng");
                        if ng.save(&p).is_err() {
                            return "fail".into();
                        }
                        match Nodegraph::from_path(&p) {
                            Ok(g2) => hex(&save_bytes(&g2)),
                            Err(_) => "fail".into(),
                        }
                    } else {
                        let b = match to_buffer(ng, level) {
                            Ok(b) => b,
                            Err(e) => return e,
                        };
                        let p = dir.path().join(disk_name(&b));
                        std::fs::write(&p, &b).unwrap();
                        let c = CString::new(p.to_str().unwrap()).unwrap();
                        sourmash_err_clear();
                        let q = nodegraph_from_path(c.as_ptr());
                        if q.is_null() {
                            return format!("err code{}", sourmash_err_get_last_code() as u32);
                        }
                        let out = hex(&save_bytes(SourmashNodegraph::as_rust(q)));
                        nodegraph_free(q);
                        out
                    }
                },
                _ => "bad-op".into(),
            }
        }
    }
}

fn main() {
    let a = args();
    match a.mode.as_str() {
        "gen" => gen(&a),
        "exec" => exec_loop(|| None, step),
        _ => panic!("mode"),
    }
}
