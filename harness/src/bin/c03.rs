//! C03: sketch operations mirror set operations on the underlying data.
//!
//! Registers hold real `KmerMinHash` / `KmerMinHashBTree` values; every op line calls the real
//! method and prints the observable result.  See lean/Driver/C03.lean for the model/spec side.
//!
//! C-API stream: the ops whose name starts with `c` (`cnew`, `cadd`, `caddm`, `csetab`, `crmmany`,
//! `cmerge`, `caddfrom`, `crmfrom`, `cisect`, `cisize`, `ccc`, `ccompat`, `cobs`, `cparams`) do the
//! same through the exported `kmerminhash_*` functions of src/core/src/ffi/minhash.rs: the register
//! is handed over as a `SourmashKmerMinHash` handle (`ForeignObject::from_rust`), the second operand
//! as a handle to a copy, results come back through the out-pointers / returned handles, and after
//! every call `sourmash_err_get_last_code` is read (and cleared).  They answer in the format of the
//! native op, so the same model / spec columns apply.
use sourmash::encodings::HashFunctions;
use sourmash::ffi::minhash::*;
use sourmash::ffi::utils::{sourmash_err_clear, sourmash_err_get_last_code, ForeignObject};
use sourmash::ffi::HashFunctions as FfiHashFunctions;
use sourmash::sketch::minhash::{max_hash_for_scaled, scaled_for_max_hash, KmerMinHash, KmerMinHashBTree};
use sourmash::signature::{Signature, SigsTrait};
use sourmash::sketch::Sketch;
use std::collections::{BTreeMap, BTreeSet};
use verif_harness::*;

#[derive(Clone)]
enum Reg {
    V(KmerMinHash),
    T(KmerMinHashBTree),
}

fn mol(s: &str) -> HashFunctions {
    match s {
        "protein" => HashFunctions::Murmur64Protein,
        "dayhoff" => HashFunctions::Murmur64Dayhoff,
        "hp" => HashFunctions::Murmur64Hp,
        _ => HashFunctions::Murmur64Dna,
    }
}

/// sketches holding more than this many hashes are answered by a digest instead of the lists
const DIGEST_ABOVE: usize = 200;

/// `#<count>:<xor of the hashes>` for a long hash list, the list itself otherwise
fn show_mins(m: &[u64]) -> String {
    if m.len() > DIGEST_ABOVE {
        format!("#{}:{}", m.len(), m.iter().fold(0u64, |x, h| x ^ h))
    } else {
        show_nats(m.iter().cloned())
    }
}

/// `#<sum of abundances>:<xor of hash * (2 * abundance + 1) mod 2^64>` next to a long hash list
fn show_abunds(m: &[u64], a: &[u64]) -> String {
    if m.len() > DIGEST_ABOVE {
        let sum: u128 = a.iter().map(|x| *x as u128).sum();
        let mix = m.iter().zip(a.iter()).fold(0u64, |x, (h, a)| x ^ h.wrapping_mul(a.wrapping_mul(2).wrapping_add(1)));
        format!("#{}:{}", sum, mix)
    } else {
        show_nats(a.iter().cloned())
    }
}

fn show_obs(m: &[u64], a: &Option<Vec<u64>>) -> String {
    format!(
        "mins={} abunds={}",
        show_mins(m),
        match a {
            Some(a) => show_abunds(m, a),
            None => "none".into(),
        }
    )
}

fn obs(r: &Reg) -> String {
    let (m, a) = match r {
        Reg::V(x) => (x.mins(), x.abunds()),
        Reg::T(x) => (x.mins(), x.abunds()),
    };
    show_obs(&m, &a)
}

fn parse_pairs(s: &str) -> Vec<(u64, u64)> {
    if s == "-" || s.is_empty() {
        return vec![];
    }
    s.split(',')
        .map(|w| {
            let mut it = w.split(':');
            let h = it.next().unwrap().parse().unwrap();
            let a = it.next().map(|x| x.parse().unwrap()).unwrap_or(1);
            (h, a)
        })
        .collect()
}


/// the JSON text `Serialize` writes for a sketch with the given fields (hashes in the given order)
fn sketch_json(num: u32, ksize: u32, seed: u64, max_hash: u64, m: &str, track: bool, items: &[(u64, u64)]) -> String {
    let mut sorted: Vec<u64> = items.iter().map(|p| p.0).collect();
    sorted.sort();
    let md5 = KmerMinHash::builder().num(0u32).ksize(ksize).mins(sorted).build().md5sum();
    let mins: Vec<String> = items.iter().map(|p| p.0.to_string()).collect();
    let abs: Vec<String> = items.iter().map(|p| p.1.to_string()).collect();
    format!(
        "{{\"num\":{},\"ksize\":{},\"seed\":{},\"max_hash\":{},\"mins\":[{}],\"md5sum\":\"{}\",{}\"molecule\":\"{}\"}}",
        num,
        ksize,
        seed,
        max_hash,
        mins.join(","),
        md5,
        if track { format!("\"abundances\":[{}],", abs.join(",")) } else { String::new() },
        m
    )
}

/// a sketch that is NOT made by `new` + insertions: the public builders (`b`: content handed over,
/// the tree's `current_max` left to the builder's default, which derives it from `mins`; `bc`: the
/// tree's `current_max` given explicitly - `cm`, or the largest hash when `cm` is `None`; an explicit
/// value is taken as it is, so it may be stale) or `Deserialize` of a JSON document (`js`, hashes in
/// the order given)
fn build_reg(tree: bool, ctor: &str, max_hash: u64, num: u32, ksize: u32, m: &str, seed: u64, track: bool, items: &[(u64, u64)], cm: Option<u64>) -> Option<Reg> {
    Some(match (ctor, tree) {
        ("js", false) => Reg::V(serde_json::from_str(&sketch_json(num, ksize, seed, max_hash, m, track, items)).unwrap()),
        ("js", true) => Reg::T(serde_json::from_str(&sketch_json(num, ksize, seed, max_hash, m, track, items)).unwrap()),
        ("b" | "bc", false) => Reg::V(
            KmerMinHash::builder()
                .num(num)
                .ksize(ksize)
                .hash_function(mol(m))
                .seed(seed)
                .max_hash(max_hash)
                .mins(items.iter().map(|p| p.0).collect::<Vec<u64>>())
                .abunds(if track { Some(items.iter().map(|p| p.1).collect::<Vec<u64>>()) } else { None })
                .build(),
        ),
        ("b", true) => Reg::T(
            KmerMinHashBTree::builder()
                .num(num)
                .ksize(ksize)
                .hash_function(mol(m))
                .seed(seed)
                .max_hash(max_hash)
                .mins(items.iter().map(|p| p.0).collect::<BTreeSet<u64>>())
                .abunds(if track { Some(items.iter().cloned().collect::<BTreeMap<u64, u64>>()) } else { None })
                .build(),
        ),
        ("bc", true) => Reg::T(
            KmerMinHashBTree::builder()
                .num(num)
                .ksize(ksize)
                .hash_function(mol(m))
                .seed(seed)
                .max_hash(max_hash)
                .mins(items.iter().map(|p| p.0).collect::<BTreeSet<u64>>())
                .abunds(if track { Some(items.iter().cloned().collect::<BTreeMap<u64, u64>>()) } else { None })
                .current_max(cm.unwrap_or_else(|| items.iter().map(|p| p.0).max().unwrap_or(0)))
                .build(),
        ),
        _ => return None,
    })
}

/// `Clone`, the `From` conversions to the other container type and back (by value / through the
/// by-reference impl where there is one), `Serialize` -> `Deserialize`
fn convert(r: &Reg, how: &str) -> Option<Reg> {
    Some(match (how, r) {
        ("clone", x) => x.clone(),
        ("rt", Reg::V(x)) => Reg::V(KmerMinHash::from(KmerMinHashBTree::from(x.clone()))),
        ("rtr", Reg::V(x)) => Reg::V(KmerMinHash::from(&KmerMinHashBTree::from(x.clone()))),
        ("rt", Reg::T(x)) => Reg::T(KmerMinHashBTree::from(KmerMinHash::from(x.clone()))),
        ("rtr", Reg::T(x)) => Reg::T(KmerMinHashBTree::from(KmerMinHash::from(x))),
        ("serde", Reg::V(x)) => Reg::V(serde_json::from_str(&serde_json::to_string(x).unwrap()).unwrap()),
        ("serde", Reg::T(x)) => Reg::T(serde_json::from_str(&serde_json::to_string(x).unwrap()).unwrap()),
        _ => return None,
    })
}

// ------------------------------------------------------------- Signature::add_sequence / add_protein

/// `v:scaled:num:ksize:mol:seed:track` (v = `Sketch::MinHash`, t = `Sketch::LargeMinHash`), `;`-separated
fn build_sig(specs: &str) -> Signature {
    let mut sig = Signature::default();
    for sp in specs.split(';') {
        let f: Vec<&str> = sp.split(':').collect();
        let p = |i: usize| -> u64 { f[i].parse().unwrap() };
        let (scaled, num, ksize, seed, track) = (p(1), p(2) as u32, p(3) as u32, p(5), f[6] == "1");
        let sk = if f[0] == "t" {
            Sketch::LargeMinHash(KmerMinHashBTree::new(scaled, ksize, mol(f[4]), seed, track, num))
        } else {
            Sketch::MinHash(KmerMinHash::new(scaled, ksize, mol(f[4]), seed, track, num))
        };
        sig.push(sk);
    }
    sig
}

fn sk_obs(s: &Sketch) -> String {
    let (m, a) = match s {
        Sketch::MinHash(x) => (x.mins(), x.abunds()),
        Sketch::LargeMinHash(x) => (x.mins(), x.abunds()),
        _ => unreachable!(),
    };
    format!(
        "{}/{}",
        show_nats(m),
        match a {
            Some(a) => show_nats(a),
            None => "none".into(),
        }
    )
}

fn sig_obs(sig: &Signature) -> String {
    sig.sketches().iter().map(sk_obs).collect::<Vec<_>>().join("|")
}

fn pool(threads: usize) -> std::sync::Arc<rayon::ThreadPool> {
    use std::sync::{Arc, Mutex, OnceLock};
    static POOLS: OnceLock<Mutex<BTreeMap<usize, Arc<rayon::ThreadPool>>>> = OnceLock::new();
    let mut g = POOLS.get_or_init(|| Mutex::new(BTreeMap::new())).lock().unwrap();
    g.entry(threads)
        .or_insert_with(|| Arc::new(rayon::ThreadPoolBuilder::new().num_threads(threads).build().unwrap()))
        .clone()
}

/// `sigadd <threads> <force> <specs> <hexseq>…` / `sigprot <threads> <specs> <hexseq>…`: a fresh
/// signature, the sequences added one after the other through `Signature::add_sequence` /
/// `add_protein` inside a pool of `<threads>` threads (default build, sourmash with `branchwater`:
/// the rayon variant; `--no-default-features`: the serial loop of the crate's default feature set,
/// which runs in-line on the calling pool thread).  `ok <sketch>|<sketch>|…` after the last call, or at the first failing call
/// `err <Variant> <sketch>|…` (one thread: the run is deterministic) resp. `err <Variant> legal`
/// (several threads: which of the other sketches were still updated is up to the scheduler; `legal`
/// = every sketch is untouched or equals what the single-sketch call makes of it, and one of the
/// failing sketches was run).
fn sig_add(threads: usize, force: bool, prot: bool, specs: &str, seqs: &[&str]) -> String {
    let mut sig = build_sig(specs);
    let pl = pool(threads);
    for hx in seqs {
        let seq = unhex(hx);
        let before = sig.sketches();
        let res = pl.install(|| if prot { sig.add_protein(&seq) } else { sig.add_sequence(&seq, force) });
        if let Err(e) = res {
            if threads == 1 {
                return format!("{} {}", err(e), sig_obs(&sig));
            }
            // reference: the single-sketch call on a copy of every sketch as it was before
            let after = sig.sketches();
            let mut tags = vec![];
            let mut all_in = true;
            let mut failing_ran = false;
            for (b, a) in before.iter().zip(after.iter()) {
                let mut single = b.clone();
                let r = if prot { single.add_protein(&seq) } else { single.add_sequence(&seq, force) };
                let (u, d) = (sk_obs(b) == sk_obs(a), sk_obs(&single) == sk_obs(a));
                tags.push(match (u, d) {
                    (true, true) => "=",
                    (true, false) => "u",
                    (false, true) => "a",
                    _ => "x",
                });
                all_in &= u || d;
                failing_ran |= r.is_err() && d;
            }
            // built against the crate's default feature set the call is the serial loop, whatever
            // pool it runs in: exactly the sketches before the first failing one are updated, the
            // failing one is left as its own call leaves it, the rest is untouched
            #[cfg(not(feature = "disk"))]
            {
                let first_bad = before
                    .iter()
                    .position(|b| {
                        let mut single = b.clone();
                        (if prot { single.add_protein(&seq) } else { single.add_sequence(&seq, force) }).is_err()
                    })
                    .unwrap_or(usize::MAX);
                for (i, t) in tags.iter().enumerate() {
                    all_in &= if i <= first_bad { *t == "a" || *t == "=" } else { *t == "u" || *t == "=" };
                }
            }
            return if all_in && failing_ran {
                format!("{} legal", err(e))
            } else {
                format!("{} illegal {} {}", err(e), tags.join(","), sig_obs(&sig))
            };
        }
    }
    format!("ok {}", sig_obs(&sig))
}

// ------------------------------------------------------------------------------- C-API plumbing

type H = *mut SourmashKmerMinHash;

/// set by the panic hook: a panic inside an `ffi_fn!` body is swallowed by `landingpad` (it only
/// reaches `LAST_ERROR` when the library's own hook is installed), so it is made visible here
static PANICKED: std::sync::atomic::AtomicBool = std::sync::atomic::AtomicBool::new(false);

fn ffi_begin() {
    static HOOK: std::sync::Once = std::sync::Once::new();
    HOOK.call_once(|| {
        std::panic::set_hook(Box::new(|_| {
            PANICKED.store(true, std::sync::atomic::Ordering::SeqCst);
        }))
    });
    PANICKED.store(false, std::sync::atomic::Ordering::SeqCst);
    unsafe { sourmash_err_clear() };
}

/// `sourmash_err_get_last_code` after a call, as the native op's `err <Variant>` (codes of
/// `SourmashErrorCode`, src/core/src/errors.rs); `None` = the call reported no error
fn ffi_end() -> Option<String> {
    let code = unsafe { sourmash_err_get_last_code() } as u32;
    unsafe { sourmash_err_clear() };
    if PANICKED.swap(false, std::sync::atomic::Ordering::SeqCst) {
        return Some("PANIC".into());
    }
    let name = match code {
        0 => return None,
        101 => "MismatchKSizes",
        102 => "MismatchDNAProt",
        103 => "MismatchScaled",
        104 => "MismatchSeed",
        108 => "NeedsAbundanceTracking",
        109 => "CannotUpsampleScaled",
        c => return Some(format!("err code{}", c)),
    };
    Some(format!("err {}", name))
}

fn ffi_mol(s: &str) -> FfiHashFunctions {
    match s {
        "protein" => FfiHashFunctions::Murmur64Protein,
        "dayhoff" => FfiHashFunctions::Murmur64Dayhoff,
        "hp" => FfiHashFunctions::Murmur64Hp,
        _ => FfiHashFunctions::Murmur64Dna,
    }
}

fn mol_name(h: &HashFunctions) -> &'static str {
    match h {
        HashFunctions::Murmur64Dna => "dna",
        HashFunctions::Murmur64Protein => "protein",
        HashFunctions::Murmur64Dayhoff => "dayhoff",
        HashFunctions::Murmur64Hp => "hp",
        _ => "custom",
    }
}

/// take a `u64` array handed out by the library (`Box<[u64]>::into_raw`) and give it back
unsafe fn take_slice(p: *const u64, n: usize) -> Vec<u64> {
    if p.is_null() {
        return vec![];
    }
    let v = std::slice::from_raw_parts(p, n).to_vec();
    kmerminhash_slice_free(p as *mut u64, n);
    v
}

/// `mins=… abunds=…` read through `kmerminhash_get_mins` / `kmerminhash_track_abundance` /
/// `kmerminhash_get_abunds`
unsafe fn ffi_obs(h: H) -> String {
    ffi_begin();
    let mut n = 0usize;
    let p = kmerminhash_get_mins(h, &mut n);
    if let Some(e) = ffi_end() {
        return e;
    }
    let mins = take_slice(p, n);
    let ab = if kmerminhash_track_abundance(h) {
        ffi_begin();
        let mut n = 0usize;
        let p = kmerminhash_get_abunds(h, &mut n);
        if let Some(e) = ffi_end() {
            return e;
        }
        Some(take_slice(p, n))
    } else {
        None
    };
    show_obs(&mins, &ab)
}

/// run `f` on the register as a C handle and put the (possibly modified) sketch back
fn with_handle<T>(st: &mut St, r: u64, f: impl FnOnce(H) -> T) -> Option<T> {
    match st.regs.remove(&r) {
        Some(Reg::V(x)) => unsafe {
            let h = SourmashKmerMinHash::from_rust(x);
            let out = f(h);
            st.regs.insert(r, Reg::V(*SourmashKmerMinHash::into_rust(h)));
            Some(out)
        },
        Some(other) => {
            st.regs.insert(r, other);
            None
        }
        None => None,
    }
}

/// a handle to a copy of the register (freed by the caller with `kmerminhash_free`)
fn copy_handle(st: &St, r: u64) -> Option<H> {
    match st.regs.get(&r) {
        Some(Reg::V(x)) => Some(unsafe { SourmashKmerMinHash::from_rust(x.clone()) }),
        _ => None,
    }
}

fn params(num: u32, max_hash: u64, ksize: u64, seed: u64, mol: &str, track: bool) -> String {
    format!("num={} max_hash={} ksize={} seed={} mol={} track={}", num, max_hash, ksize, seed, mol, track as u8)
}

/// the ops that go through the C API; `None` = not one of them
fn cstep(st: &mut St, ws: &[&str]) -> Option<String> {
    let n = |i: usize| -> u64 { ws[i].parse().unwrap() };
    let bad = || Some("bad-op".to_string());
    Some(match ws[0] {
        "cnew" => unsafe {
            // cnew R scaled num ksize mol seed track
            if st.tree {
                return bad();
            }
            ffi_begin();
            let h = kmerminhash_new(n(2), n(4) as u32, ffi_mol(ws[5]), n(6), ws[7] == "1", n(3) as u32);
            if let Some(e) = ffi_end() {
                return Some(e);
            }
            st.regs.insert(n(1), Reg::V(*SourmashKmerMinHash::into_rust(h)));
            "ok".into()
        },
        "cobs" => with_handle(st, n(1), |h| unsafe { ffi_obs(h) })?,
        "cparams" => with_handle(st, n(1), |h| unsafe {
            let hf: HashFunctions = kmerminhash_hash_function(h).into();
            let m = mol_name(&hf);
            // the three predicates must agree with the enum
            let flags = (kmerminhash_is_protein(h), kmerminhash_dayhoff(h), kmerminhash_hp(h));
            if flags != (m == "protein", m == "dayhoff", m == "hp") {
                return format!("inconsistent-molecule {} {:?}", m, flags);
            }
            params(
                kmerminhash_num(h),
                kmerminhash_max_hash(h),
                kmerminhash_ksize(h) as u64,
                kmerminhash_seed(h),
                m,
                kmerminhash_track_abundance(h),
            )
        })?,
        "cadd" => {
            let ps = parse_pairs(ws[2]);
            with_handle(st, n(1), |h| unsafe {
                for (x, a) in &ps {
                    ffi_begin();
                    kmerminhash_add_hash_with_abundance(h, *x, *a);
                    if let Some(e) = ffi_end() {
                        return e;
                    }
                }
                ffi_obs(h)
            })?
        }
        "caddm" => {
            let hs = parse_nats(ws[2]);
            with_handle(st, n(1), |h| unsafe {
                ffi_begin();
                kmerminhash_add_many(h, hs.as_ptr(), hs.len());
                ffi_end().unwrap_or_else(|| ffi_obs(h))
            })?
        }
        "csetab" => {
            // csetab R clear h:a,…
            let ps = parse_pairs(ws[3]);
            let (hs, abs): (Vec<u64>, Vec<u64>) = ps.into_iter().unzip();
            let clear = ws[2] == "1";
            with_handle(st, n(1), |h| unsafe {
                ffi_begin();
                kmerminhash_set_abundances(h, hs.as_ptr(), abs.as_ptr(), hs.len(), clear);
                ffi_end().unwrap_or_else(|| ffi_obs(h))
            })?
        }
        "crmmany" => {
            let hs = parse_nats(ws[2]);
            with_handle(st, n(1), |h| unsafe {
                ffi_begin();
                kmerminhash_remove_many(h, hs.as_ptr(), hs.len());
                ffi_end().unwrap_or_else(|| ffi_obs(h))
            })?
        }
        "cmerge" | "caddfrom" | "crmfrom" => {
            let o = copy_handle(st, n(2))?;
            let op = ws[0];
            let out = with_handle(st, n(1), |h| unsafe {
                ffi_begin();
                match op {
                    "cmerge" => kmerminhash_merge(h, o),
                    "caddfrom" => kmerminhash_add_from(h, o),
                    _ => kmerminhash_remove_from(h, o),
                }
                ffi_end().unwrap_or_else(|| ffi_obs(h))
            });
            unsafe { kmerminhash_free(o) };
            out?
        }
        "cisect" => unsafe {
            // cisect D A B: the sketch returned by kmerminhash_intersection(A, B) goes to register D
            let (a, b) = (copy_handle(st, n(2))?, copy_handle(st, n(3))?);
            ffi_begin();
            let r = kmerminhash_intersection(a, b);
            let e = ffi_end();
            kmerminhash_free(a);
            kmerminhash_free(b);
            if let Some(e) = e {
                if !r.is_null() {
                    kmerminhash_free(r);
                }
                return Some(e);
            }
            if r.is_null() {
                return Some("null".into());
            }
            let s = ffi_obs(r);
            st.regs.insert(n(1), Reg::V(*SourmashKmerMinHash::into_rust(r)));
            s
        },
        "cisize" | "ccc" | "ccompat" => unsafe {
            let (a, b) = (copy_handle(st, n(1))?, copy_handle(st, n(2))?);
            ffi_begin();
            let s = match ws[0] {
                "cisize" => {
                    let mut u = u64::MAX;
                    let c = kmerminhash_intersection_union_size(a, b, &mut u);
                    format!("common={} union={}", c, u)
                }
                "ccc" => format!("common={}", kmerminhash_count_common(a, b, ws[3] == "1")),
                _ => format!("compatible={}", kmerminhash_is_compatible(a, b) as u8),
            };
            let e = ffi_end();
            kmerminhash_free(a);
            kmerminhash_free(b);
            e.unwrap_or(s)
        },
        _ => return None,
    })
}

struct St {
    tree: bool,
    regs: BTreeMap<u64, Reg>,
}

fn err<E: std::fmt::Debug>(e: E) -> String {
    let s = format!("{:?}", e);
    // variant name only
    let name: String = s.chars().take_while(|c| c.is_alphanumeric()).collect();
    format!("err {}", name)
}

fn step(st: &mut St, ws: &[&str]) -> String {
    let n = |i: usize| -> u64 { ws[i].parse().unwrap() };
    // an op on a register that does not exist (its producer failed earlier in the case)
    let reg_args: &[usize] = match ws[0] {
        "copy" | "conv" => &[2],
        "obs" | "cobs" | "params" | "cparams" | "add" | "cadd" | "addm" | "caddm" | "rmmany" | "crmmany" | "csetab" => &[1],
        "merge" | "cmerge" | "addfrom" | "caddfrom" | "rmfrom" | "crmfrom" | "inflate" | "infab" | "isect" | "isize" | "cisize"
        | "cc" | "ccc" | "ccompat" => &[1, 2],
        "cisect" => &[2, 3],
        _ => &[],
    };
    if reg_args.iter().any(|i| !st.regs.contains_key(&n(*i))) {
        return "bad-reg".into();
    }
    if ws[0].starts_with('c') && !matches!(ws[0], "case" | "copy" | "cc" | "conv") {
        return cstep(st, ws).unwrap_or_else(|| "bad-op".into());
    }
    match ws[0] {
        "case" => {
            st.tree = ws.get(2) == Some(&"tree");
            st.regs.clear();
            "ok".into()
        }
        "new" => {
            // new R scaled num ksize mol seed track
            let (scaled, num, ksize, seed, track) = (n(2), n(3) as u32, n(4) as u32, n(6), ws[7] == "1");
            let r = if st.tree {
                Reg::T(KmerMinHashBTree::new(scaled, ksize, mol(ws[5]), seed, track, num))
            } else {
                Reg::V(KmerMinHash::new(scaled, ksize, mol(ws[5]), seed, track, num))
            };
            st.regs.insert(n(1), r);
            "ok".into()
        }
        "newmh" => {
            // newmh R max_hash num ksize mol seed track: the ceiling is given as it is (a sketch read
            // from a file, or built by a caller of the builder), not derived from a scaled value
            let (max_hash, num, ksize, seed, track) = (n(2), n(3) as u32, n(4) as u32, n(6), ws[7] == "1");
            let r = if st.tree {
                Reg::T(
                    KmerMinHashBTree::builder()
                        .num(num)
                        .ksize(ksize)
                        .hash_function(mol(ws[5]))
                        .seed(seed)
                        .max_hash(max_hash)
                        .abunds(if track { Some(Default::default()) } else { None })
                        .build(),
                )
            } else {
                Reg::V(
                    KmerMinHash::builder()
                        .num(num)
                        .ksize(ksize)
                        .hash_function(mol(ws[5]))
                        .seed(seed)
                        .max_hash(max_hash)
                        .abunds(if track { Some(vec![]) } else { None })
                        .build(),
                )
            };
            st.regs.insert(n(1), r);
            "ok".into()
        }
        // build R ctor max_hash num ksize mol seed track items : a sketch handed over ready-made to a
        // public constructor (`b` builder, `bc` builder incl. the tree's current_max, `js` JSON document)
        "build" => match build_reg(st.tree, ws[2], n(3), n(4) as u32, n(5) as u32, ws[6], n(7), ws[8] == "1", &parse_pairs(ws[9]), ws.get(10).map(|w| w.parse().unwrap())) {
            Some(r) => {
                let s = obs(&r);
                st.regs.insert(n(1), r);
                s
            }
            None => "bad-op".into(),
        },
        "newdef" => {
            let r = if st.tree { Reg::T(KmerMinHashBTree::default()) } else { Reg::V(KmerMinHash::default()) };
            st.regs.insert(n(1), r);
            "ok".into()
        }
        // conv R1 R2 how : R1 := R2 through Clone / the From conversions there and back / serde
        "conv" => match convert(&st.regs[&n(2)], ws[3]) {
            Some(r) => {
                let p = match &r {
                    Reg::V(x) => params(x.num(), x.max_hash(), x.ksize() as u64, x.seed(), mol_name(&x.hash_function()), x.track_abundance()),
                    Reg::T(x) => params(x.num(), x.max_hash(), x.ksize() as u64, x.seed(), mol_name(&x.hash_function()), x.track_abundance()),
                };
                let s = format!("{} {}", p, obs(&r));
                st.regs.insert(n(1), r);
                s
            }
            None => "bad-op".into(),
        },
        "params" => match &st.regs[&n(1)] {
            Reg::V(x) => params(x.num(), x.max_hash(), x.ksize() as u64, x.seed(), mol_name(&x.hash_function()), x.track_abundance()),
            Reg::T(x) => params(x.num(), x.max_hash(), x.ksize() as u64, x.seed(), mol_name(&x.hash_function()), x.track_abundance()),
        },
        "copy" => {
            let b = st.regs[&n(2)].clone();
            st.regs.insert(n(1), b);
            "ok".into()
        }
        "obs" => obs(&st.regs[&n(1)]),
        "add" => {
            let ps = parse_pairs(ws[2]);
            let r = st.regs.get_mut(&n(1)).unwrap();
            match r {
                Reg::V(x) => x.add_many_with_abund(&ps).unwrap(),
                Reg::T(x) => x.add_many_with_abund(&ps).unwrap(),
            }
            obs(r)
        }
        "addm" => {
            let hs = parse_nats(ws[2]);
            let r = st.regs.get_mut(&n(1)).unwrap();
            match r {
                Reg::V(x) => x.add_many(&hs).unwrap(),
                Reg::T(x) => x.add_many(&hs).unwrap(),
            }
            obs(r)
        }
        "rmmany" => {
            let hs = parse_nats(ws[2]);
            let r = st.regs.get_mut(&n(1)).unwrap();
            match r {
                Reg::V(x) => x.remove_many(hs).unwrap(),
                Reg::T(x) => x.remove_many(hs).unwrap(),
            }
            obs(r)
        }
        "merge" | "addfrom" | "rmfrom" | "inflate" => {
            let b = st.regs[&n(2)].clone();
            let r = st.regs.get_mut(&n(1)).unwrap();
            let res = match (ws[0], &mut *r, &b) {
                ("merge", Reg::V(x), Reg::V(y)) => x.merge(y),
                ("merge", Reg::T(x), Reg::T(y)) => x.merge(y),
                ("addfrom", Reg::V(x), Reg::V(y)) => x.add_from(y),
                ("addfrom", Reg::T(x), Reg::T(y)) => x.add_from(y),
                ("rmfrom", Reg::V(x), Reg::V(y)) => x.remove_from(y),
                // the tree type has no remove_from; remove_many over the other's hashes is its spelling
                ("rmfrom", Reg::T(x), Reg::T(y)) => x.remove_many(y.mins()),
                ("inflate", Reg::V(x), Reg::V(y)) => x.inflate(y),
                _ => return "bad-op".into(),
            };
            match res {
                Ok(()) => obs(r),
                Err(e) => err(e),
            }
        }
        "isect" => {
            let res = match (&st.regs[&n(1)], &st.regs[&n(2)]) {
                (Reg::V(x), Reg::V(y)) => x.intersection(y),
                (Reg::T(x), Reg::T(y)) => x.intersection(y),
                _ => return "bad-op".into(),
            };
            match res {
                Ok((c, u)) => format!("common={} union={}", show_mins(&c), u),
                Err(e) => err(e),
            }
        }
        "isize" => {
            let res = match (&st.regs[&n(1)], &st.regs[&n(2)]) {
                (Reg::V(x), Reg::V(y)) => x.intersection_size(y),
                (Reg::T(x), Reg::T(y)) => x.intersection_size(y),
                _ => return "bad-op".into(),
            };
            match res {
                Ok((c, u)) => format!("common={} union={}", c, u),
                Err(e) => err(e),
            }
        }
        "infab" => {
            let res = match (&st.regs[&n(1)], &st.regs[&n(2)]) {
                (Reg::V(x), Reg::V(y)) => x.inflated_abundances(y),
                _ => return "bad-op".into(),
            };
            match res {
                Ok((l, t)) => format!("abunds={} total={}", show_nats(l), t),
                Err(e) => err(e),
            }
        }
        "sigadd" => sig_add(n(1) as usize, ws[2] == "1", false, ws[3], &ws[4..]),
        "sigprot" => sig_add(n(1) as usize, false, true, ws[2], &ws[3..]),
        "cc" => {
            let d = ws[3] == "1";
            let res = match (&st.regs[&n(1)], &st.regs[&n(2)]) {
                (Reg::V(x), Reg::V(y)) => x.count_common(y, d),
                (Reg::T(x), Reg::T(y)) => x.count_common(y, d),
                _ => return "bad-op".into(),
            };
            match res {
                Ok(c) => format!("common={}", c),
                Err(e) => err(e),
            }
        }
        _ => "bad-op".into(),
    }
}

// ------------------------------------------------------------------------------------ generator

#[derive(Clone)]
struct Params {
    scaled: u64,
    num: u64,
    ksize: u64,
    mol: &'static str,
    seed: u64,
    track: bool,
    /// `Some(x)`: the ceiling is given directly (`newmh`), not derived from `scaled`
    max_hash: Option<u64>,
}
impl Params {
    fn line(&self, r: u64) -> String {
        match self.max_hash {
            Some(x) => format!(
                "newmh {} {} {} {} {} {} {}",
                r, x, self.num, self.ksize, self.mol, self.seed, self.track as u8
            ),
            None => format!(
                "new {} {} {} {} {} {} {}",
                r, self.scaled, self.num, self.ksize, self.mol, self.seed, self.track as u8
            ),
        }
    }
    fn ceiling(&self) -> u64 {
        self.max_hash.unwrap_or_else(|| max_hash_for_scaled(self.scaled))
    }
}

/// a ceiling that is NOT (in general) in the image of `max_hash_for_scaled`: next to a canonical one,
/// between two canonical ones, powers of two, the top of the range, tiny, anything
fn odd_max_hash(r: &mut Rng) -> u64 {
    let s = *r.pick(&[1u64, 2, 2, 3, 10, 1000, 1000, 10_000, 1 << 20, 1 << 32]);
    let c = max_hash_for_scaled(s);
    let x = match r.below(11) {
        0 => c.saturating_add(1),
        1 => c - 1,
        2 => c.saturating_add(r.range(2, 6000)),
        3 => c - r.range(2, 6000).min(c - 1),
        4 => {
            // strictly between the ceilings of scaled = s + 1 and scaled = s
            let d = max_hash_for_scaled(s + 1);
            d + 1 + r.below(c - d - 1)
        }
        5 => 1u64 << 63,
        6 => u64::MAX - 1,
        7 => *r.pick(&[12_000_000_000_000_000_000u64, 7_000_000_000_000_000_000, (1 << 63) + 1, (1 << 63) - 1, u64::MAX, 1 << 62, 1 << 32]),
        8 => r.bits(64),
        9 => {
            let b = r.range(8, 63) as u32;
            r.bits(b)
        }
        _ => r.range(1, 200),
    };
    x.max(1)
}

/// a small universe of hashes: tiny values, values around the ceiling `mh`, the top of the u64 range
/// and — when `mh` is not what `scaled()` maps back to — values around the re-derived ceiling
/// `max_hash_for_scaled(scaled_for_max_hash(mh))` and inside the band between the two
fn universe(r: &mut Rng, mh: u64) -> Vec<u64> {
    let mut u: Vec<u64> = vec![];
    let c = if mh != 0 { max_hash_for_scaled(scaled_for_max_hash(mh)) } else { 0 };
    let (lo, hi) = (c.min(mh), c.max(mh));
    let band = lo != hi;
    let n = r.range(4, 14);
    for _ in 0..n {
        let v = match r.below(if band { 9 } else { 6 }) {
            0 => r.below(12),
            1 => r.bits(64),
            2 if mh != 0 => mh - r.below(4).min(mh),
            3 if mh != 0 => mh.saturating_add(r.below(3)),
            4 => u64::MAX - r.below(3),
            6 | 7 => lo + 1 + r.below(hi - lo),
            8 => *r.pick(&[lo.saturating_sub(1), lo, lo + 1, hi - 1, hi, hi.saturating_add(1)]),
            _ => r.range(1, 40),
        };
        if !u.contains(&v) {
            u.push(v);
        }
    }
    u
}

fn subset(r: &mut Rng, u: &[u64], p_num: u64, p_den: u64) -> Vec<u64> {
    u.iter().cloned().filter(|_| r.chance(p_num, p_den)).collect()
}

/// a multiset of insertions over the key set `keys`: every key at least once, some repeated, shuffled
fn items(r: &mut Rng, keys: &[u64], max_ab: u64) -> Vec<(u64, u64)> {
    let mut v: Vec<(u64, u64)> = vec![];
    for &k in keys {
        let reps = if r.chance(1, 4) { r.range(2, 3) } else { 1 };
        for _ in 0..reps {
            v.push((k, r.range(1, max_ab)));
        }
    }
    // Fisher-Yates
    for i in (1..v.len()).rev() {
        let j = r.below(i as u64 + 1) as usize;
        v.swap(i, j);
    }
    v
}

fn show_items(v: &[(u64, u64)]) -> String {
    if v.is_empty() {
        "-".into()
    } else {
        v.iter().map(|(h, a)| format!("{}:{}", h, a)).collect::<Vec<_>>().join(",")
    }
}

/// the ops that exist under the same name (+ `c`) and with the same answer in the C-API stream
const CAPI_OPS: [&str; 11] = ["new", "obs", "params", "add", "addm", "rmmany", "merge", "addfrom", "rmfrom", "isize", "cc"];

/// one op line; in a C-API case three out of four go through the exported function
fn emit(o: &mut Out, r: &mut Rng, capi: bool, line: &str) {
    let op = line.split(' ').next().unwrap();
    if capi && CAPI_OPS.contains(&op) && r.chance(3, 4) {
        o.op(&format!("c{}", line));
    } else {
        o.op(line);
    }
}

fn emit_add(o: &mut Out, r: &mut Rng, capi: bool, reg: u64, it: &[(u64, u64)]) {
    if r.chance(1, 4) {
        emit(o, r, capi, &format!("addm {} {}", reg, show_nats(it.iter().map(|p| p.0))));
    } else {
        emit(o, r, capi, &format!("add {} {}", reg, show_items(it)));
    }
}


/// a removal / insertion list as callers hand them over: not sorted, some entries repeated
fn dup_shuffle(r: &mut Rng, ks: &[u64]) -> Vec<u64> {
    let mut v: Vec<u64> = ks.to_vec();
    for &k in ks {
        if r.chance(1, 3) {
            v.push(k);
            if r.chance(1, 4) {
                v.push(k);
            }
        }
    }
    for i in (1..v.len()).rev() {
        let j = r.below(i as u64 + 1) as usize;
        v.swap(i, j);
    }
    v
}

/// what a sketch with ceiling `mh` (0: none) and bound `num` (0: none) holds after the insertions
/// `it` (not used for sketches with both bounds)
fn content(it: &[(u64, u64)], mh: u64, num: u64) -> Vec<(u64, u64)> {
    let mut m: BTreeMap<u64, u64> = BTreeMap::new();
    for (h, a) in it {
        if mh == 0 || *h <= mh {
            *m.entry(*h).or_insert(0) += a;
        }
    }
    let mut v: Vec<(u64, u64)> = m.into_iter().collect();
    if num != 0 {
        v.truncate(num as usize);
    }
    v
}

/// register `reg` := a sketch with parameters `p` standing for the insertions `it`: `new`/`newmh` +
/// insertions, or the content handed over ready-made to a public constructor (builder with and
/// without the tree's `current_max`, a JSON document listing the hashes in any order); afterwards
/// sometimes sent through `Clone`, the `From` conversions (there and back) or a serde round trip
fn make_operand(o: &mut Out, r: &mut Rng, capi: bool, tree: bool, reg: u64, p: &Params, it: &[(u64, u64)]) {
    let hybrid = p.num != 0 && p.ceiling() != 0;
    if !hybrid && r.chance(1, 4) {
        let mut c = content(it, p.ceiling(), p.num);
        // an explicitly given `current_max` is taken as it is; with a ceiling (no num bound) the code
        // never reads it, so a stale one must not matter.  (A stale cache on a NUM tree sketch changes
        // what later adds do - caller's responsibility; model column only, see kind 0 and
        // corpus/C03/builder-stale-max.ops.)
        let mut stale: Option<u64> = None;
        let ctor = match r.below(5) {
            0 => "js",
            1 => "bc",
            2 if tree && p.num == 0 && !c.is_empty() => {
                stale = Some(match r.below(3) {
                    0 => 0,
                    1 => c[r.below(c.len() as u64) as usize].0 / 2,
                    _ => c[0].0,
                });
                "bc"
            }
            _ => "b",
        };
        if ctor == "js" {
            for i in (1..c.len()).rev() {
                let j = r.below(i as u64 + 1) as usize;
                c.swap(i, j);
            }
        }
        o.op(&format!(
            "build {} {} {} {} {} {} {} {} {}{}",
            reg, ctor, p.ceiling(), p.num, p.ksize, p.mol, p.seed, p.track as u8, show_items(&c),
            match stale {
                Some(x) => format!(" {}", x),
                None => String::new(),
            }
        ));
    } else {
        emit(o, r, capi, &p.line(reg));
        emit_add(o, r, capi, reg, it);
    }
    if r.chance(1, 5) {
        // the conversions re-derive the ceiling from scaled(): only canonical ceilings survive them
        let canonical = p.max_hash.is_none();
        let how = match r.below(4) {
            1 if canonical || hybrid => "rt",
            2 if canonical || hybrid => "rtr",
            3 => "serde",
            _ => "clone",
        };
        o.op(&format!("conv {} {} {}", reg, reg, how));
    }
}

const REGIMES: [&str; 6] = ["disjoint", "nested", "superset", "overlap", "empty", "identical"];

fn second_keys(r: &mut Rng, regime: &str, u: &[u64], a: &[u64]) -> Vec<u64> {
    match regime {
        "disjoint" => {
            let rest: Vec<u64> = u.iter().cloned().filter(|x| !a.contains(x)).collect();
            subset(r, &rest, 3, 4)
        }
        "nested" => subset(r, a, 1, 2),
        "superset" => {
            let mut b = a.to_vec();
            for x in subset(r, u, 1, 2) {
                if !b.contains(&x) {
                    b.push(x);
                }
            }
            b
        }
        "empty" => vec![],
        "identical" => a.to_vec(),
        _ => subset(r, u, 1, 2),
    }
}


// --------------------------------------------------------- generator: Signature::add_sequence cases

fn gen_specs(r: &mut Rng, nsk: u64, only: Option<bool>) -> String {
    // `only`: Some(true) = DNA sketches only, Some(false) = protein-family only, None = mixed
    let mut v = vec![];
    let mut kms: Vec<(&'static str, u64, u64)> = vec![];
    for _ in 0..nsk {
        let dna = match only {
            Some(d) => d,
            None => r.chance(1, 2),
        };
        let mut m = if dna { "dna" } else { *r.pick(&["protein", "dayhoff", "hp"]) };
        let mut k = if dna { *r.pick(&[3u64, 4, 5, 7, 11, 21, 31]) } else { *r.pick(&[3u64, 6, 7, 9, 10, 15, 21, 30]) };
        let mut seed = *r.pick(&[42u64, 42, 7]);
        // every fourth sketch after the first repeats the ksize and molecule type of an earlier one
        // (num/scaled, container and abundance drawn afresh), half of these with the OTHER seed:
        // sketches of one signature that see the same k-mers but must hash them differently
        if !kms.is_empty() && r.chance(1, 4) {
            let (pm, pk, ps): (&'static str, u64, u64) = *r.pick(&kms);
            if only.is_none() || only == Some(pm == "dna") {
                m = pm;
                k = pk;
                seed = if r.chance(1, 2) { ps } else if ps == 42 { 7 } else { 42 };
            }
        }
        kms.push((m, k, seed));
        let is_num = r.chance(1, 3);
        let scaled = if is_num { 0 } else { *r.pick(&[1u64, 1, 2, 3, 10]) };
        let num = if is_num { *r.pick(&[1u64, 3, 8, 500]) } else { 0 };
        v.push(format!(
            "{}:{}:{}:{}:{}:{}:{}",
            if r.chance(1, 2) { "v" } else { "t" },
            scaled,
            num,
            k,
            m,
            seed,
            r.chance(1, 2) as u8
        ));
    }
    v.join(";")
}

/// DNA-looking bytes: mostly ACGT in either case, sometimes an `N`/other invalid byte (never >= 0x80)
fn gen_dna(r: &mut Rng, bad: bool) -> Vec<u8> {
    let n = match r.below(6) {
        0 => r.below(6),
        1 => r.range(20, 40),
        _ => r.range(6, 130),
    } as usize;
    let mut v: Vec<u8> = (0..n).map(|_| *r.pick(b"ACGTACGTACGTacgt")).collect();
    if bad && n > 0 {
        for _ in 0..r.range(1, 3) {
            let i = r.below(n as u64) as usize;
            v[i] = *r.pick(b"NNnXx-*R.");
        }
    }
    // repeats, so that abundances above 1 and duplicate hashes occur
    if r.chance(1, 3) && n > 8 {
        let w = v[..n / 2].to_vec();
        v.extend(w);
    }
    v
}

fn gen_prot(r: &mut Rng) -> Vec<u8> {
    let n = match r.below(5) {
        0 => r.below(4),
        _ => r.range(2, 60),
    } as usize;
    (0..n).map(|_| *r.pick(b"ACDEFGHIKLMNPQRSTVWYACDEFGHIKLMNPQRSTVWYacdkly*XBZJ-")).collect()
}

fn gen_sig_cases(o: &mut Out, r: &mut Rng, n: u64) {
    for _ in 0..n {
        let kind = r.below(8);
        let nsk = match r.below(4) {
            0 => 1,
            1 => r.range(2, 3),
            _ => r.range(4, 12),
        };
        if kind == 0 {
            // add_protein; DNA sketches in the signature make the call fail (InvalidHashFunction)
            let only = if r.chance(2, 3) { Some(false) } else { None };
            let specs = gen_specs(r, nsk, only);
            o.case("sig add_protein");
            let seqs: Vec<String> = (0..r.range(1, 3)).map(|_| hex(&gen_prot(r))).collect();
            for t in [1, 2, 4, 8] {
                o.op(&format!("sigprot {} {} {}", t, specs, seqs.join(" ")));
            }
            continue;
        }
        let only = match r.below(4) {
            0 => Some(true),
            1 => Some(false),
            _ => None,
        };
        let specs = gen_specs(r, nsk, only);
        let bad = kind <= 3;
        o.case(&format!("sig add_sequence{}", if bad { " invalid-bases" } else { "" }));
        // one to three sequences; with `bad`, the invalid bases sit in the last or in a middle one
        let nseq = r.range(1, 3) as usize;
        let bad_at = r.below(nseq as u64) as usize;
        let seqs: Vec<String> = (0..nseq).map(|i| hex(&gen_dna(r, bad && i == bad_at))).collect();
        let forces: &[u8] = if bad { &[0, 1] } else if r.chance(1, 2) { &[0] } else { &[1] };
        for f in forces {
            for t in [1, 2, 4, 8] {
                o.op(&format!("sigadd {} {} {} {}", t, f, specs, seqs.join(" ")));
            }
        }
    }
}

/// "large batch" family: ONE call of add_many / add_many_with_abund / add_from / merge / remove_many
/// (and the C API spellings) with 500-5000 elements, duplicates included, sizes straddling 511/512/513,
/// 1023/1025, 4095/4097; sketches answered by digests (`DIGEST_ABOVE`).  The spec column is the sketch
/// of the whole insertion multiset, so "sketching two halves separately and merging = sketching the
/// concatenation in one call, summed abundances" is checked on every case.
fn gen_big(o: &mut Out, r: &mut Rng, rounds: u64) {
    const SZ: [u64; 13] = [512, 513, 511, 1025, 1023, 600, 4097, 4095, 2000, 5000, 1024, 4096, 500];
    let mut i = 0u64;
    for _ in 0..rounds {
        for tree in [false, true] {
            for track in [true, false] {
                for param in 0..3u64 {
                    let ty = if tree { "tree" } else { "vec" };
                    let capi = !tree && i % 2 == 1;
                    let pa = Params {
                        scaled: [1u64, 2, 0][param as usize],
                        num: if param == 2 { *r.pick(&[300u64, 700, 1500]) } else { 0 },
                        ksize: 21,
                        mol: "dna",
                        seed: 42,
                        track,
                        max_hash: None,
                    };
                    let (s1, s2, s3) = (SZ[(i % 13) as usize], SZ[((i * 5 + 3) % 13) as usize], SZ[((i * 7 + 1) % 13) as usize]);
                    // number of distinct values the batches are drawn from: below, around and above the
                    // batch sizes (every batch longer than the pool repeats hashes)
                    let distinct = match i % 4 {
                        3 => 4200,
                        0 => 300,
                        1 => 700,
                        _ => 1100,
                    };
                    let mh = pa.ceiling();
                    let pool: Vec<u64> = (0..distinct)
                        .map(|_| {
                            if mh != 0 && mh != u64::MAX && r.chance(1, 8) {
                                mh.saturating_add(r.range(0, 3000))
                            } else {
                                r.below(1 << 22)
                            }
                        })
                        .collect();
                    let draw = |r: &mut Rng, n: u64| -> Vec<u64> { (0..n).map(|_| *r.pick(&pool)).collect() };
                    o.case(&format!(
                        "{} big num={} scaled={} mh={}{} sizes {}/{}/{} distinct {}",
                        ty, pa.num, pa.scaled, mh, if capi { " capi" } else { "" }, s1, s2, s3, distinct
                    ));
                    let a = draw(r, s1);
                    emit(o, r, capi, &pa.line(0));
                    emit(o, r, capi, &format!("addm 0 {}", show_nats(a.iter().cloned())));
                    // the same data sketched in two halves and merged
                    emit(o, r, capi, &pa.line(1));
                    emit(o, r, capi, &pa.line(2));
                    let cut = (s1 / 2) as usize;
                    emit(o, r, capi, &format!("addm 1 {}", show_nats(a[..cut].iter().cloned())));
                    emit(o, r, capi, &format!("addm 2 {}", show_nats(a[cut..].iter().cloned())));
                    emit(o, r, capi, "merge 1 2");
                    emit(o, r, capi, "isize 0 1");
                    // add_many_with_abund in one call
                    let p: Vec<(u64, u64)> = draw(r, s2).into_iter().map(|h| (h, r.range(1, 3))).collect();
                    emit(o, r, capi, &pa.line(3));
                    o.op(&format!("add 3 {}", show_items(&p)));
                    emit(o, r, capi, "addfrom 3 0");
                    emit(o, r, capi, "cc 3 0 0");
                    emit(o, r, capi, "isize 3 0");
                    o.op("isect 0 3");
                    o.op("copy 4 3");
                    emit(o, r, capi, "merge 4 0");
                    let rm = draw(r, s3);
                    emit(o, r, capi, &format!("rmmany 4 {}", show_nats(rm.iter().cloned())));
                    o.op("copy 5 0");
                    emit(o, r, capi, "rmfrom 5 1");
                    if !tree {
                        o.op("copy 6 0");
                        o.op(&format!("csetab 6 {} {}", i % 2, show_items(&p)));
                    }
                    // a second big batch into the already large sketch (non-empty receiver)
                    let b = draw(r, s3);
                    emit(o, r, capi, &format!("addm 0 {}", show_nats(b.iter().cloned())));
                    emit(o, r, capi, "obs 1");
                    i += 1;
                }
            }
        }
    }
}

fn gen(a: &Args) {
    let mut r = Rng::new(a.seed);
    let mut o = Out::new();
    let ncases = if a.cases > 0 {
        a.cases
    } else if a.tier == "thorough" {
        60_000
    } else {
        3_000
    };
    let mols = ["dna", "protein", "dayhoff", "hp"];
    // Signature::add_sequence / add_protein over several sketches (T-sig_add), one case in six
    gen_sig_cases(&mut o, &mut r, ncases / 6);
    // a few large-batch cases (quick: one round = 12 cases)
    gen_big(&mut o, &mut r, if a.tier == "thorough" { 8 } else { 1 });
    for ci in 0..ncases {
        let ty = if ci % 2 == 0 { "vec" } else { "tree" };
        let kind = r.below(13);
        // the C API knows the vector type only; half of its cases go (mostly) through it
        let capi = ty == "vec" && r.chance(1, 2);
        // parameters of the first operand
        let is_num = r.chance(1, 3);
        let mut pa = Params {
            scaled: if is_num { 0 } else { *r.pick(&[1u64, 2, 1000]) },
            num: if is_num { *r.pick(&[1u64, 3, 8]) } else { 0 },
            ksize: *r.pick(&[21u64, 31]),
            mol: mols[r.below(4) as usize],
            seed: *r.pick(&[42u64, 7]),
            track: r.chance(1, 2),
            max_hash: None,
        };
        // two scaled cases in five: a ceiling given directly
        if !is_num && r.chance(2, 5) {
            pa.max_hash = Some(odd_max_hash(&mut r));
        }
        // a num bound AND a ceiling (KmerMinHash::new(scaled, .., num) / the builder allow it; the
        // property does not speak about such sketches): model column only
        let hybrid = kind >= 2 && kind != 12 && r.chance(1, 25);
        if hybrid {
            pa.num = *r.pick(&[1u64, 3, 8]);
            if is_num {
                if r.chance(1, 2) {
                    pa.scaled = *r.pick(&[1u64, 2, 1000]);
                } else {
                    pa.max_hash = Some(odd_max_hash(&mut r));
                }
            }
        }
        let tag = format!(
            "num={} scaled={} mh={}{}{}",
            pa.num,
            if pa.max_hash.is_some() { "given".to_string() } else { pa.scaled.to_string() },
            pa.ceiling(),
            if capi { " capi" } else { "" },
            if hybrid { " nospec hybrid" } else { "" }
        );
        let u = universe(&mut r, pa.ceiling());
        if kind == 0 {
            // ---- abundance 0 insertions: the two types differ (vector removes, tree ignores); model only
            o.case(&format!("{} nospec zero-abundance {}", ty, tag));
            let ka = subset(&mut r, &u, 2, 3);
            let it = items(&mut r, &ka, 4);
            if ty == "tree" && pa.num != 0 && pa.ceiling() == 0 && r.chance(1, 2) {
                // a num tree sketch handed to the builder with an explicit, stale current_max (0, below
                // or above the largest hash), sometimes cloned, then adds and removals: the model carries
                // the cache (Sk.addTc / removeTc)
                let c = content(&it, 0, pa.num);
                let top = c.last().map(|p| p.0).unwrap_or(0);
                let cm = match r.below(4) {
                    0 => 0,
                    1 => top / 2,
                    2 => top.saturating_add(r.range(1, 50)),
                    _ => c.first().map(|p| p.0).unwrap_or(0),
                };
                o.op(&format!(
                    "build 0 bc 0 {} {} {} {} {} {} {}",
                    pa.num, pa.ksize, pa.mol, pa.seed, pa.track as u8, show_items(&c), cm
                ));
                if r.chance(1, 3) {
                    o.op("conv 0 0 clone");
                }
                let ks = subset(&mut r, &u, 1, 2);
                o.op(&format!("addm 0 {}", show_nats(dup_shuffle(&mut r, &ks))));
                let kr = subset(&mut r, &u, 1, 3);
                o.op(&format!("rmmany 0 {}", show_nats(dup_shuffle(&mut r, &kr))));
                let ke = subset(&mut r, &u, 1, 2);
                let ie = items(&mut r, &ke, 3);
                o.op(&format!("add 0 {}", show_items(&ie)));
                o.op("copy 1 0");
                o.op(&format!("addm 1 {}", show_nats(dup_shuffle(&mut r, &ka))));
            } else {
                emit(&mut o, &mut r, capi, &pa.line(0));
                emit(&mut o, &mut r, capi, &format!("add 0 {}", show_items(&it)));
            }
            for _ in 0..r.range(1, 4) {
                let h = *r.pick(&u);
                emit(&mut o, &mut r, capi, &format!("add 0 {}:0", h));
                if r.chance(1, 2) {
                    let l = format!("add 0 {}:{}", h, r.range(1, 3));
                    emit(&mut o, &mut r, capi, &l);
                }
            }
            if ty == "vec" {
                // set_abundances with zeros among the pairs (sorted before they are applied)
                let kz = subset(&mut r, &u, 1, 2);
                let mut iz = items(&mut r, &kz, 3);
                for p in iz.iter_mut() {
                    if r.chance(1, 3) {
                        p.1 = 0;
                    }
                }
                o.op(&format!("csetab 0 {} {}", r.below(2), show_items(&iz)));
            }
            emit(&mut o, &mut r, capi, "obs 0");
            continue;
        }
        if kind == 1 {
            // ---- incompatible pair: one or several parameters differ; every fallible entry point
            let mut pb = pa.clone();
            pb.track = r.chance(1, 2);
            let mut diffs = vec![];
            let first = r.below(4);
            for f in 0..4u64 {
                if f == first || r.chance(1, 4) {
                    diffs.push(f);
                }
            }
            for f in &diffs {
                match f {
                    0 => pb.ksize = if pa.ksize == 21 { 31 } else { 21 },
                    1 => pb.mol = mols[((mols.iter().position(|m| *m == pa.mol).unwrap() as u64 + r.range(1, 3)) % 4) as usize],
                    2 => {
                        // max_hash differs: another scaled, scaled vs num, or a ceiling next to the
                        // other one (same scaled(), different max_hash)
                        if is_num {
                            pb.scaled = *r.pick(&[1u64, 2, 1000]);
                            pb.num = 0;
                        } else if r.chance(1, 3) {
                            let c = pa.ceiling();
                            let d = *r.pick(&[1u64, 1, 2, 1000]);
                            let x = if c > d && (r.chance(1, 2) || c.checked_add(d).is_none()) { c - d } else { c.saturating_add(d) };
                            pb.max_hash = Some(if x == c { c - 1 } else { x });
                        } else {
                            pb.max_hash = None;
                            let others: Vec<u64> =
                                [1u64, 2, 1000, 0].iter().cloned().filter(|s| *s == 0 || max_hash_for_scaled(*s) != pa.ceiling()).collect();
                            pb.scaled = *r.pick(&others);
                            pb.num = if pb.scaled == 0 { *r.pick(&[1u64, 3, 8]) } else { 0 };
                        }
                    }
                    _ => pb.seed = if pa.seed == 42 { 7 } else { 42 },
                }
            }
            o.case(&format!("{} incompatible {:?} {}", ty, diffs, tag));
            emit(&mut o, &mut r, capi, &pa.line(0));
            emit(&mut o, &mut r, capi, &pb.line(1));
            let ka = subset(&mut r, &u, 2, 3);
            let kb = subset(&mut r, &u, 2, 3);
            let (ia, ib) = (items(&mut r, &ka, 4), items(&mut r, &kb, 4));
            emit_add(&mut o, &mut r, capi, 0, &ia);
            emit_add(&mut o, &mut r, capi, 1, &ib);
            emit(&mut o, &mut r, capi, "params 0");
            emit(&mut o, &mut r, capi, "params 1");
            // count_common also with downsample = true: when the scaled values differ too, the
            // error is the one of the OTHER mismatching parameter (T-reject_downsample)
            let mut ops = vec!["merge 0 1", "merge 1 0", "isect 0 1", "isect 1 0", "cc 0 1 0", "cc 1 0 0", "cc 0 1 1", "cc 1 0 1"];
            if ty == "vec" {
                ops.extend(["inflate 0 1", "inflate 1 0", "infab 0 1", "infab 1 0", "cisect 2 0 1", "cisect 2 1 0", "ccompat 0 1", "ccompat 1 0"]);
            }
            for op in ops {
                emit(&mut o, &mut r, capi, op);
                // a failed operation leaves both operands unchanged
                emit(&mut o, &mut r, capi, "obs 0");
                emit(&mut o, &mut r, capi, "obs 1");
            }
            // native only: kmerminhash_intersection_union_size swallows the error (findings/C03.json,
            // corpus/C03/capi-isize-incompatible.ops)
            for op in ["isize 0 1", "isize 1 0"] {
                o.op(op);
                o.op("obs 0");
                o.op("obs 1");
            }
            continue;
        }
        if kind == 10 || kind == 11 {
            // ---- pouring between sketches of DIFFERENT parameters through the entry points that check
            // nothing (add_from, add_many, add_many_with_abund, remove_from, remove_many, set_abundances;
            // native and C API): every hash goes through the receiver's own admission rule
            let src_num = r.chance(1, 3);
            let mut ps = Params {
                scaled: if src_num { 0 } else { *r.pick(&[1u64, 2, 1000]) },
                num: if src_num { *r.pick(&[1u64, 3, 8]) } else { 0 },
                ksize: pa.ksize,
                mol: pa.mol,
                seed: pa.seed,
                track: r.chance(1, 2),
                max_hash: None,
            };
            if !src_num && r.chance(1, 5) {
                ps.max_hash = Some(odd_max_hash(&mut r));
            }
            if r.chance(1, 4) {
                match r.below(3) {
                    0 => ps.ksize = if pa.ksize == 21 { 31 } else { 21 },
                    1 => ps.mol = mols[r.below(4) as usize],
                    _ => ps.seed = if pa.seed == 42 { 7 } else { 42 },
                }
            }
            let mut u = u.clone();
            for x in universe(&mut r, ps.ceiling()) {
                if !u.contains(&x) {
                    u.push(x);
                }
            }
            let empty = r.chance(1, 2);
            o.case(&format!("{} pour {} src num={} mh={}{}", ty, tag, ps.num, ps.ceiling(), if empty { " empty" } else { "" }));
            let tree = ty == "tree";
            if empty {
                emit(&mut o, &mut r, capi, &pa.line(0));
            } else {
                let ka = subset(&mut r, &u, 1, 2);
                let ia = items(&mut r, &ka, 4);
                make_operand(&mut o, &mut r, capi, tree, 0, &pa, &ia);
            }
            let kb = subset(&mut r, &u, 3, 4);
            let ib = items(&mut r, &kb, 4);
            make_operand(&mut o, &mut r, capi, tree, 1, &ps, &ib);
            emit(&mut o, &mut r, capi, "params 0");
            emit(&mut o, &mut r, capi, "params 1");
            o.op("copy 3 0");
            emit(&mut o, &mut r, capi, "addfrom 3 1");
            emit(&mut o, &mut r, capi, "obs 3");
            emit(&mut o, &mut r, capi, "isize 3 0");
            emit(&mut o, &mut r, capi, "rmfrom 3 1");
            o.op("copy 4 0");
            let l = format!("addm 4 {}", show_nats(dup_shuffle(&mut r, &kb)));
            emit(&mut o, &mut r, capi, &l);
            let ku = subset(&mut r, &u, 1, 2);
            let l = format!("rmmany 4 {}", show_nats(dup_shuffle(&mut r, &ku)));
            emit(&mut o, &mut r, capi, &l);
            o.op("copy 5 0");
            emit(&mut o, &mut r, capi, &format!("add 5 {}", show_items(&ib)));
            emit(&mut o, &mut r, capi, "cc 5 3 0");
            if ty == "vec" {
                o.op("copy 6 0");
                o.op(&format!("csetab 6 {} {}", r.below(2), show_items(&ib)));
            }
            // the other direction: the source sketch receives
            o.op("copy 7 1");
            emit(&mut o, &mut r, capi, "addfrom 7 0");
            emit(&mut o, &mut r, capi, "rmfrom 7 0");
            emit(&mut o, &mut r, capi, "obs 0");
            emit(&mut o, &mut r, capi, "obs 1");
            continue;
        }
        if kind == 12 {
            // ---- downsample = true on operands that differ in scaled AND in one (or two) more
            // parameters: ksize / molecule / seed, or a num sketch against a scaled one.  The
            // recursion through downsample_scaled must still end in check_compatible.
            let scs = [1u64, 2, 3, 10, 1000, 1 << 20];
            let sa = *r.pick(&scs);
            let mut sb = *r.pick(&scs);
            while sb == sa {
                sb = *r.pick(&scs);
            }
            pa.scaled = sa;
            pa.num = 0;
            pa.max_hash = None;
            let mut pb = pa.clone();
            pb.scaled = sb;
            pb.track = r.chance(1, 2);
            let what = r.below(6);
            let mut tagk = vec![];
            if what == 0 || what == 3 {
                pb.ksize = if pa.ksize == 21 { 31 } else { 21 };
                tagk.push("ksize");
            }
            if what == 1 || what == 3 || what == 4 {
                pb.mol = mols[((mols.iter().position(|m| *m == pa.mol).unwrap() as u64 + r.range(1, 3)) % 4) as usize];
                tagk.push("mol");
            }
            if what == 2 || what == 4 {
                pb.seed = if pa.seed == 42 { 7 } else { 42 };
                tagk.push("seed");
            }
            if what == 5 {
                // num against scaled (scaled() = 0 on the num side), plus sometimes another parameter
                pb.scaled = 0;
                pb.num = *r.pick(&[1u64, 3, 8]);
                tagk.push("num-vs-scaled");
                if r.chance(1, 2) {
                    pb.ksize = if pa.ksize == 21 { 31 } else { 21 };
                    tagk.push("ksize");
                }
            }
            let (p0, p1) = if r.chance(1, 2) { (pa.clone(), pb.clone()) } else { (pb.clone(), pa.clone()) };
            o.case(&format!("{} downsample-incompatible {} scaled {}/{}{}", ty, tagk.join("+"), p0.scaled, p1.scaled, if capi { " capi" } else { "" }));
            let mut u = universe(&mut r, p0.ceiling());
            for x in universe(&mut r, p1.ceiling()) {
                if !u.contains(&x) {
                    u.push(x);
                }
            }
            emit(&mut o, &mut r, capi, &p0.line(0));
            emit(&mut o, &mut r, capi, &p1.line(1));
            let ka = subset(&mut r, &u, 2, 3);
            let kb = subset(&mut r, &u, 2, 3);
            let (ia, ib) = (items(&mut r, &ka, 4), items(&mut r, &kb, 4));
            emit_add(&mut o, &mut r, capi, 0, &ia);
            emit_add(&mut o, &mut r, capi, 1, &ib);
            if r.chance(1, 3) {
                let w = r.below(2);
                o.op(&format!("conv {} {} clone", w, w));
            }
            for op in ["cc 0 1 1", "cc 1 0 1", "cc 0 1 0", "cc 1 0 0"] {
                emit(&mut o, &mut r, capi, op);
                emit(&mut o, &mut r, capi, "obs 0");
                emit(&mut o, &mut r, capi, "obs 1");
            }
            continue;
        }
        // ---- compatible pair / triple
        let regime = REGIMES[r.below(REGIMES.len() as u64) as usize];
        let mut pb = pa.clone();
        pb.track = if r.chance(2, 3) { pa.track } else { !pa.track };
        if pa.num != 0 && r.chance(1, 5) {
            pb.num = *r.pick(&[1u64, 3, 8]);
        }
        let mut pc = pa.clone();
        pc.track = if r.chance(2, 3) { pa.track } else { !pa.track };
        let ka = subset(&mut r, &u, 2, 3);
        let kb = second_keys(&mut r, regime, &u, &ka);
        let kc = subset(&mut r, &u, 1, 2);
        let (ia, ib, ic) = (items(&mut r, &ka, 5), items(&mut r, &kb, 5), items(&mut r, &kc, 5));
        o.case(&format!("{} {} {}", ty, regime, tag));
        make_operand(&mut o, &mut r, capi, ty == "tree", 0, &pa, &ia);
        make_operand(&mut o, &mut r, capi, ty == "tree", 1, &pb, &ib);
        make_operand(&mut o, &mut r, capi, ty == "tree", 2, &pc, &ic);
        emit(&mut o, &mut r, capi, "params 0");
        // sizes and intersections, both argument orders
        for op in ["isect 0 1", "isect 1 0", "isize 0 1", "isize 1 0", "cc 0 1 0", "cc 1 0 0", "cc 0 1 1", "isect 0 0", "isize 1 1"] {
            emit(&mut o, &mut r, capi, op);
        }
        // merge: commutativity, idempotence, homomorphism, associativity
        o.op("copy 3 0");
        emit(&mut o, &mut r, capi, "merge 3 1");
        o.op("copy 4 1");
        emit(&mut o, &mut r, capi, "merge 4 0");
        o.op("copy 5 0");
        emit(&mut o, &mut r, capi, "merge 5 0");
        // sketch of the concatenation, built directly (parameters of the merge result)
        let mut pd = pa.clone();
        pd.track = pa.track && pb.track;
        emit(&mut o, &mut r, capi, &pd.line(6));
        let mut cat = ia.clone();
        cat.extend(ib.iter().cloned());
        emit(&mut o, &mut r, capi, &format!("add 6 {}", show_items(&cat)));
        o.op("copy 7 3");
        emit(&mut o, &mut r, capi, "merge 7 2"); // (A ∪ B) ∪ C
        o.op("copy 8 1");
        emit(&mut o, &mut r, capi, "merge 8 2");
        o.op("copy 9 0");
        emit(&mut o, &mut r, capi, "merge 9 8"); // A ∪ (B ∪ C)
        // subtraction, add_from
        o.op("copy 10 0");
        emit(&mut o, &mut r, capi, "rmfrom 10 1");
        o.op("copy 11 0");
        // the removal list as a caller hands it over: any order, entries repeated
        let kr = subset(&mut r, &u, 1, 2);
        let l = format!("rmmany 11 {}", show_nats(dup_shuffle(&mut r, &kr)));
        emit(&mut o, &mut r, capi, &l);
        o.op("copy 12 0");
        emit(&mut o, &mut r, capi, "addfrom 12 1");
        if ty == "vec" {
            o.op("infab 0 1");
            o.op("infab 1 0");
            o.op("copy 13 0");
            o.op("inflate 13 1");
            o.op("copy 14 1");
            o.op("inflate 14 0");
            // the intersection as a sketch (C API only): holds exactly A ∩ B, has the parameters of
            // its first operand — it is compatible with it and A ∪ (A ∩ B) = A
            o.op("cisect 15 0 1");
            o.op("cisect 16 1 0");
            emit(&mut o, &mut r, capi, "params 15");
            o.op("ccompat 0 15");
            o.op("ccompat 0 1");
            o.op("copy 17 0");
            emit(&mut o, &mut r, capi, "merge 17 15");
            emit(&mut o, &mut r, capi, "isize 15 16");
            // set_abundances, with and without clear (what the Python layer builds inflate from)
            let ks = subset(&mut r, &u, 1, 2);
            let is = items(&mut r, &ks, 4);
            o.op("copy 18 0");
            o.op(&format!("csetab 18 {} {}", r.below(2), show_items(&is)));
        }
        // operands are not modified by any of the above
        emit(&mut o, &mut r, capi, "obs 0");
        emit(&mut o, &mut r, capi, "obs 1");
        emit(&mut o, &mut r, capi, "obs 2");
        // keep going on a merged sketch: more insertions after a merge
        if r.chance(1, 3) {
            let ke = subset(&mut r, &u, 1, 3);
            let extra = items(&mut r, &ke, 3);
            emit_add(&mut o, &mut r, capi, 3, &extra);
            emit(&mut o, &mut r, capi, "isize 3 0");
        }
    }
}

fn main() {
    let a = args();
    match a.mode.as_str() {
        "gen" => gen(&a),
        "exec" => exec_loop(
            || St {
                tree: false,
                regs: BTreeMap::new(),
            },
            step,
        ),
        _ => panic!("mode"),
    }
}
