//! C03: sketch operations mirror set operations on the underlying data.
//!
//! Registers hold real `KmerMinHash` / `KmerMinHashBTree` values; every op line calls the real
//! method and prints the observable result.  See lean/Driver/C03.lean for the model/spec side.
use sourmash::encodings::HashFunctions;
use sourmash::sketch::minhash::{max_hash_for_scaled, KmerMinHash, KmerMinHashBTree};
use sourmash::signature::{Signature, SigsTrait};
use sourmash::sketch::Sketch;
use std::collections::BTreeMap;
use verif_harness::*;

#[derive(Clone)]
enum Reg {
    V(KmerMinHash),
    T(KmerMinHashBTree),
}

fn mol(s: &str) -> HashFunctions {
    match s {
        "protein" => HashFunctions::Murmur64Protein,
        "dayhoff" => HashFunctions::Murmur64Dayhoff,
        "hp" => HashFunctions::Murmur64Hp,
        _ => HashFunctions::Murmur64Dna,
    }
}

fn obs(r: &Reg) -> String {
    let (m, a) = match r {
        Reg::V(x) => (x.mins(), x.abunds()),
        Reg::T(x) => (x.mins(), x.abunds()),
    };
    format!(
        "mins={} abunds={}",
        show_nats(m),
        match a {
            Some(a) => show_nats(a),
            None => "none".into(),
        }
    )
}

fn parse_pairs(s: &str) -> Vec<(u64, u64)> {
    if s == "-" || s.is_empty() {
        return vec![];
    }
    s.split(',')
        .map(|w| {
            let mut it = w.split(':');
            let h = it.next().unwrap().parse().unwrap();
            let a = it.next().map(|x| x.parse().unwrap()).unwrap_or(1);
            (h, a)
        })
        .collect()
}


// ------------------------------------------------------------- Signature::add_sequence / add_protein

/// `v:scaled:num:ksize:mol:seed:track` (v = `Sketch::MinHash`, t = `Sketch::LargeMinHash`), `;`-separated
fn build_sig(specs: &str) -> Signature {
    let mut sig = Signature::default();
    for sp in specs.split(';') {
        let f: Vec<&str> = sp.split(':').collect();
        let p = |i: usize| -> u64 { f[i].parse().unwrap() };
        let (scaled, num, ksize, seed, track) = (p(1), p(2) as u32, p(3) as u32, p(5), f[6] == "1");
        let sk = if f[0] == "t" {
            Sketch::LargeMinHash(KmerMinHashBTree::new(scaled, ksize, mol(f[4]), seed, track, num))
        } else {
            Sketch::MinHash(KmerMinHash::new(scaled, ksize, mol(f[4]), seed, track, num))
        };
        sig.push(sk);
    }
    sig
}

fn sk_obs(s: &Sketch) -> String {
    let (m, a) = match s {
        Sketch::MinHash(x) => (x.mins(), x.abunds()),
        Sketch::LargeMinHash(x) => (x.mins(), x.abunds()),
        _ => unreachable!(),
    };
    format!(
        "{}/{}",
        show_nats(m),
        match a {
            Some(a) => show_nats(a),
            None => "none".into(),
        }
    )
}

fn sig_obs(sig: &Signature) -> String {
    sig.sketches().iter().map(sk_obs).collect::<Vec<_>>().join("|")
}

fn pool(threads: usize) -> std::sync::Arc<rayon::ThreadPool> {
    use std::sync::{Arc, Mutex, OnceLock};
    static POOLS: OnceLock<Mutex<BTreeMap<usize, Arc<rayon::ThreadPool>>>> = OnceLock::new();
    let mut g = POOLS.get_or_init(|| Mutex::new(BTreeMap::new())).lock().unwrap();
    g.entry(threads)
        .or_insert_with(|| Arc::new(rayon::ThreadPoolBuilder::new().num_threads(threads).build().unwrap()))
        .clone()
}

/// `sigadd <threads> <force> <specs> <hexseq>…` / `sigprot <threads> <specs> <hexseq>…`: a fresh
/// signature, the sequences added one after the other through `Signature::add_sequence` /
/// `add_protein` inside a pool of `<threads>` threads (default build, sourmash with `branchwater`:
/// the rayon variant; `--no-default-features`: the serial loop of the crate's default feature set,
/// which runs in-line on the calling pool thread).  `ok <sketch>|<sketch>|…` after the last call, or at the first failing call
/// `err <Variant> <sketch>|…` (one thread: the run is deterministic) resp. `err <Variant> legal`
/// (several threads: which of the other sketches were still updated is up to the scheduler; `legal`
/// = every sketch is untouched or equals what the single-sketch call makes of it, and one of the
/// failing sketches was run).
fn sig_add(threads: usize, force: bool, prot: bool, specs: &str, seqs: &[&str]) -> String {
    let mut sig = build_sig(specs);
    let pl = pool(threads);
    for hx in seqs {
        let seq = unhex(hx);
        let before = sig.sketches();
        let res = pl.install(|| if prot { sig.add_protein(&seq) } else { sig.add_sequence(&seq, force) });
        if let Err(e) = res {
            if threads == 1 {
                return format!("{} {}", err(e), sig_obs(&sig));
            }
            // reference: the single-sketch call on a copy of every sketch as it was before
            let after = sig.sketches();
            let mut tags = vec![];
            let mut all_in = true;
            let mut failing_ran = false;
            for (b, a) in before.iter().zip(after.iter()) {
                let mut single = b.clone();
                let r = if prot { single.add_protein(&seq) } else { single.add_sequence(&seq, force) };
                let (u, d) = (sk_obs(b) == sk_obs(a), sk_obs(&single) == sk_obs(a));
                tags.push(match (u, d) {
                    (true, true) => "=",
                    (true, false) => "u",
                    (false, true) => "a",
                    _ => "x",
                });
                all_in &= u || d;
                failing_ran |= r.is_err() && d;
            }
            // built against the crate's default feature set the call is the serial loop, whatever
            // pool it runs in: exactly the sketches before the first failing one are updated, the
            // failing one is left as its own call leaves it, the rest is untouched
            #[cfg(not(feature = "disk"))]
            {
                let first_bad = before
                    .iter()
                    .position(|b| {
                        let mut single = b.clone();
                        (if prot { single.add_protein(&seq) } else { single.add_sequence(&seq, force) }).is_err()
                    })
                    .unwrap_or(usize::MAX);
                for (i, t) in tags.iter().enumerate() {
                    all_in &= if i <= first_bad { *t == "a" || *t == "=" } else { *t == "u" || *t == "=" };
                }
            }
            return if all_in && failing_ran {
                format!("{} legal", err(e))
            } else {
                format!("{} illegal {} {}", err(e), tags.join(","), sig_obs(&sig))
            };
        }
    }
    format!("ok {}", sig_obs(&sig))
}

struct St {
    tree: bool,
    regs: BTreeMap<u64, Reg>,
}

fn err<E: std::fmt::Debug>(e: E) -> String {
    let s = format!("{:?}", e);
    // variant name only
    let name: String = s.chars().take_while(|c| c.is_alphanumeric()).collect();
    format!("err {}", name)
}

fn step(st: &mut St, ws: &[&str]) -> String {
    let n = |i: usize| -> u64 { ws[i].parse().unwrap() };
    match ws[0] {
        "case" => {
            st.tree = ws.get(2) == Some(&"tree");
            st.regs.clear();
            "ok".into()
        }
        "new" => {
            // new R scaled num ksize mol seed track
            let (scaled, num, ksize, seed, track) = (n(2), n(3) as u32, n(4) as u32, n(6), ws[7] == "1");
            let r = if st.tree {
                Reg::T(KmerMinHashBTree::new(scaled, ksize, mol(ws[5]), seed, track, num))
            } else {
                Reg::V(KmerMinHash::new(scaled, ksize, mol(ws[5]), seed, track, num))
            };
            st.regs.insert(n(1), r);
            "ok".into()
        }
        "copy" => {
            let b = st.regs[&n(2)].clone();
            st.regs.insert(n(1), b);
            "ok".into()
        }
        "obs" => obs(&st.regs[&n(1)]),
        "add" => {
            let ps = parse_pairs(ws[2]);
            let r = st.regs.get_mut(&n(1)).unwrap();
            match r {
                Reg::V(x) => x.add_many_with_abund(&ps).unwrap(),
                Reg::T(x) => x.add_many_with_abund(&ps).unwrap(),
            }
            obs(r)
        }
        "addm" => {
            let hs = parse_nats(ws[2]);
            let r = st.regs.get_mut(&n(1)).unwrap();
            match r {
                Reg::V(x) => x.add_many(&hs).unwrap(),
                Reg::T(x) => x.add_many(&hs).unwrap(),
            }
            obs(r)
        }
        "rmmany" => {
            let hs = parse_nats(ws[2]);
            let r = st.regs.get_mut(&n(1)).unwrap();
            match r {
                Reg::V(x) => x.remove_many(hs).unwrap(),
                Reg::T(x) => x.remove_many(hs).unwrap(),
            }
            obs(r)
        }
        "merge" | "addfrom" | "rmfrom" | "inflate" => {
            let b = st.regs[&n(2)].clone();
            let r = st.regs.get_mut(&n(1)).unwrap();
            let res = match (ws[0], &mut *r, &b) {
                ("merge", Reg::V(x), Reg::V(y)) => x.merge(y),
                ("merge", Reg::T(x), Reg::T(y)) => x.merge(y),
                ("addfrom", Reg::V(x), Reg::V(y)) => x.add_from(y),
                ("addfrom", Reg::T(x), Reg::T(y)) => x.add_from(y),
                ("rmfrom", Reg::V(x), Reg::V(y)) => x.remove_from(y),
                // the tree type has no remove_from; remove_many over the other's hashes is its spelling
                ("rmfrom", Reg::T(x), Reg::T(y)) => x.remove_many(y.mins()),
                ("inflate", Reg::V(x), Reg::V(y)) => x.inflate(y),
                _ => return "bad-op".into(),
            };
            match res {
                Ok(()) => obs(r),
                Err(e) => err(e),
            }
        }
        "isect" => {
            let res = match (&st.regs[&n(1)], &st.regs[&n(2)]) {
                (Reg::V(x), Reg::V(y)) => x.intersection(y),
                (Reg::T(x), Reg::T(y)) => x.intersection(y),
                _ => return "bad-op".into(),
            };
            match res {
                Ok((c, u)) => format!("common={} union={}", show_nats(c), u),
                Err(e) => err(e),
            }
        }
        "isize" => {
            let res = match (&st.regs[&n(1)], &st.regs[&n(2)]) {
                (Reg::V(x), Reg::V(y)) => x.intersection_size(y),
                (Reg::T(x), Reg::T(y)) => x.intersection_size(y),
                _ => return "bad-op".into(),
            };
            match res {
                Ok((c, u)) => format!("common={} union={}", c, u),
                Err(e) => err(e),
            }
        }
        "infab" => {
            let res = match (&st.regs[&n(1)], &st.regs[&n(2)]) {
                (Reg::V(x), Reg::V(y)) => x.inflated_abundances(y),
                _ => return "bad-op".into(),
            };
            match res {
                Ok((l, t)) => format!("abunds={} total={}", show_nats(l), t),
                Err(e) => err(e),
            }
        }
        "sigadd" => sig_add(n(1) as usize, ws[2] == "1", false, ws[3], &ws[4..]),
        "sigprot" => sig_add(n(1) as usize, false, true, ws[2], &ws[3..]),
        "cc" => {
            let d = ws[3] == "1";
            let res = match (&st.regs[&n(1)], &st.regs[&n(2)]) {
                (Reg::V(x), Reg::V(y)) => x.count_common(y, d),
                (Reg::T(x), Reg::T(y)) => x.count_common(y, d),
                _ => return "bad-op".into(),
            };
            match res {
                Ok(c) => format!("common={}", c),
                Err(e) => err(e),
            }
        }
        _ => "bad-op".into(),
    }
}

// ------------------------------------------------------------------------------------ generator

#[derive(Clone)]
struct Params {
    scaled: u64,
    num: u64,
    ksize: u64,
    mol: &'static str,
    seed: u64,
    track: bool,
}
impl Params {
    fn line(&self, r: u64) -> String {
        format!(
            "new {} {} {} {} {} {} {}",
            r, self.scaled, self.num, self.ksize, self.mol, self.seed, self.track as u8
        )
    }
}

/// a small universe of hashes: tiny values, values around the ceiling, the top of the u64 range
fn universe(r: &mut Rng, scaled: u64) -> Vec<u64> {
    let mut u: Vec<u64> = vec![];
    let mh = max_hash_for_scaled(scaled);
    let n = r.range(4, 14);
    for _ in 0..n {
        let v = match r.below(6) {
            0 => r.below(12),
            1 => r.bits(64),
            2 if mh != 0 => mh - r.below(4).min(mh),
            3 if mh != 0 => mh.saturating_add(r.below(3)),
            4 => u64::MAX - r.below(3),
            _ => r.range(1, 40),
        };
        if !u.contains(&v) {
            u.push(v);
        }
    }
    u
}

fn subset(r: &mut Rng, u: &[u64], p_num: u64, p_den: u64) -> Vec<u64> {
    u.iter().cloned().filter(|_| r.chance(p_num, p_den)).collect()
}

/// a multiset of insertions over the key set `keys`: every key at least once, some repeated, shuffled
fn items(r: &mut Rng, keys: &[u64], max_ab: u64) -> Vec<(u64, u64)> {
    let mut v: Vec<(u64, u64)> = vec![];
    for &k in keys {
        let reps = if r.chance(1, 4) { r.range(2, 3) } else { 1 };
        for _ in 0..reps {
            v.push((k, r.range(1, max_ab)));
        }
    }
    // Fisher-Yates
    for i in (1..v.len()).rev() {
        let j = r.below(i as u64 + 1) as usize;
        v.swap(i, j);
    }
    v
}

fn show_items(v: &[(u64, u64)]) -> String {
    if v.is_empty() {
        "-".into()
    } else {
        v.iter().map(|(h, a)| format!("{}:{}", h, a)).collect::<Vec<_>>().join(",")
    }
}

fn emit_add(o: &mut Out, r: &mut Rng, reg: u64, it: &[(u64, u64)]) {
    if r.chance(1, 4) {
        o.op(&format!("addm {} {}", reg, show_nats(it.iter().map(|p| p.0))));
    } else {
        o.op(&format!("add {} {}", reg, show_items(it)));
    }
}

const REGIMES: [&str; 6] = ["disjoint", "nested", "superset", "overlap", "empty", "identical"];

fn second_keys(r: &mut Rng, regime: &str, u: &[u64], a: &[u64]) -> Vec<u64> {
    match regime {
        "disjoint" => {
            let rest: Vec<u64> = u.iter().cloned().filter(|x| !a.contains(x)).collect();
            subset(r, &rest, 3, 4)
        }
        "nested" => subset(r, a, 1, 2),
        "superset" => {
            let mut b = a.to_vec();
            for x in subset(r, u, 1, 2) {
                if !b.contains(&x) {
                    b.push(x);
                }
            }
            b
        }
        "empty" => vec![],
        "identical" => a.to_vec(),
        _ => subset(r, u, 1, 2),
    }
}


// --------------------------------------------------------- generator: Signature::add_sequence cases

fn gen_specs(r: &mut Rng, nsk: u64, only: Option<bool>) -> String {
    // `only`: Some(true) = DNA sketches only, Some(false) = protein-family only, None = mixed
    let mut v = vec![];
    let mut kms: Vec<(&'static str, u64, u64)> = vec![];
    for _ in 0..nsk {
        let dna = match only {
            Some(d) => d,
            None => r.chance(1, 2),
        };
        let mut m = if dna { "dna" } else { *r.pick(&["protein", "dayhoff", "hp"]) };
        let mut k = if dna { *r.pick(&[3u64, 4, 5, 7, 11, 21, 31]) } else { *r.pick(&[3u64, 6, 7, 9, 10, 15, 21, 30]) };
        let mut seed = *r.pick(&[42u64, 42, 7]);
        // every fourth sketch after the first repeats the ksize and molecule type of an earlier one
        // (num/scaled, container and abundance drawn afresh), half of these with the OTHER seed:
        // sketches of one signature that see the same k-mers but must hash them differently
        if !kms.is_empty() && r.chance(1, 4) {
            let (pm, pk, ps): (&'static str, u64, u64) = *r.pick(&kms);
            if only.is_none() || only == Some(pm == "dna") {
                m = pm;
                k = pk;
                seed = if r.chance(1, 2) { ps } else if ps == 42 { 7 } else { 42 };
            }
        }
        kms.push((m, k, seed));
        let is_num = r.chance(1, 3);
        let scaled = if is_num { 0 } else { *r.pick(&[1u64, 1, 2, 3, 10]) };
        let num = if is_num { *r.pick(&[1u64, 3, 8, 500]) } else { 0 };
        v.push(format!(
            "{}:{}:{}:{}:{}:{}:{}",
            if r.chance(1, 2) { "v" } else { "t" },
            scaled,
            num,
            k,
            m,
            seed,
            r.chance(1, 2) as u8
        ));
    }
    v.join(";")
}

/// DNA-looking bytes: mostly ACGT in either case, sometimes an `N`/other invalid byte (never >= 0x80)
fn gen_dna(r: &mut Rng, bad: bool) -> Vec<u8> {
    let n = match r.below(6) {
        0 => r.below(6),
        1 => r.range(20, 40),
        _ => r.range(6, 130),
    } as usize;
    let mut v: Vec<u8> = (0..n).map(|_| *r.pick(b"ACGTACGTACGTacgt")).collect();
    if bad && n > 0 {
        for _ in 0..r.range(1, 3) {
            let i = r.below(n as u64) as usize;
            v[i] = *r.pick(b"NNnXx-*R.");
        }
    }
    // repeats, so that abundances above 1 and duplicate hashes occur
    if r.chance(1, 3) && n > 8 {
        let w = v[..n / 2].to_vec();
        v.extend(w);
    }
    v
}

fn gen_prot(r: &mut Rng) -> Vec<u8> {
    let n = match r.below(5) {
        0 => r.below(4),
        _ => r.range(2, 60),
    } as usize;
    (0..n).map(|_| *r.pick(b"ACDEFGHIKLMNPQRSTVWYACDEFGHIKLMNPQRSTVWYacdkly*XBZJ-")).collect()
}

fn gen_sig_cases(o: &mut Out, r: &mut Rng, n: u64) {
    for _ in 0..n {
        let kind = r.below(8);
        let nsk = match r.below(4) {
            0 => 1,
            1 => r.range(2, 3),
            _ => r.range(4, 12),
        };
        if kind == 0 {
            // add_protein; DNA sketches in the signature make the call fail (InvalidHashFunction)
            let only = if r.chance(2, 3) { Some(false) } else { None };
            let specs = gen_specs(r, nsk, only);
            o.case("sig add_protein");
            let seqs: Vec<String> = (0..r.range(1, 3)).map(|_| hex(&gen_prot(r))).collect();
            for t in [1, 2, 4, 8] {
                o.op(&format!("sigprot {} {} {}", t, specs, seqs.join(" ")));
            }
            continue;
        }
        let only = match r.below(4) {
            0 => Some(true),
            1 => Some(false),
            _ => None,
        };
        let specs = gen_specs(r, nsk, only);
        let bad = kind <= 3;
        o.case(&format!("sig add_sequence{}", if bad { " invalid-bases" } else { "" }));
        // one to three sequences; with `bad`, the invalid bases sit in the last or in a middle one
        let nseq = r.range(1, 3) as usize;
        let bad_at = r.below(nseq as u64) as usize;
        let seqs: Vec<String> = (0..nseq).map(|i| hex(&gen_dna(r, bad && i == bad_at))).collect();
        let forces: &[u8] = if bad { &[0, 1] } else if r.chance(1, 2) { &[0] } else { &[1] };
        for f in forces {
            for t in [1, 2, 4, 8] {
                o.op(&format!("sigadd {} {} {} {}", t, f, specs, seqs.join(" ")));
            }
        }
    }
}

fn gen(a: &Args) {
    let mut r = Rng::new(a.seed);
    let mut o = Out::new();
    let ncases = if a.cases > 0 {
        a.cases
    } else if a.tier == "thorough" {
        60_000
    } else {
        3_000
    };
    let mols = ["dna", "protein", "dayhoff", "hp"];
    // Signature::add_sequence / add_protein over several sketches (T-sig_add), one case in six
    gen_sig_cases(&mut o, &mut r, ncases / 6);
    for ci in 0..ncases {
        let ty = if ci % 2 == 0 { "vec" } else { "tree" };
        let kind = r.below(10);
        // parameters of the first operand
        let is_num = r.chance(1, 3);
        let pa = Params {
            scaled: if is_num { 0 } else { *r.pick(&[1u64, 2, 1000]) },
            num: if is_num { *r.pick(&[1u64, 3, 8]) } else { 0 },
            ksize: *r.pick(&[21u64, 31]),
            mol: mols[r.below(4) as usize],
            seed: *r.pick(&[42u64, 7]),
            track: r.chance(1, 2),
        };
        let u = universe(&mut r, pa.scaled);
        if kind == 0 {
            // ---- abundance 0 insertions: the two types differ (vector removes, tree ignores); model only
            o.case(&format!("{} nospec zero-abundance", ty));
            o.op(&pa.line(0));
            let ka = subset(&mut r, &u, 2, 3);
            let it = items(&mut r, &ka, 4);
            o.op(&format!("add 0 {}", show_items(&it)));
            for _ in 0..r.range(1, 4) {
                let h = *r.pick(&u);
                o.op(&format!("add 0 {}:0", h));
                if r.chance(1, 2) {
                    o.op(&format!("add 0 {}:{}", h, r.range(1, 3)));
                }
            }
            o.op("obs 0");
            continue;
        }
        if kind == 1 {
            // ---- incompatible pair: one or several parameters differ; every fallible entry point
            let mut pb = pa.clone();
            pb.track = r.chance(1, 2);
            let mut diffs = vec![];
            let first = r.below(4);
            for f in 0..4u64 {
                if f == first || r.chance(1, 4) {
                    diffs.push(f);
                }
            }
            for f in &diffs {
                match f {
                    0 => pb.ksize = if pa.ksize == 21 { 31 } else { 21 },
                    1 => pb.mol = mols[((mols.iter().position(|m| *m == pa.mol).unwrap() as u64 + r.range(1, 3)) % 4) as usize],
                    2 => {
                        // max_hash differs: another scaled, or scaled vs num
                        if is_num {
                            pb.scaled = *r.pick(&[1u64, 2, 1000]);
                            pb.num = 0;
                        } else {
                            let others: Vec<u64> = [1u64, 2, 1000, 0].iter().cloned().filter(|s| *s != pa.scaled).collect();
                            pb.scaled = *r.pick(&others);
                            pb.num = if pb.scaled == 0 { *r.pick(&[1u64, 3, 8]) } else { 0 };
                        }
                    }
                    _ => pb.seed = if pa.seed == 42 { 7 } else { 42 },
                }
            }
            o.case(&format!("{} incompatible {:?}", ty, diffs));
            o.op(&pa.line(0));
            o.op(&pb.line(1));
            let ka = subset(&mut r, &u, 2, 3);
            let kb = subset(&mut r, &u, 2, 3);
            let (ia, ib) = (items(&mut r, &ka, 4), items(&mut r, &kb, 4));
            emit_add(&mut o, &mut r, 0, &ia);
            emit_add(&mut o, &mut r, 1, &ib);
            let mut ops = vec!["merge 0 1", "merge 1 0", "isect 0 1", "isect 1 0", "isize 0 1", "isize 1 0", "cc 0 1 0", "cc 1 0 0"];
            if ty == "vec" {
                ops.extend(["inflate 0 1", "inflate 1 0", "infab 0 1", "infab 1 0"]);
            }
            for op in ops {
                o.op(op);
                // a failed operation leaves both operands unchanged
                o.op("obs 0");
                o.op("obs 1");
            }
            continue;
        }
        // ---- compatible pair / triple
        let regime = REGIMES[r.below(REGIMES.len() as u64) as usize];
        let mut pb = pa.clone();
        pb.track = if r.chance(2, 3) { pa.track } else { !pa.track };
        if is_num && r.chance(1, 5) {
            pb.num = *r.pick(&[1u64, 3, 8]);
        }
        let mut pc = pa.clone();
        pc.track = if r.chance(2, 3) { pa.track } else { !pa.track };
        let ka = subset(&mut r, &u, 2, 3);
        let kb = second_keys(&mut r, regime, &u, &ka);
        let kc = subset(&mut r, &u, 1, 2);
        let (ia, ib, ic) = (items(&mut r, &ka, 5), items(&mut r, &kb, 5), items(&mut r, &kc, 5));
        o.case(&format!("{} {} num={} scaled={}", ty, regime, pa.num, pa.scaled));
        o.op(&pa.line(0));
        o.op(&pb.line(1));
        o.op(&pc.line(2));
        emit_add(&mut o, &mut r, 0, &ia);
        emit_add(&mut o, &mut r, 1, &ib);
        emit_add(&mut o, &mut r, 2, &ic);
        // sizes and intersections, both argument orders
        for op in ["isect 0 1", "isect 1 0", "isize 0 1", "isize 1 0", "cc 0 1 0", "cc 1 0 0", "cc 0 1 1", "isect 0 0", "isize 1 1"] {
            o.op(op);
        }
        // merge: commutativity, idempotence, homomorphism, associativity
        o.op("copy 3 0");
        o.op("merge 3 1");
        o.op("copy 4 1");
        o.op("merge 4 0");
        o.op("copy 5 0");
        o.op("merge 5 0");
        // sketch of the concatenation, built directly (parameters of the merge result)
        let mut pd = pa.clone();
        pd.track = pa.track && pb.track;
        o.op(&pd.line(6));
        let mut cat = ia.clone();
        cat.extend(ib.iter().cloned());
        o.op(&format!("add 6 {}", show_items(&cat)));
        o.op("copy 7 3");
        o.op("merge 7 2"); // (A ∪ B) ∪ C
        o.op("copy 8 1");
        o.op("merge 8 2");
        o.op("copy 9 0");
        o.op("merge 9 8"); // A ∪ (B ∪ C)
        // subtraction, add_from
        o.op("copy 10 0");
        o.op("rmfrom 10 1");
        o.op("copy 11 0");
        o.op(&format!("rmmany 11 {}", show_nats(subset(&mut r, &u, 1, 2))));
        o.op("copy 12 0");
        o.op("addfrom 12 1");
        if ty == "vec" {
            o.op("infab 0 1");
            o.op("infab 1 0");
            o.op("copy 13 0");
            o.op("inflate 13 1");
            o.op("copy 14 1");
            o.op("inflate 14 0");
        }
        // operands are not modified by any of the above
        o.op("obs 0");
        o.op("obs 1");
        o.op("obs 2");
        // keep going on a merged sketch: more insertions after a merge
        if r.chance(1, 3) {
            let ke = subset(&mut r, &u, 1, 3);
            let extra = items(&mut r, &ke, 3);
            emit_add(&mut o, &mut r, 3, &extra);
            o.op("isize 3 0");
        }
    }
}

fn main() {
    let a = args();
    match a.mode.as_str() {
        "gen" => gen(&a),
        "exec" => exec_loop(
            || St {
                tree: false,
                regs: BTreeMap::new(),
            },
            step,
        ),
        _ => panic!("mode"),
    }
}
